"""C03 at the MPO / MPS level: non-in-place routines of tenpy.networks.mpo and the effective Hamiltonians of
tenpy.algorithms.mps_common never corrupt their operands.

For every routine: a fingerprint of every operand MPO / MPS is taken before and proven unchanged after:
  MPO:  per W tensor: dense content (axes ordered by label, so a mere in-place *relabelling order* `itranspose` of an operand --
        which __add__, plus_identity, make_U_II do -- is not counted as corruption), dtype, qtotal, label set, number of stored blocks
        and len(_data) == len(_qdata), _qdata, leg charge data; IdL / IdR / explicit_plus_hc / max_range / bc / dtype / L;
        H.test_sanity() and W.test_sanity() still pass.
  MPS:  dense stored tensors, forms, S, norm, dtype, block bookkeeping, test_sanity().
  numpy operands (make_W_II): values and dtype.

dtype is the point for the propagators (`astype(copy=False)` only aliases when the dtype does not change), so those cases keep the
entries of H CONCRETE (float64 / complex128, exactly representable) and combine them with real / imaginary / complex dt; the same
function runs in both modes.  The other routines run on symbolic W / MPS tensors (object dtype; concrete twin in replay).

Exposes CASES(tier, seed), setup_symbolic(case) and the harness functions; the lead wires it into C03.
"""
import itertools

import numpy as np

from catalogue import mpo_factory as F
from catalogue import build as Bd

BOUNDS = {
    'quick': 'finite chains L<=3 (one infinite L=2 unit cell for the propagators), spin-1/2 with Sz / no charges, spinless fermions with N; '
             'propagators: concrete real and complex H x dt real / imaginary / complex (make_U_I, make_U_II, make_U, make_W_II), symbolic H '
             'with concrete and symbolic dt (make_U_I); all other routines on symbolic W (D<=3, markers) and symbolic chi=2 MPS',
    'thorough': 'additionally fermion parity, L=3 infinite unit cell, swapped markers',
}
STUBS = ['BLAS contract stub', 'numpy facade for tenpy.networks.mpo / mps / terms / site (np.result_type accepts symbolic scalars)']


def setup_symbolic(case=None):
    from symx import stubs
    from symx import scalars as S
    import tenpy.networks.mpo as m1
    import tenpy.networks.mps as m2
    import tenpy.networks.terms as m3
    import tenpy.networks.site as m4

    def result_type(*args):
        if any(S.has_sym(a) for a in args) or any(getattr(a, 'dtype', None) == object or a is object for a in args):
            return np.dtype(object)
        return np.result_type(*args)

    stubs.install_blas()
    stubs.facade_for(m2, m3, m4)
    stubs.facade_for(m1, overrides={'result_type': result_type})


# ---------------------------------------------------------------------------------------------
# fingerprints
def _leg_fp(leg):
    d = dict(ind_len=int(leg.ind_len), qconj=int(leg.qconj), slices=np.array(leg.slices).copy(), charges=np.array(leg.charges).copy(),
             sorted=bool(leg.sorted), bunched=bool(leg.bunched), type=type(leg).__name__)
    return d


def _arr_fp(a, labels=None):
    labels = list(a.get_leg_labels()) if labels is None else list(labels)
    return dict(order=labels, dense=a.to_ndarray().transpose([a.get_leg_index(l) for l in labels]).copy(), dtype=np.dtype(a.dtype), qtotal=np.array(a.qtotal).copy(),
                labels=sorted(a.get_leg_labels()), nblocks=len(a._data), qdata=np.array(a._qdata).copy()[:, [a.get_leg_index(l) for l in labels]],
                qdata_len=len(a._qdata), legs={l: _leg_fp(a.get_leg(l)) for l in labels},
                block_dtypes=sorted(set(str(np.asarray(t).dtype) for t in a._data)))


def mpo_fp(H):
    return dict(kind='MPO', W=[_arr_fp(W, ['wL', 'wR', 'p', 'p*']) for W in H._W], IdL=list(H.IdL), IdR=list(H.IdR),
                plus_hc=bool(H.explicit_plus_hc), max_range=H.max_range, bc=H.bc, dtype=np.dtype(H.dtype), L=H.L, grouped=H.grouped, nW=len(H._W))


def mps_fp(psi):
    return dict(kind='MPS', B=[_arr_fp(B, ['vL', 'p', 'vR']) for B in psi._B], S=[np.array(s).copy() for s in psi._S], form=list(psi.form),
                norm=psi.norm, bc=psi.bc, dtype=np.dtype(psi.dtype), L=psi.L, chi=list(psi.chi))


def _same_struct(x, y):
    if isinstance(x, dict):
        return isinstance(y, dict) and x.keys() == y.keys() and all(_same_struct(x[k], y[k]) for k in x)
    if isinstance(x, np.ndarray):
        return isinstance(y, np.ndarray) and x.shape == y.shape and x.dtype == y.dtype and bool(np.all(x == y))
    if isinstance(x, (list, tuple)):
        return len(x) == len(y) and all(_same_struct(a, b) for a, b in zip(x, y))
    return x == y


def _cmp_arr(ctx, f0, f1, what):
    ctx.prove(f1['nblocks'] == f1['qdata_len'], f'{what}: len(_data) == len(_qdata)')
    ctx.prove(f0['dtype'] == f1['dtype'] and f0['block_dtypes'] == f1['block_dtypes'], f'{what}: dtype unchanged')
    ctx.prove(f0['labels'] == f1['labels'] and _same_struct(f0['qtotal'], f1['qtotal']), f'{what}: labels / qtotal unchanged')
    ctx.prove(_same_struct(f0['legs'], f1['legs']), f'{what}: leg charge data unchanged')
    ctx.prove(f0['nblocks'] == f1['nblocks'] and _same_struct(np.sort(f0['qdata'], axis=0), np.sort(f1['qdata'], axis=0)),
              f'{what}: stored blocks unchanged')
    ctx.prove_eq(f1['dense'], f0['dense'], f'{what}: values unchanged')


def unchanged(ctx, obj, fp0, what):
    """prove that `obj` (MPO / MPS) still has the fingerprint fp0"""
    try:
        obj.test_sanity()
        for t in (obj._W if fp0['kind'] == 'MPO' else obj._B):
            t.test_sanity()
    except Exception as e:  # noqa
        ctx.fail(f'{what}: test_sanity of the operand fails afterwards', f'{type(e).__name__}: {str(e)[:100]}')
        return
    if fp0['kind'] == 'MPO':
        fp1 = mpo_fp(obj)
        ctx.prove(all(fp0[k] == fp1[k] for k in ('IdL', 'IdR', 'plus_hc', 'max_range', 'bc', 'dtype', 'L', 'grouped', 'nW')),
                  f'{what}: IdL / IdR / flags / dtype of the MPO unchanged')
        for i, (a, b) in enumerate(zip(fp0['W'], fp1['W'])):
            _cmp_arr(ctx, a, b, f'{what}: W[{i}]')
    else:
        fp1 = mps_fp(obj)
        ctx.prove(all(fp0[k] == fp1[k] for k in ('form', 'bc', 'dtype', 'L', 'chi')), f'{what}: forms / dtype / chi of the MPS unchanged')
        ctx.prove_eq(fp1['norm'], fp0['norm'], f'{what}: norm of the MPS unchanged')
        for i, (a, b) in enumerate(zip(fp0['S'], fp1['S'])):
            ctx.prove_eq(b, a, f'{what}: S[{i}] unchanged')
        for i, (a, b) in enumerate(zip(fp0['B'], fp1['B'])):
            _cmp_arr(ctx, a, b, f'{what}: B[{i}]')


# ---------------------------------------------------------------------------------------------
# operands
def _sites(kind, conserve, L):
    return [F.make_site(kind, conserve)] * L


def concrete_H(kind='spin', conserve='Sz', L=3, cplx=False, bc='finite'):
    """a concretely built Hamiltonian MPO with exactly representable float64 (or complex128) entries"""
    from tenpy.networks.terms import TermList
    from tenpy.networks.mpo import MPOGraph
    sites = _sites(kind, conserve, L)
    n = L if bc == 'infinite' else L - 1
    a, b = ('Sp', 'Sm') if kind == 'spin' else ('Cd', 'C')
    z = 'Sz' if kind == 'spin' else 'N'
    t = (0.5 + 0.25j) if cplx else 0.5
    terms, st = [], []
    for i in range(n):
        terms += [[(a, i), (b, i + 1)], [(b, i), (a, i + 1)], [(z, i), (z, i + 1)]]
        st += [t, np.conj(t), 0.75]
    for i in range(L):
        terms.append([(z, i)])
        st.append(0.25 * (i + 1))
    if L > 2 or bc == 'infinite':
        terms.append([(z, 0), (z, 2)])
        st.append(1.5)
    H = MPOGraph.from_term_list(TermList(terms, np.array(st)), sites, bc).build_MPO()
    assert H.dtype == (np.complex128 if cplx else np.float64)
    return H


def _sym_H(ctx, name, kind, conserve, L, D=3, cplx=True, swap=False, markers=True):
    sites = _sites(kind, conserve, L)
    if conserve is None:
        IdL, IdR = ([1] * (L + 1), [0] * (L + 1)) if swap else (None, None)
        return sites, F.sym_mpo(ctx, name, sites, [2] + [D] * (L - 1) + [2], markers=markers, cplx=cplx, IdL=IdL, IdR=IdR)
    return sites, F.sym_mpo(ctx, name, sites, like=concrete_H(kind, conserve, L), markers=markers, cplx=cplx)


_VS = {('fermion', 'N', 2): [[0], [0, 1], [1]], ('fermion', 'N', 3): [[0], [0, 1], [1, 2], [2]], ('fermion', 'parity', 3): [[0], [0, 1], [0, 1], [1]],
       ('spin', 'Sz', 2): [[0], [1, -1], [0]], ('spin', 'Sz', 3): [[0], [1, -1], [0, 2], [1]]}


def _sym_psi(ctx, name, sites, kind, conserve, cplx=True):
    L = len(sites)
    vs = [1] + [2] * (L - 1) + [1] if conserve is None else _VS[(kind, conserve, L)]
    return F.sym_mps(ctx, name, sites, vs, cplx=cplx, forms=['A'] + ['B'] * (L - 1))


def _dt(ctx, which, symbolic):
    """time step: 'real' (imaginary-time evolution), 'imag' (real-time evolution), 'complex'"""
    if symbolic:
        x = ctx.real('dt')
        return {'real': x, 'imag': x * 1j, 'complex': x + ctx.real('dt_im') * 1j}[which]
    return {'real': -0.125, 'imag': -0.125j, 'complex': -0.125 + 0.25j}[which]


# ---------------------------------------------------------------------------------------------
# harness functions
def propagator_case(ctx, kind='spin', conserve='Sz', L=3, bc='finite', Hcplx=False, dt='real'):
    """make_U_I / make_U_II / make_U of a CONCRETE real or complex H (dtype is the point) leave H unchanged"""
    H = concrete_H(kind, conserve, L, Hcplx, bc)
    fp = mpo_fp(H)
    t = _dt(ctx, dt, False)
    ctx.note(f'H_{H.dtype}_dt_{dt}')
    U1 = H.make_U_I(t)
    unchanged(ctx, H, fp, 'make_U_I')
    ctx.prove(np.dtype(U1.dtype) == np.result_type(t, H.dtype), 'make_U_I: dtype of the result')
    U1b = H.make_U_I(t)
    for i in range(L):
        ctx.prove_eq(U1b.get_W(i).to_ndarray(), U1.get_W(i).to_ndarray(), 'make_U_I: a second call gives the same propagator')
    # writing through the result must not reach H
    for i in range(L):
        U1.get_W(i).iscale_prefactor(3.)
    unchanged(ctx, H, fp, 'make_U_I + write through the result')
    U2 = H.make_U_II(t)
    unchanged(ctx, H, fp, 'make_U_II')
    for i in range(L):
        U2.get_W(i).iscale_prefactor(3.)
    unchanged(ctx, H, fp, 'make_U_II + write through the result')
    for appr in ('I', 'II'):
        H.make_U(t, appr)
        unchanged(ctx, H, fp, f"make_U(approximation='{appr}')")


def propagator_symbolic_case(ctx, kind='spin', conserve=None, L=2, dt='real', sym_dt=True, cplx=False):
    """make_U_I of an H with symbolic W entries (object dtype: astype never changes the dtype) and concrete / symbolic dt"""
    sites, Hm = _sym_H(ctx, 'w', kind, conserve, L, cplx=cplx)
    fp = mpo_fp(Hm.H)
    t = _dt(ctx, dt, sym_dt)
    U = Hm.H.make_U_I(t)
    unchanged(ctx, Hm.H, fp, 'make_U_I (symbolic W)')
    for i in range(L):
        ctx.prove_eq(fp['W'][i]['dense'], Hm.W[i], 'make_U_I (symbolic W): W still what the harness built')
        U.get_W(i).iscale_prefactor(2.)
    unchanged(ctx, Hm.H, fp, 'make_U_I (symbolic W) + write through the result')


def make_W_II_case(ctx, cplx=False, dt='real', Nr=2, Nc=1):
    """make_W_II(t, A, B, C, D): the numpy operands keep values and dtype"""
    from tenpy.networks.mpo import make_W_II
    rng = np.random.RandomState(5)

    def arr(*shape):
        a = rng.randint(-4, 5, size=shape) / 8.
        if cplx:
            a = a + 1j * rng.randint(-4, 5, size=shape) / 8.
        return a

    ops = dict(A=arr(Nr, Nc, 2, 2), B=arr(Nr, 2, 2), C=arr(Nc, 2, 2), D=arr(2, 2))
    before = {k: (v.copy(), v.dtype) for k, v in ops.items()}
    W = make_W_II(_dt(ctx, dt, False), ops['A'], ops['B'], ops['C'], ops['D'])
    ctx.prove(W.shape == (1 + Nr, 1 + Nc, 2, 2), 'make_W_II: shape of the result')
    for k, v in ops.items():
        ctx.prove(v.dtype == before[k][1], f'make_W_II: dtype of operand {k} unchanged')
        ctx.prove_eq(v, before[k][0], f'make_W_II: operand {k} unchanged')


def algebra_case(ctx, kind='spin', conserve=None, L=2, D=3, swap=False):
    """__add__, dagger, prefactor, plus_identity, copy, is_hermitian / is_equal / overlap on symbolic-W MPOs"""
    sites, A = _sym_H(ctx, 'a', kind, conserve, L, D, swap=swap)
    _, B = _sym_H(ctx, 'b', kind, conserve, L, 2, swap=False)
    fa, fb = mpo_fp(A.H), mpo_fp(B.H)

    def both(what):
        unchanged(ctx, A.H, fa, f'{what}: operand A')
        unchanged(ctx, B.H, fb, f'{what}: operand B')

    C = A.H + B.H
    both('A + B')
    for i in range(L):
        C.get_W(i).iscale_prefactor(2.)
    both('A + B, write through the result')
    Ad = A.H.dagger()
    both('dagger')
    for i in range(L):
        Ad.get_W(i).iscale_prefactor(2.)
        Ad.get_W(i).iconj()
    both('dagger, write through the result')
    op = 'Sz' if kind == 'spin' else 'N'
    for i in range(L):
        A.H.prefactor(i, [op])
    A.H.prefactor(0, [op, op])
    both('prefactor')
    A.H.overlap(B.H)
    B.H.overlap(A.H)
    both('overlap')
    cp = A.H.copy()
    both('copy')
    ctx.prove(cp is not A.H and cp.IdL == A.H.IdL and all(x is y for x, y in zip(cp._W, A.H._W)), 'copy() is the documented shallow copy')


def plus_identity_case(ctx, kind='spin', conserve='Sz', L=3, Hcplx=False, where=(1, ), cplx_ab=False):
    """plus_identity(alpha, beta, sites) with symbolic alpha, beta on a CONCRETE real / complex H (dtype may or may not change)"""
    H = concrete_H(kind, conserve, L, Hcplx)
    fp = mpo_fp(H)
    alpha = ctx.num('alpha', cplx_ab)
    beta = ctx.num('beta', cplx_ab) if len(where) == 1 else ctx.real('beta', pos=True)
    R = H.plus_identity(alpha, beta, sites=list(where))
    unchanged(ctx, H, fp, 'plus_identity')
    for i in range(L):
        R.get_W(i).iscale_prefactor(2.)
    unchanged(ctx, H, fp, 'plus_identity, write through the result')


def termlist_case(ctx, kind='spin', conserve='Sz'):
    """to_TermList (and from_term_list of its result) leave the MPO unchanged; symbolic real strengths away from the cutoff"""
    from tenpy.networks.terms import TermList
    from tenpy.networks.mpo import MPOGraph
    L = 3
    sites = _sites(kind, conserve, L)
    a, b, z = ('Sp', 'Sm', 'Sz') if kind == 'spin' else ('Cd', 'C', 'N')
    terms = [[(a, 0), (b, 1)], [(b, 0), (a, 1)], [(z, 1)], [(z, 0), (z, 2)]]
    st = np.empty(len(terms), dtype=object if ctx.symbolic else float)
    for k in range(len(terms)):
        x = ctx.real(f's{k}')
        ctx.assume((x > 1.e-3) | (x < -1.e-3) if ctx.symbolic else abs(x) > 1.e-3)
        st[k] = x
    tl = TermList(terms, st)
    terms0 = [list(t) for t in tl.terms]
    H = MPOGraph.from_term_list(tl, sites, 'finite').build_MPO()
    fp = mpo_fp(H)
    basis = ['Id', 'Sp', 'Sm', 'Sz'] if kind == 'spin' else ['Id', 'JW', 'C', 'Cd']
    tl2 = H.to_TermList(basis)
    unchanged(ctx, H, fp, 'to_TermList')
    ctx.prove(len(tl2.terms) >= 1, 'to_TermList returns terms')
    H.is_hermitian()
    unchanged(ctx, H, fp, 'is_hermitian')


def state_case(ctx, kind='spin', conserve=None, L=2, D=2, cpsi=(1, 0, 0)):
    """expectation_value, variance, MPOEnvironment (construction, LP/RP, full_contraction), OneSiteH / TwoSiteH (construction, matvec,
    to_matrix, adjoint), apply_naively: H and the MPS operands keep their fingerprint (apply_naively changes only the psi it is given)"""
    from tenpy.networks.mpo import MPOEnvironment
    from tenpy.algorithms import mps_common as MC
    sites, Hm = _sym_H(ctx, 'w', kind, conserve, L, D, cplx=[1] + [0] * (L - 1))
    bra = _sym_psi(ctx, 'b', sites, kind, conserve, cplx=[int(c) for c in cpsi[:L]])
    ket = _sym_psi(ctx, 'k', sites, kind, conserve, cplx=False)
    H = Hm.H
    fh, fb, fk = mpo_fp(H), mps_fp(bra.psi), mps_fp(ket.psi)

    def all_same(what):
        unchanged(ctx, H, fh, f'{what}: H')
        unchanged(ctx, bra.psi, fb, f'{what}: bra')
        unchanged(ctx, ket.psi, fk, f'{what}: ket')

    H.expectation_value(ket.psi)
    H.expectation_value_finite(bra.psi)
    all_same('expectation_value')
    H.variance(ket.psi)
    all_same('variance')
    env = MPOEnvironment(bra.psi, H, ket.psi)
    all_same('MPOEnvironment()')
    for i in range(L):
        env.get_LP(i)
        env.get_RP(i)
        env.full_contraction(i)
    all_same('MPOEnvironment LP / RP / full_contraction')
    env2 = MPOEnvironment(ket.psi, H, ket.psi)
    i0 = 0
    for cls, combine, mr in ((MC.OneSiteH, False, True), (MC.OneSiteH, True, True), (MC.OneSiteH, True, False), (MC.TwoSiteH, False, True),
                             (MC.TwoSiteH, True, True)):
        eff = cls(env2, i0, combine=combine, move_right=mr)
        theta = ket.psi.get_theta(i0, eff.length)
        th = eff.combine_theta(theta)
        fth, flp, frp = _arr_fp(th), _arr_fp(eff.LP), _arr_fp(eff.RP)
        out = eff.matvec(th)
        eff.to_matrix()
        adj = eff.adjoint()
        adj.matvec(th)
        what = f'{cls.__name__}(combine={combine},move_right={mr})'
        all_same(what)
        _cmp_arr(ctx, fth, _arr_fp(th, fth['order']), f'{what}: theta operand of matvec')
        _cmp_arr(ctx, flp, _arr_fp(eff.LP, flp['order']), f'{what}: LP after matvec / adjoint')
        _cmp_arr(ctx, frp, _arr_fp(eff.RP, frp['order']), f'{what}: RP after matvec / adjoint')
        out.iscale_prefactor(2.)
        all_same(what + ', write through the result of matvec')
    # apply_naively modifies the psi it is given (documented) -- nothing else: H, the other state and a copy taken before
    cp = ket.psi.copy()
    fcp = mps_fp(cp)
    H.apply_naively(ket.psi)
    unchanged(ctx, H, fh, 'apply_naively: H')
    unchanged(ctx, bra.psi, fb, 'apply_naively: the other MPS')
    unchanged(ctx, cp, fcp, 'apply_naively: copy of psi taken before')


def CASES(tier, seed):
    cases = []
    O = dict(max_paths=400, max_wall_s=600, validate_paths=1, hard_timeout_s=700)

    def add(fn, name, **params):
        cases.append(dict(name=name, fn=fn, params=params, opts=dict(O)))

    for Hc, dt in itertools.product([False, True], ['real', 'imag', 'complex']):
        nm = f"H {'complex' if Hc else 'real'},dt {dt}"
        add('propagator_case', f'mpo.propagators[spin Sz,L=3,finite,{nm}]', kind='spin', conserve='Sz', L=3, bc='finite', Hcplx=Hc, dt=dt)
    add('propagator_case', 'mpo.propagators[fermion N,L=3,finite,H real,dt real]', kind='fermion', conserve='N', L=3, Hcplx=False, dt='real')
    add('propagator_case', 'mpo.propagators[spin Sz,L=2,infinite,H real,dt real]', kind='spin', conserve='Sz', L=2, bc='infinite', dt='real')
    add('propagator_case', 'mpo.propagators[spin Sz,L=2,infinite,H complex,dt imag]', kind='spin', conserve='Sz', L=2, bc='infinite',
        Hcplx=True, dt='imag')
    for dt, sym in (('real', True), ('complex', True), ('imag', False)):
        add('propagator_symbolic_case', f"mpo.make_U_I[symbolic W,dt {dt} {'symbolic' if sym else 'concrete'}]", dt=dt, sym_dt=sym)
    for c, dt in ((False, 'real'), (True, 'imag'), (True, 'real')):
        add('make_W_II_case', f"mpo.make_W_II[{'complex' if c else 'real'} blocks,dt {dt}]", cplx=c, dt=dt)
    add('algebra_case', 'mpo.algebra[spin,L=2]', kind='spin', conserve=None, L=2, D=3)
    add('algebra_case', 'mpo.algebra[fermion N,L=2]', kind='fermion', conserve='N', L=2)
    add('plus_identity_case', 'mpo.plus_identity[spin Sz,L=3,H real,sites=[1],real alpha beta]', where=[1])
    add('plus_identity_case', 'mpo.plus_identity[spin Sz,L=3,H complex,sites=[0,1],complex alpha]', Hcplx=True, where=[0, 1], cplx_ab=True)
    add('termlist_case', 'mpo.to_TermList[spin Sz,L=3]', kind='spin', conserve='Sz')
    add('state_case', 'mpo.states[spin,L=2]', kind='spin', conserve=None, L=2, D=2)
    add('state_case', 'mpo.states[fermion N,L=3]', kind='fermion', conserve='N', L=3)
    if tier == 'thorough':
        add('propagator_case', 'mpo.propagators[fermion parity,L=3,finite,H complex,dt complex]', kind='fermion', conserve='parity', L=3,
            Hcplx=True, dt='complex')
        add('propagator_case', 'mpo.propagators[spin Sz,L=3,infinite,H real,dt real]', kind='spin', conserve='Sz', L=3, bc='infinite', dt='real')
        add('algebra_case', 'mpo.algebra[spin,L=2,swapped markers]', kind='spin', conserve=None, L=2, D=3, swap=True)
        add('state_case', 'mpo.states[spin,L=3]', kind='spin', conserve=None, L=3, D=2)
        add('termlist_case', 'mpo.to_TermList[fermion N,L=3]', kind='fermion', conserve='N')
    return cases
