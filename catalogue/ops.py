"""Ops catalogue shared by C01-C04: one table describing the public tensor operations of
tenpy/linalg/np_conserved.py.

Every entry of ``OPS`` has a *builder* ``build(W, variant) -> Sc`` (scenario) that
  * generates the operands from the :class:`World` ``W`` (Tier A: symbolic charges and entries,
    Tier B: concrete charge structure, symbolic entries), including the op's own arguments
    (symbolic prefactors, symbolic indices, masks, permutations ...),
  * gives the call on the real tenpy objects, the numpy oracle on ``to_ndarray()`` of the operands,
    the documented label rule, the documented qtotal rule, the expected signed charge per index of
    every result leg, whether the op is in place and whether the result must own its data.

Everything used on the oracle side (label helpers, pipe index map, indexing) is written here with
own formulas and does not call tenpy.  No z3 import: the module runs in both modes.
"""
import itertools
import random

import numpy as np

from . import build as Bd


class Skip(Exception):
    """scenario not applicable to the given operand (composition cases)"""


# =============================================================================================
# own (tenpy independent) helpers
def split_top(s):
    """split 'a.(b.c).d' at the dots of depth 0"""
    out, depth, beg = [], 0, 0
    for i, c in enumerate(s):
        if c == '(':
            depth += 1
        elif c == ')':
            depth -= 1
        elif c == '.' and depth == 0:
            out.append(s[beg:i])
            beg = i + 1
    out.append(s[beg:])
    return out


def conj_label(l):
    """documented: 'a' -> 'a*', 'a*' -> 'a', '(a.(b*.c))' -> '(a*.(b.c*))'"""
    if l is None:
        return None
    if len(l) >= 2 and l[0] == '(' and l[-1] == ')':
        return '(' + '.'.join(conj_label(p) for p in split_top(l[1:-1])) + ')'
    return l[:-1] if l.endswith('*') else l + '*'


def drop_dup(a_labels, b_labels):
    """documented for tensordot/outer: a label inherited from both operands is dropped in both"""
    a_labels, b_labels = list(a_labels), list(b_labels)
    for i, l in enumerate(a_labels):
        if l is not None and l in b_labels:
            b_labels[b_labels.index(l)] = None
            a_labels[i] = None
    return a_labels + b_labels


def comb_label(labels, idxs):
    """documented for combine_legs: '(' + '.'.join(labels) + ')', unlabeled legs -> '?#' (# = index in the original)"""
    return '(' + '.'.join(labels[i] if labels[i] is not None else '?' + str(i) for i in idxs) + ')'


def split_label(label, n):
    if label is None or not (label[0] == '(' and label[-1] == ')'):
        return [None] * n
    parts = split_top(label[1:-1])
    return [None if p.startswith('?') else p for p in parts]


def sq(leg):
    """signed charge (charge * qconj) of every flat index of a leg: own formula from slices / charges"""
    n = int(leg.slices[-1])
    out = np.empty((n, leg.charges.shape[1]), dtype=leg.charges.dtype)
    for b in range(leg.charges.shape[0]):
        for i in range(int(leg.slices[b]), int(leg.slices[b + 1])):
            out[i] = leg.charges[b] * leg.qconj
    return out


def block_of(leg, i):
    """index of the block containing flat index i (own formula; empty blocks contain nothing)"""
    for b in range(len(leg.slices) - 1):
        if int(leg.slices[b]) <= i < int(leg.slices[b + 1]):
            return b
    raise IndexError(i)


class _LexKey:
    """sort key: charge vectors compared like numpy lexsort (last component is the primary key);
    the comparisons may be symbolic (they then fork consistently with the path)"""
    __slots__ = ('v', )

    def __init__(self, v):
        self.v = v

    def __lt__(self, o):
        for x, y in zip(self.v[::-1], o.v[::-1]):
            if bool(x < y):
                return True
            if bool(x > y):
                return False
        return False


def pipe_positions(legs, pipe_qconj, ch, sort=True):
    """own formula for the index map of a LegPipe: dict {tuple of incoming flat indices: outgoing index}
    and the signed charge per outgoing index.

    Documented (LegPipe class doc): block combinations (C order of the qindices) are stably sorted by
    their fused charge ``pipe.qconj * sum_l charge_l * qconj_l`` (mod), inside a block combination the
    incoming indices are in C order.  Bunching merges neighbouring blocks and does not move indices."""
    combos = list(itertools.product(*[range(l.charges.shape[0]) for l in legs]))
    fused = []
    for c in combos:
        q = sum(l.charges[k] * (l.qconj * pipe_qconj) for l, k in zip(legs, c))
        fused.append(ch.make_valid(np.array(q)))
    order = list(range(len(combos)))
    if sort and ch.qnumber > 0:
        order = sorted(order, key=lambda j: _LexKey(fused[j]))  # stable
    pos, qout = {}, {}
    off = 0
    for j in order:
        c = combos[j]
        ranges = [range(int(l.slices[k]), int(l.slices[k + 1])) for l, k in zip(legs, c)]
        for idx in itertools.product(*ranges):
            pos[idx] = off
            qout[off] = fused[j] * pipe_qconj
            off += 1
    return pos, qout


def np_index(d, inds):
    """own oracle for Array indexing: every axis is indexed separately (outer indexing);
    inds: one entry per axis: int | slice | bool mask | int array"""
    ax = 0
    for i in inds:
        if isinstance(i, (int, np.integer)):
            d = np.take(d, int(i), axis=ax)
            continue
        if isinstance(i, slice):
            d = d[(slice(None), ) * ax + (i, )]
        else:
            i = np.asarray(i)
            if i.dtype == np.bool_:
                d = np.compress(i, d, axis=ax)
            else:
                d = np.take(d, i, axis=ax)
        ax += 1
    return d


def full_inds(inds, rank):
    """replace Ellipsis / missing trailing indices by slice(None) (numpy convention)"""
    inds = inds if isinstance(inds, tuple) else (inds, )
    k = next((j for j, x in enumerate(inds) if x is Ellipsis), None)
    if k is None:
        return inds + (slice(None), ) * (rank - len(inds))
    return inds[:k] + (slice(None), ) * (rank - len(inds) + 1) + inds[k + 1:]


def allowed_mask(legs, qtotal, ch):
    """array of Python/symbolic booleans... only for concrete charges: entry may be non-zero iff the signed charges add up to qtotal"""
    qs = [sq(l) for l in legs]
    shape = tuple(len(q) for q in qs)
    out = np.zeros(shape, dtype=bool)
    for idx in np.ndindex(*shape):
        q = ch.make_valid(np.array(sum(qs[k][i] for k, i in enumerate(idx))))
        out[idx] = bool(np.all(q == qtotal))
    return out


# =============================================================================================
class Sc:
    """scenario = one application of a catalogue operation"""

    def __init__(self, operands, call, oracle, labels=None, qtotal=None, leg_q=None, inplace=False, owns=True,
                 scalar=False, get=None, raises=None, post=None, ch=None, extra_live=()):
        self.operands = list(operands)
        self.call = call  # call(*operands) -> result
        self.oracle = oracle  # oracle(*dense operands) -> dense result
        self.labels = labels  # expected labels | None
        self.qtotal = qtotal  # expected qtotal (compared modulo chinfo) | None
        self.leg_q = leg_q  # expected signed charge per index for every result leg | None
        self.inplace = inplace  # result is operands[0] itself, modified
        self.owns = owns  # result documented to be independent of the operands
        self.scalar = scalar
        self.get = get or (lambda r: r)  # extract the Array from the returned object
        self.raises = raises  # None | (ExceptionType, condition): documented to raise iff condition
        self.post = post  # post(ctx, result_object, name): op specific extra obligations
        self.ch = ch  # ChargeInfo of the result if it differs from the operands'
        self.extra_live = list(extra_live)  # further live objects (legs, pipes) that must not be mutated
        self.results = None  # results(result object) -> list of all returned Arrays (default: [get(result)])


class OpSpec:

    def __init__(self, name, build, variants, inplace, owns, chain, tiers, labels_rule, qtotal_rule, quick, props=('C01', 'C02', 'C03')):
        self.props = tuple(props)
        self.name = name
        self.build = build
        self.variants = tuple(variants)
        self.inplace = inplace
        self.owns = owns
        self.chain = chain  # builder accepts an injected first operand (depth-2 programs)
        self.tiers = tiers
        self.labels_rule = labels_rule
        self.qtotal_rule = qtotal_rule
        self.quick = tuple(quick) if quick is not None else self.variants


OPS = {}
# variants that run in Tier B only: with symbolic charges the charge test of get_block() inside _advanced_setitem_npc leaves a
# branch whose feasibility z3 answers `unknown` (reported as a counterexample without a model)
TIER_A_EXCLUDED = {('setitem', 'int_first_npc')}


def op(name, variants=('d', ), inplace=False, owns=True, chain=False, tiers='AB', labels='', qtotal='', quick=None, props=('C01', 'C02', 'C03')):

    def deco(f):
        OPS[name] = OpSpec(name, f, variants, inplace, owns, chain, tiers, labels, qtotal, quick, props)
        return f

    return deco


# =============================================================================================
class World:
    """operand generator for one structure (= bound parameter) in one tier"""

    def __init__(self, ctx, struct, cplx=False, subset='all', prestate='sorted', legflags='computed', ns=''):
        self.ctx = ctx
        self.npc = Bd.npc()
        self.struct = struct
        self.tier = struct['tier']
        self.ch = Bd.chinfo(struct['mods'])
        self.cplx = cplx
        self.subset = subset
        self.prestate = prestate
        self.legflags = legflags
        self.ns = ns
        self.rank = int(struct.get('rank', 2))
        self.seed = struct.get('seed', 0)
        self.injected = None
        self.sym_budget = 2
        self._pool = {}
        self.all_legs = []
        from tenpy.tools import optimization
        # concrete replays also run with the compiled extension; a few compiled kernels are known to diverge from
        # the Python kernels checked here (reported to C04, see notes/C01.md): those variants are skipped there
        self.compiled = bool(getattr(optimization, 'have_cython_functions', False)) and not ctx.symbolic

    # ---- randomness of *bound parameters* (Tier B structures), reproducible from the params
    def rng(self, what):
        return random.Random(f"{self.seed}:{what}")

    # ---- legs
    def leg(self, i):
        if i not in self._pool:
            spec = self.struct['legs'][i % len(self.struct['legs'])]
            ch = spec.get('charges') if i < len(self.struct['legs']) else None
            self._pool[i] = self.new_leg(f'l{i}', spec['sizes'], spec['qconj'], ch)
        return self._pool[i]

    def draw_charges(self, name, nblocks):
        rng = self.rng('q:' + name)
        out = []
        for _ in range(nblocks):
            out.append([rng.randint(-2, 2) if m == 1 else rng.randrange(int(m)) for m in self.ch.mod])
        return out

    def new_leg(self, name, sizes, qconj, charges=None):
        name = self.ns + name
        if self.tier == 'A':
            l = Bd.leg(self.ctx, name, sizes, self.ch, qconj)
        else:
            if charges is None:
                charges = self.draw_charges(name, len(sizes))
            l = Bd.leg(self.ctx, name, sizes, self.ch, qconj, tier='B', concrete_charges=charges)
        if self.legflags == 'false' and l.block_number > 1:
            l.sorted = False  # truthful: a False flag claims nothing
            l.bunched = False
        self.all_legs.append(l)
        return l

    def small_sizes(self, name='x'):
        if self.tier == 'A':
            return [1, 1]
        rng = self.rng('sz:' + name)
        return [rng.choice([1, 1, 2, 0, 3]) for _ in range(rng.randint(1, 3))] + [1]

    def xleg(self, name='x', qconj=None):
        if qconj is None:
            qconj = 1 if self.rng('qc:' + name).random() < 0.5 else -1
        return self.new_leg(name, self.small_sizes(name), qconj)

    # ---- scalars
    def scalar(self, name):
        return self.ctx.num(self.ns + name, self.cplx)

    def vec(self, name, n, real=False):
        return self.ctx.array(self.ns + name, (n, ), cplx=self.cplx and not real)

    # ---- tensors
    def draw_qtotal(self, name, legs):
        rng = self.rng('qt:' + name)
        if self.struct.get('qtotal_zero') or any(l.block_number == 0 for l in legs):
            return None
        q = sum(l.charges[rng.randrange(l.block_number)] * l.qconj for l in legs)
        return self.ch.make_valid(np.array(q))

    def qtotal(self, name, legs):
        if self.tier == 'A':
            return Bd.qvec(self.ctx, self.ns + name + 'qt', self.ch)
        return self.draw_qtotal(name, legs)

    def tensor(self, name, legs, labels=None, qtotal='sym', subset=None, prestate=None, concrete=False):
        ctx, N, ch = self.ctx, self.npc, self.ch
        name = self.ns + name
        subset = subset or self.subset
        if isinstance(qtotal, str):
            qt = None if qtotal == 'zero' else self.qtotal(name[len(self.ns):], legs)
        else:
            qt = None if qtotal is None else np.array(qtotal)  # own copy
        dt = object if (ctx.symbolic and not concrete) else (complex if self.cplx else float)
        A = N.Array(legs, dtype=dt, qtotal=qt, labels=labels)
        rng = self.rng('st:' + name)
        data, qd, dropped = [], [], []
        for qi in A._iter_all_blocks():
            if not Bd.block_allowed(ctx, legs, qi, A.qtotal, ch):
                continue
            tag = name + ''.join(map(str, qi))
            drop = rng.random() < 0.3
            if subset == 'none':
                continue
            if subset == 'choose' and not ctx.flag('st_' + tag):
                continue
            shape = tuple(int(l.slices[k + 1] - l.slices[k]) for l, k in zip(legs, qi))
            if 0 in shape and not self.struct.get('store_empty'):
                continue  # blocks with a zero dimension are stored only in the designated structures
            if subset == 'draw' and drop:
                dropped.append((qi, tag, shape))
                continue
            data.append(self._entries(tag, shape, concrete))
            qd.append(qi)
        if subset == 'draw' and not any(t.size for t in data) and dropped:
            # a drawn subset never leaves the tensor without entries (tensors without blocks have their own cases)
            qi, tag, shape = next((d for d in dropped if 0 not in d[2]), dropped[0])
            data.append(self._entries(tag, shape, concrete))
            qd.append(qi)
        n = len(qd)
        qd = np.array(qd, dtype=np.intp).reshape(n, A.rank)
        if n > 1:  # own lexsort of concrete block indices (last leg most significant)
            perm = sorted(range(n), key=lambda r: tuple(qd[r][::-1]))
            qd = np.ascontiguousarray(qd[perm])
            data = [data[p] for p in perm]
        A._data, A._qdata, A._qdata_sorted = data, qd, True
        ps = prestate or self.prestate
        if ps in ('reversed_first', 'reversed_others'):
            # exactly one kind of operand is in non-sorted order: the primary operand 'a' / every other tensor
            is_first = name == self.ns + 'a'
            ps = 'reversed' if (is_first == (ps == 'reversed_first')) else 'sorted'
        if ps != 'sorted':
            perm = list(range(n))
            if ps == 'reversed':
                perm = perm[::-1]
            elif ps == 'rotated':
                perm = perm[1:] + perm[:1]
            elif ps == 'choice' and n > 1:
                k = ctx.choice('ps_' + name, 3)
                perm = [perm[::-1], perm[1:] + perm[:1], [1, 0] + perm[2:]][k]
            A._qdata = np.ascontiguousarray(A._qdata[perm]).reshape(n, A.rank)
            A._data = [A._data[p] for p in perm]
            A._qdata_sorted = False  # truthful also if the permutation happens to be the identity
        ctx.note('stored_blocks', n)
        if n:
            ctx.note('nonempty_tensors')
        else:
            ctx.note('tensors_without_blocks')
        return A

    def _entries(self, tag, shape, concrete):
        """symbolic entries, or (operations behind LAPACK: only charges / structure are symbolic) numbers drawn from the tag"""
        if not concrete:
            return self.ctx.array(tag, shape, cplx=self.cplx)
        rng = self.rng('val:' + tag)
        n = int(np.prod(shape))
        vals = [rng.randint(-40, 40) / 8. + (1j * rng.randint(-40, 40) / 8. if self.cplx else 0.) for _ in range(n)]
        return np.array(vals, dtype=complex if self.cplx else float).reshape(shape)

    def like(self, a, name, labels='same', perm=None):
        """fresh tensor with the legs and qtotal of `a` (legs optionally permuted)"""
        legs = list(a.legs)
        labs = a.get_leg_labels() if labels == 'same' else labels
        if perm is not None:
            legs = [legs[p] for p in perm]
            if labels == 'same':
                labs = [labs[p] for p in perm]
        return self.tensor(name, legs, labels=labs, qtotal=a.qtotal)

    def partner(self, a, axes_a, name='b', extra=1, labels=None, first=True):
        """tensor contractible with legs `axes_a` of a (in this order) plus `extra` new legs"""
        con = [a.legs[i].conj() for i in axes_a]
        new = [self.xleg(f'{name}x{k}') for k in range(extra)]
        legs = con + new if first else new + con
        return self.tensor(name, legs, labels=labels)

    def first(self, min_rank=1, rank=None, labels=None):
        if self.injected is not None:
            a = self.injected
            if a.rank < min_rank or (rank is not None and a.rank != rank):
                raise Skip()
            return a
        r = rank or max(self.rank, min_rank)
        labs = labels if labels is not None else list('abcdefg')[:r]
        return self.tensor('a', [self.leg(i) for i in range(r)], labels=labs)


def dense(a):
    return a.to_ndarray()


def is_array(x):
    return isinstance(x, Bd.npc().Array)


# =============================================================================================
# the table.  Builders: build(W, variant) -> Sc
def _perm_of(r, kind='rot'):
    p = list(range(r))
    return p[1:] + p[:1] if kind == 'rot' else p[::-1]


# ---------------------------------------------------------------- contractions
@op('tensordot', variants=('int1', 'labels', 'perm2', 'full', 'axes0', 'vec'), chain=True, quick=('int1', 'labels', 'full'),
    labels='labels of the uncontracted legs of a then b; a label inherited from both is dropped in both',
    qtotal='a.qtotal + b.qtotal')
def b_tensordot(W, v):
    N = W.npc
    a = W.first(min_rank=2 if v == 'perm2' else 1)
    r = a.rank
    la = a.get_leg_labels()
    if v == 'int1':
        ia, ib = [r - 1], [0]
        b = W.partner(a, ia, labels=['p', 'q'])
        axes = 1
    elif v == 'labels':  # label collision: b's free leg carries the label of a's first kept leg
        ia, ib = [r - 1], [1]
        free = la[0] if r > 1 else 'q'
        b = W.partner(a, ia, labels=[free, 'p'], first=False)
        axes = ([la[r - 1] if la[r - 1] is not None else r - 1], ['p'])
    elif v == 'perm2':  # two legs, given in different order -> both operands get transposed
        ia, ib = [0, r - 1], [1, 0]
        b = W.tensor('b', [a.legs[r - 1].conj(), a.legs[0].conj(), W.xleg('bx')], labels=['p', 'q', 's'])
        axes = (ia, ib)
    elif v == 'full':
        ia = list(range(r))
        ib = _perm_of(r)
        inv = [ib.index(k) for k in range(r)]  # b leg k is contracted with a leg ia[ib.index(k)]
        b = W.tensor('b', [a.legs[ia[inv[k]]].conj() for k in range(r)], labels=None)
        axes = (ia, ib)
    elif v == 'axes0':
        ia, ib = [], []
        b = W.tensor('b', [W.xleg('bx')], labels=['p'])
        axes = 0
    elif v == 'vec':  # matrix-vector like: b has only the contracted leg
        ia, ib = [r - 1], [0]
        b = W.partner(a, ia, extra=0, labels=['p'])
        axes = 1
    else:
        raise ValueError(v)
    lb = b.get_leg_labels()
    ka = [i for i in range(r) if i not in ia]
    kb = [j for j in range(b.rank) if j not in ib]
    return Sc([a, b], lambda a, b: N.tensordot(a, b, axes=axes), lambda da, db: np.tensordot(da, db, axes=(ia, ib)),
              labels=drop_dup([la[i] for i in ka], [lb[j] for j in kb]), qtotal=a.qtotal + b.qtotal,
              leg_q=[sq(a.legs[i]) for i in ka] + [sq(b.legs[j]) for j in kb], scalar=not (ka or kb))


@op('outer', chain=True, labels='labels of a then b, collisions dropped', qtotal='a.qtotal + b.qtotal')
def b_outer(W, v):
    a = W.first()
    la = a.get_leg_labels()
    two = W.tier == 'B' and a.rank < 3
    second = 'q' if la[0] != 'q' else 'q2'  # (the injected operand of a depth-2 program may already carry the label 'q')
    b = W.tensor('b', [W.xleg('bx'), W.xleg('by')] if two else [W.xleg('bx')], labels=[la[0], second][:2 if two else 1])
    return Sc([a, b], lambda a, b: W.npc.outer(a, b), lambda da, db: np.multiply.outer(da, db),
              labels=drop_dup(la, b.get_leg_labels()), qtotal=a.qtotal + b.qtotal,
              leg_q=[sq(l) for l in a.legs + b.legs])


@op('inner', variants=('range', 'labels', 'do_conj', 'labels_do_conj'), chain=True, quick=('range', 'labels_do_conj'),
    labels='scalar', qtotal='scalar; zero unless qtotals cancel')
def b_inner(W, v):
    N = W.npc
    a = W.first()
    r = a.rank
    la = a.get_leg_labels()
    if v in ('labels', 'labels_do_conj') and (None in la or len(set(la)) < r):
        raise Skip()
    do_conj = v.endswith('do_conj')
    p = _perm_of(r) if v.startswith('labels') else list(range(r))
    legs = [a.legs[k] if do_conj else a.legs[k].conj() for k in p]
    labs = [la[k] if do_conj else conj_label(la[k]) for k in p]
    b = W.tensor('b', legs, labels=labs)
    inv = [p.index(j) for j in range(r)]
    axes = 'labels' if v.startswith('labels') else 'range'

    def oracle(da, db):
        db = np.transpose(db, inv)
        return np.sum((np.conj(da) if do_conj else da) * db)

    return Sc([a, b], lambda a, b: N.inner(a, b, axes=axes, do_conj=do_conj), oracle, scalar=True)


@op('trace', variants=('rank2', 'rank3', 'rank3_labels', 'rank4'), quick=('rank2', 'rank3_labels'),
    labels='remaining labels of a', qtotal='a.qtotal')
def b_trace(W, v):
    N = W.npc
    l0, l1 = W.leg(0), W.leg(1)
    if v == 'rank2':
        a = W.tensor('a', [l0, l0.conj()], labels=['a', 'a*'])
        ax = (0, 1)
        args = ax
    elif v == 'rank3':
        a = W.tensor('a', [l0, l1, l0.conj()], labels=['a', 'b', 'c'])
        ax = (2, 0)
        args = ax
    elif v == 'rank3_labels':
        a = W.tensor('a', [l1, l0.conj(), l0], labels=['b', 'a*', 'a'])
        ax = (1, 2)
        args = ('a*', 'a')
    else:
        a = W.tensor('a', [l0, l1, l1.conj(), l0.conj()], labels=['a', 'b', None, 'd'])
        ax = (1, 2)
        args = ('b', 2)
    keep = [i for i in range(a.rank) if i not in ax]
    la = a.get_leg_labels()
    return Sc([a], lambda a: N.trace(a, *args), lambda da: np.trace(da, axis1=ax[0], axis2=ax[1]),
              labels=[la[i] for i in keep], qtotal=a.qtotal, leg_q=[sq(a.legs[i]) for i in keep], scalar=not keep)


# ---------------------------------------------------------------- transposition / conjugation
def _transp_args(a, v):
    r = a.rank
    la = a.get_leg_labels()
    if v == 'none':
        return None, list(range(r))[::-1]
    if v == 'labels' and None not in la and len(set(la)) == r:
        p = _perm_of(r)
        return [la[k] for k in p], p
    if v == 'identity':
        return list(range(r)), list(range(r))
    p = _perm_of(r)
    return p, p


def _transp(W, v, inplace):
    a = W.first()
    args, p = _transp_args(a, v)
    la = a.get_leg_labels()
    call = (lambda a: a.itranspose(args)) if inplace else (lambda a: a.transpose(args))
    return Sc([a], call, lambda da: np.transpose(da, p), labels=[la[k] for k in p], qtotal=a.qtotal,
              leg_q=[sq(a.legs[k]) for k in p], inplace=inplace)


@op('transpose', variants=('none', 'perm', 'labels', 'identity'), chain=True, quick=('none', 'labels'),
    labels='permuted', qtotal='unchanged')
def b_transpose(W, v):
    return _transp(W, v, False)


@op('itranspose', variants=('none', 'perm', 'labels', 'identity'), inplace=True, chain=True, quick=('perm', 'identity'),
    labels='permuted', qtotal='unchanged')
def b_itranspose(W, v):
    return _transp(W, v, True)


@op('iswapaxes', variants=('first_last', 'labels', 'same'), inplace=True, chain=True, quick=('first_last', ),
    labels='swapped', qtotal='unchanged')
def b_iswapaxes(W, v):
    a = W.first()
    r = a.rank
    la = a.get_leg_labels()
    i, j = (0, r - 1) if v != 'same' else (0, 0)
    args = (i, -1) if v == 'first_last' else ((la[i] if la[i] is not None else i, j) if v == 'labels' else (i, j))
    p = list(range(r))
    p[i], p[j] = p[j], p[i]
    return Sc([a], lambda a: a.iswapaxes(*args), lambda da: np.swapaxes(da, i, j), labels=[la[k] for k in p],
              qtotal=a.qtotal, leg_q=[sq(a.legs[k]) for k in p], inplace=True)


_CONJ_LABELS = ['a', 'b*', '(c.d*)', None, '(e.(f*.g))']


def _conj(W, v):
    a = W.first(labels=_CONJ_LABELS[:max(W.rank, 1)] if W.injected is None else None)
    la = a.get_leg_labels()
    ch = W.ch
    neg = ch.make_valid(np.array(-a.qtotal))
    clab = [conj_label(l) for l in la]
    nq = [-sq(l) for l in a.legs]
    if v == 'conj':
        return Sc([a], lambda a: a.conj(), np.conj, labels=clab, qtotal=neg, leg_q=nq)
    if v == 'iconj':
        return Sc([a], lambda a: a.iconj(), np.conj, labels=clab, qtotal=neg, leg_q=nq, inplace=True)
    if v == 'conj_nocc':
        return Sc([a], lambda a: a.conj(complex_conj=False), lambda da: da, labels=clab, qtotal=neg, leg_q=nq)
    if v == 'complex_conj':  # documented: without conjugating the charge data
        return Sc([a], lambda a: a.complex_conj(), np.conj, labels=la, qtotal=a.qtotal, leg_q=[sq(l) for l in a.legs], owns=False)
    raise ValueError(v)


@op('conj', chain=True, labels="'a'->'a*', 'a*'->'a', recursively inside '(..)'", qtotal='-a.qtotal')
def b_conj(W, v):
    return _conj(W, 'conj')


@op('iconj', inplace=True, chain=True, labels='as conj', qtotal='-a.qtotal')
def b_iconj(W, v):
    return _conj(W, 'iconj')


@op('conj_nocc', chain=True, labels='as conj', qtotal='-a.qtotal')
def b_conj_nocc(W, v):
    return _conj(W, 'conj_nocc')


@op('complex_conj', chain=True, owns=False, labels='unchanged', qtotal='unchanged (charges are not conjugated)')
def b_complex_conj(W, v):
    return _conj(W, 'complex_conj')


# ---------------------------------------------------------------- linear combinations
def _same(a):
    return dict(labels=a.get_leg_labels(), qtotal=a.qtotal, leg_q=[sq(l) for l in a.legs])


def _other_for(W, a, v):
    """second operand of + - : same legs; 'permuted': same labels in different order (documented: transposed first)"""
    la = a.get_leg_labels()
    if v == 'permuted' and None not in la and len(set(la)) == a.rank and a.rank > 1:
        if W.compiled:  # compiled Array_iadd_prefactor_other checks / sorts before it transposes `other` (C04 finding)
            W.ctx.note('skipped_compiled_divergence')
            raise Skip()
        p = _perm_of(a.rank)
        inv = [p.index(j) for j in range(a.rank)]
        return W.like(a, 'b', perm=p), (lambda db: np.transpose(db, inv))
    if v == 'nolabels':
        return W.like(a, 'b', labels=None), (lambda db: db)
    return W.like(a, 'b'), (lambda db: db)


@op('add', variants=('same', 'permuted', 'nolabels'), chain=True, quick=('same', 'permuted'), labels='labels of a', qtotal='a.qtotal (must equal b.qtotal)')
def b_add(W, v):
    a = W.first()
    b, tr = _other_for(W, a, v)
    return Sc([a, b], lambda a, b: a + b, lambda da, db: da + tr(db), **_same(a))


@op('sub', variants=('same', 'permuted'), chain=True, quick=('same', ), labels='labels of a', qtotal='a.qtotal')
def b_sub(W, v):
    a = W.first()
    b, tr = _other_for(W, a, v)
    return Sc([a, b], lambda a, b: a - b, lambda da, db: da - tr(db), **_same(a))


@op('iadd', variants=('same', 'permuted'), inplace=True, chain=True, quick=('permuted', ), labels='labels of a', qtotal='a.qtotal')
def b_iadd(W, v):
    a = W.first()
    b, tr = _other_for(W, a, v)

    def call(a, b):
        a += b
        return a

    return Sc([a, b], call, lambda da, db: da + tr(db), inplace=True, **_same(a))


@op('isub', inplace=True, chain=True, labels='labels of a', qtotal='a.qtotal')
def b_isub(W, v):
    a = W.first()
    b, tr = _other_for(W, a, 'same')

    def call(a, b):
        a -= b
        return a

    return Sc([a, b], call, lambda da, db: da - db, inplace=True, **_same(a))


@op('mul', variants=('right', 'left', 'zero'), chain=True, quick=('right', 'left'), labels='unchanged', qtotal='unchanged')
def b_mul(W, v):
    a = W.first()
    s = W.scalar('s') if v != 'zero' else 0.
    if v == 'left':
        return Sc([a], lambda a: s * a, lambda da: s * da, **_same(a))
    return Sc([a], lambda a: a * s, lambda da: da * s, **_same(a))


@op('imul', inplace=True, chain=True, labels='unchanged', qtotal='unchanged')
def b_imul(W, v):
    a = W.first()
    s = W.scalar('s')

    def call(a):
        a *= s
        return a

    return Sc([a], call, lambda da: da * s, inplace=True, **_same(a))


def _div_oracle(ctx, s):

    def oracle(da):
        return da * (1. / s)  # same fork on s == 0 as the code; that side raises ZeroDivisionError (documented)

    return oracle


@op('div', chain=True, labels='unchanged', qtotal='unchanged')
def b_div(W, v):
    a = W.first()
    s = W.scalar('s')
    return Sc([a], lambda a: a / s, _div_oracle(W.ctx, s), raises=(ZeroDivisionError, s == 0), **_same(a))


@op('idiv', inplace=True, chain=True, labels='unchanged', qtotal='unchanged')
def b_idiv(W, v):
    a = W.first()
    s = W.scalar('s')

    def call(a):
        a /= s
        return a

    return Sc([a], call, _div_oracle(W.ctx, s), raises=(ZeroDivisionError, s == 0), inplace=True, **_same(a))


@op('neg', chain=True, owns=False, labels='unchanged', qtotal='unchanged')
def b_neg(W, v):
    a = W.first()
    return Sc([a], lambda a: -a, lambda da: -da, owns=False, **_same(a))


@op('iadd_prefactor_other', variants=('same', 'permuted'), inplace=True, chain=True, quick=('same', ), labels='labels of a', qtotal='a.qtotal')
def b_iadd_prefactor_other(W, v):
    a = W.first()
    b, tr = _other_for(W, a, v)
    s = W.scalar('s')
    return Sc([a, b], lambda a, b: a.iadd_prefactor_other(s, b), lambda da, db: da + s * tr(db), inplace=True, **_same(a))


@op('iscale_prefactor', inplace=True, chain=True, labels='unchanged', qtotal='unchanged')
def b_iscale_prefactor(W, v):
    a = W.first()
    s = W.scalar('s')
    return Sc([a], lambda a: a.iscale_prefactor(s), lambda da: da * s, inplace=True, **_same(a))


def _f3(x, y, c):
    return x + c * y


def _g2(x, c):
    return x * c


@op('binary_blockwise', variants=('subtract', 'args'), chain=True, owns=False, quick=('args', ), labels='labels of a', qtotal='a.qtotal')
def b_binary_blockwise(W, v):
    a = W.first()
    b, tr = _other_for(W, a, 'same')
    if v == 'subtract':
        return Sc([a, b], lambda a, b: a.binary_blockwise(np.subtract, b), lambda da, db: da - db, owns=False, **_same(a))
    s = W.scalar('s')
    return Sc([a, b], lambda a, b: a.binary_blockwise(_f3, b, s), lambda da, db: da + s * db, owns=False, **_same(a))


@op('ibinary_blockwise', inplace=True, chain=True, labels='labels of a', qtotal='a.qtotal')
def b_ibinary_blockwise(W, v):
    a = W.first()
    b, tr = _other_for(W, a, 'permuted')
    return Sc([a, b], lambda a, b: a.ibinary_blockwise(np.add, b), lambda da, db: da + tr(db), inplace=True, **_same(a))


@op('unary_blockwise', variants=('negative', 'args', 'kwargs'), chain=True, owns=False, quick=('args', ), labels='unchanged', qtotal='unchanged')
def b_unary_blockwise(W, v):
    a = W.first()
    if v == 'negative':
        return Sc([a], lambda a: a.unary_blockwise(np.negative), lambda da: -da, owns=False, **_same(a))
    s = W.scalar('s')
    if v == 'args':
        return Sc([a], lambda a: a.unary_blockwise(_g2, s), lambda da: da * s, owns=False, **_same(a))
    return Sc([a], lambda a: a.unary_blockwise(_g2, c=s), lambda da: da * s, owns=False, **_same(a))


@op('iunary_blockwise', inplace=True, chain=True, labels='unchanged', qtotal='unchanged')
def b_iunary_blockwise(W, v):
    a = W.first()
    s = W.scalar('s')
    return Sc([a], lambda a: a.iunary_blockwise(_g2, s), lambda da: da * s, inplace=True, **_same(a))


@op('scale_axis', variants=('last', 'first', 'label'), chain=True, quick=('first', ), labels='unchanged', qtotal='unchanged')
def b_scale_axis(W, v, inplace=False):
    a = W.first()
    la = a.get_leg_labels()
    ax = a.rank - 1 if v == 'last' else 0
    s = W.vec('s', a.shape[ax])
    arg = -1 if v == 'last' else (la[0] if (v == 'label' and la[0] is not None) else 0)
    shape = [1] * a.rank
    shape[ax] = a.shape[ax]
    call = (lambda a: a.iscale_axis(s, arg)) if inplace else (lambda a: a.scale_axis(s, arg))
    return Sc([a], call, lambda da: da * s.reshape(shape), inplace=inplace, **_same(a))


@op('iscale_axis', variants=('last', 'first'), inplace=True, chain=True, quick=('last', ), labels='unchanged', qtotal='unchanged')
def b_iscale_axis(W, v):
    return b_scale_axis(W, v, inplace=True)


# =============================================================================================
# execution helpers shared by the property harnesses
def build_scenario(ctx, W, name, v):
    """build(W, v) with the exceptions of the *operand generator* kept apart from those of the operation under check:
    Skip -> None (scenario not applicable); any other exception is a harness error (never a violation candidate)"""
    try:
        return OPS[name].build(W, v)
    except Skip:
        ctx.note('skipped')
        ctx.prove(True, 'scenario not applicable')
        return None
    except Exception as e:  # noqa
        if type(e).__name__ in ('SymLeak', 'RecursionError'):
            raise
        import traceback
        tb = traceback.extract_tb(e.__traceback__)
        where = ' < '.join(f"{fr.filename.split('/')[-1]}:{fr.lineno}:{fr.name}" for fr in reversed(tb[-3:]))
        detail = f'operand generator of {name}/{v} raised {type(e).__name__}: {str(e)[:120]} @ {where}'
        if ctx.symbolic:
            ctx._fail(f'harness:generator {name}/{v}', 'harness', None, detail)
        else:
            ctx.note('generator_error')
        ctx.prove(True, 'scenario could not be built (harness error reported separately)')
        return None


def execute(ctx, sc, tag):
    """run the real operation; documented exceptions are checked against their documented condition.
    Returns (ok, result)."""
    try:
        res = sc.call(*sc.operands)
    except Exception as e:  # noqa
        if type(e).__name__ in ('SymLeak', 'RecursionError'):
            raise
        if sc.raises is not None and isinstance(e, sc.raises[0]):
            ctx.prove(sc.raises[1], f'{tag}: raises {sc.raises[0].__name__} only when documented')
            return False, None
        import traceback
        tb = traceback.extract_tb(e.__traceback__)
        where = ' < '.join(f"{fr.filename.split('/')[-1]}:{fr.lineno}:{fr.name}" for fr in reversed(tb[-3:]))
        msg = ''.join(c for c in str(e)[:28] if c.isalpha() or c == ' ').strip()
        ctx.fail(f'{tag}: unexpected {type(e).__name__} ({msg})', f'{str(e)[:160]} @ {where}')
        return False, None
    if sc.raises is not None:
        ctx.prove(ctx.Not(sc.raises[1]), f'{tag}: raises {sc.raises[0].__name__} whenever documented')
    return True, res


def compiled_active():
    from tenpy.tools import optimization
    return bool(getattr(optimization, 'have_cython_functions', False))


def has_empty_block(a):
    return any(t.size == 0 for t in a._data)


def install_faithful_blas():
    """refinement of the BLAS contract stub: scipy's dot/gemv wrappers reject empty vectors (checked against scipy),
    the generic stub returns 0 there.  Only relevant for stored blocks with a zero dimension."""
    N = Bd.npc()
    base = N.BLAS
    if getattr(base, '_faithful', False):
        return

    class FaithfulBLAS(base):
        _faithful = True

        @staticmethod
        def get_blas_funcs(name, arrays=(), dtype=None):
            f = base.get_blas_funcs(name, arrays, dtype=dtype)
            if dtype is None or np.dtype(dtype) != object:
                return f
            if name in ('dotu', 'dotc'):

                def dot(x, y):
                    if x.size == 0 or y.size == 0:
                        raise ValueError('BLAS dot: empty vector (scipy: failed for 2nd keyword offx)')
                    return f(x, y)

                return dot
            if name == 'gemv':

                def gemv(alpha, a, x, *args, **kw):
                    if x.size == 0 or a.size == 0:
                        raise ValueError('BLAS gemv: empty operand (scipy: failed for argument x / y)')
                    return f(alpha, a, x, *args, **kw)

                return gemv
            return f

    N.BLAS = FaithfulBLAS


def install_npc_facade():
    """the generic facade widens ``np.array(x, dtype=np.intp)`` to object when x holds symbolic values; in np_conserved the
    only such call is the all-integers test of ``_pre_indexing`` where numpy's own conversion (``__index__`` of the bounded
    symbolic index, TypeError for slices / lists) is the behaviour to keep"""
    from symx import stubs
    N = Bd.npc()

    class NpcFacade(stubs.NumpyFacade):

        def array(self, x, dtype=None, **kw):
            if dtype is not None and dtype is not object and np.dtype(dtype).kind in 'iu':
                return np.array(x, dtype=dtype, **kw)
            return stubs.NumpyFacade.array(self, x, dtype, **kw)

    N.np = NpcFacade(widen=False)


def setup_symbolic(tier):
    if tier == 'A':
        Bd.setup_symbolic_tierA()
    else:
        Bd.setup_symbolic_tierB()
    install_faithful_blas()
    install_npc_facade()


def mod_equal(ctx, x, y, ch):
    """charge vectors / arrays equal modulo ch.mod (formula or bool)"""
    d = np.asarray(x, dtype=object if ctx.symbolic else None) - np.asarray(y, dtype=object if ctx.symbolic else None)
    if d.size == 0:
        return True
    d = ch.make_valid(np.array(d).reshape(-1, ch.qnumber))
    ok = True
    for v in d.reshape(-1):
        ok = ok & (v == 0)
    return ok


def check_result(ctx, sc, res, dense_before, tag, W):
    """C01 obligations for one executed scenario: dense form, labels, qtotal rule, charges of the result legs"""
    N = W.npc
    if getattr(sc, 'norm2', False):
        tot = sum((abs2(x) for x in dense_before[0].reshape(-1)), 0.)
        ctx.prove_eq(np.asarray(res * res, dtype=object if ctx.symbolic else None).reshape(()),
                     np.asarray(tot, dtype=object if ctx.symbolic else None).reshape(()), f'{tag}: norm**2 == sum |entries|**2')
        ctx.prove(res >= 0, f'{tag}: norm >= 0')
        return None
    want = sc.oracle(*dense_before)
    if sc.scalar:
        ctx.prove(not is_array(res), f'{tag}: returns a scalar')
        ctx.prove_eq(np.asarray(res, dtype=object if ctx.symbolic else None).reshape(()), np.asarray(want).reshape(()),
                     f'{tag}: value == numpy oracle')
        return None
    R = sc.get(res)
    if not is_array(R):
        ctx.fail(f'{tag}: returns an Array', repr(type(R)))
        return None
    if sc.inplace:
        ctx.prove(R is sc.operands[0], f'{tag}: in-place method returns / modifies self')
    ch = sc.ch or W.ch
    ctx.prove_eq(R.to_ndarray(), want, f'{tag}: dense == numpy oracle')
    if sc.labels is not None:
        ctx.prove(R.get_leg_labels() == list(sc.labels), f'{tag}: labels follow the documented rule')
    if getattr(sc, 'qtotal_fn', None) is not None:
        sc.qtotal = sc.qtotal_fn()
    if getattr(sc, 'leg_q_fn', None) is not None:
        sc.leg_q = sc.leg_q_fn()
    if sc.qtotal is not None:
        if np.shape(R.qtotal) != (ch.qnumber, ):
            ctx.fail(f'{tag}: qtotal has one entry per charge', repr(np.shape(R.qtotal)))
        else:
            ctx.prove(mod_equal(ctx, R.qtotal, sc.qtotal, ch), f'{tag}: qtotal follows the documented rule')
    if sc.leg_q is not None:
        ctx.prove(len(sc.leg_q) == R.rank, f'{tag}: rank of the result')
        for k, (l, q) in enumerate(zip(R.legs, sc.leg_q)):
            got = sq(l)
            if got.shape != np.asarray(q).shape:
                ctx.fail(f'{tag}: result leg has the expected length', f'leg {k}: {got.shape} vs {np.asarray(q).shape}')
            else:
                ctx.prove(mod_equal(ctx, got, q, ch), f'{tag}: charges of the result legs')
    if sc.post is not None:
        sc.post(ctx, res, tag)
    return R


# =============================================================================================
# table, part 2: reshaping, indexing, legs
def _combine_oracle(a, groups, new_axes, pipe_specs, ch, labels):
    """own construction of the expected result of combine_legs.
    groups: list of lists of axes (indices into a); pipe_specs: list of (qconj, sort).
    Returns (oracle(da), labels, leg_q, out_axes) following the documentation:
    pipes appear at new_axes (default: position of the first combined leg, counted after removing the other
    combined legs), the other legs keep their order."""
    r = a.rank
    combined = [x for g in groups for x in g]
    rest = [i for i in range(r) if i not in combined]
    new_rank = len(rest) + len(groups)
    if new_axes is None:
        new_axes = []
        for g in groups:
            f = g[0]
            new_axes.append(sum(1 for i in rest if i < f) + sum(1 for g2 in groups if g2[0] < f))
    new_axes = [x + new_rank if x < 0 else x for x in new_axes]
    slots = [None] * new_rank
    for g, na, ps in zip(groups, new_axes, pipe_specs):
        slots[na] = ('pipe', g, ps)
    it = iter(rest)
    for k in range(new_rank):
        if slots[k] is None:
            slots[k] = ('leg', next(it), None)
    maps, out_labels, leg_q, shape = [], [], [], []
    for kind, x, ps in slots:
        if kind == 'leg':
            n = a.shape[x]
            maps.append({(i, ): i for i in range(n)})
            out_labels.append(labels[x])
            leg_q.append(sq(a.legs[x]))
            shape.append(n)
        else:
            pos, qout = pipe_positions([a.legs[i] for i in x], ps[0], ch, sort=ps[1])
            maps.append(pos)
            out_labels.append(comb_label(labels, x))
            n = len(pos)
            leg_q.append(np.array([qout[o] for o in range(n)]).reshape(n, ch.qnumber))
            shape.append(n)
    src_axes = [([x] if kind == 'leg' else list(x)) for kind, x, ps in slots]

    def oracle(da):
        out = np.zeros(shape, dtype=da.dtype)
        for idx in np.ndindex(*da.shape):
            o = tuple(m[tuple(idx[i] for i in ax)] for m, ax in zip(maps, src_axes))
            out[o] = da[idx]
        return out

    return oracle, out_labels, leg_q, maps, [kind == 'pipe' for kind, x, ps in slots]


@op('combine_legs', variants=('all', 'pair', 'perm', 'new_axes', 'two', 'single', 'given_pipe', 'qconj'), chain=True,
    quick=('all', 'perm', 'given_pipe'), labels="'(' + '.'.join(labels) + ')', unlabeled legs '?#'", qtotal='unchanged')
def b_combine_legs(W, v):
    N = W.npc
    need = {'all': 1, 'pair': 2, 'perm': 2, 'new_axes': 3, 'two': 3, 'single': 1, 'given_pipe': 2, 'qconj': 2}[v]
    a = W.first(min_rank=need, labels=['a', None, 'c', 'd'][:max(W.rank, need)] if W.injected is None else None)
    r = a.rank
    la = a.get_leg_labels()
    kw = {}
    new_axes = None
    if v == 'all':
        groups = [list(range(r))]
    elif v == 'pair':
        groups = [[0, 1]]
    elif v == 'perm':
        groups = [[r - 1, 0]]
    elif v == 'new_axes':
        groups = [[0, 2]]
        new_axes = [1]
        kw['new_axes'] = [1]
    elif v == 'two':
        groups = [[r - 1], [1, 0]]
        new_axes = [0, -1]  # (negative: counted in the result)
        kw['new_axes'] = [0, -1]
    elif v == 'single':
        groups = [[0]]
    elif v in ('given_pipe', 'qconj'):
        groups = [[0, 1]]
    specs = [(a.legs[g[0]].qconj, True) for g in groups]
    arg = groups if len(groups) > 1 or v == 'single' else groups[0]
    extra = []
    if v == 'qconj':
        kw['qconj'] = -a.legs[0].qconj
        specs = [(-a.legs[0].qconj, True)]
    if v == 'given_pipe':  # a pipe made for the conjugate legs, unsorted: documented to be conjugated as needed
        pipe = N.LegPipe([a.legs[0].conj(), a.legs[1].conj()], qconj=-1, sort=False, bunch=False)
        kw['pipes'] = pipe
        specs = [(+1, False)]
        extra = [pipe]
    oracle, labels, leg_q, _, is_pipe = _combine_oracle(a, groups, new_axes, specs, W.ch, la)

    def post(ctx, res, tag):
        got = res.get_leg_labels()
        ctx.prove(len(got) == len(labels) and all(g == w for g, w, p in zip(got, labels, is_pipe) if p),
                  f'{tag}: labels of the new pipes follow the documented rule')
        ctx.prove(len(got) == len(labels) and all(g == w for g, w, p in zip(got, labels, is_pipe) if not p),
                  f'{tag}: labels of the legs that are not combined are inherited')

    return Sc([a], lambda a: a.combine_legs(arg, **kw), oracle, labels=None, qtotal=a.qtotal, leg_q=leg_q, extra_live=extra, post=post)


@op('split_legs', variants=('first', 'all', 'unsorted', 'two', 'two_desc', 'two_labels_desc', 'cutoff'), quick=('first', 'unsorted'),
    labels="reverts combine: '(a.b)' -> 'a','b'; '?#' -> None", qtotal='unchanged')
def b_split_legs(W, v):
    N = W.npc
    l0, l1, l2 = W.leg(0), W.leg(1), W.leg(2)
    sort = v != 'unsorted'
    two = v.startswith('two')
    pq = 1 if not two else -1
    pipe = N.LegPipe([l0, l1], qconj=pq, sort=sort, bunch=sort)
    W.all_legs.append(pipe)
    if two:
        pipe2 = N.LegPipe([l2, l0.conj()], qconj=1, sort=True, bunch=False)
        W.all_legs.append(pipe2)
        legs, labels = [pipe, pipe2], ['(a.?1)', '(c.d*)']
        # documented: `axes` only *selects* the pipes to split, each is replaced at its position whatever the order given
        arg = {'two': None, 'two_desc': [1, 0], 'two_labels_desc': ['(c.d*)', '(a.?1)']}[v]
        parts = [[l0, l1], [l2, l0.conj()]]
        specs = [(pq, sort), (1, True)]
        out_labels = ['a', None, 'c', 'd*']
    else:
        legs, labels = [pipe, l2], ['(a.b)', 'c']
        arg = {'first': 0, 'all': None, 'unsorted': '(a.b)', 'cutoff': [0]}[v]
        parts = [[l0, l1], [l2]]
        specs = [(pq, sort), None]
        out_labels = ['a', 'b', 'c']
    a = W.tensor('a', legs, labels=labels)
    maps = []
    for p, s in zip(parts, specs):
        if s is None:
            maps.append({(i, ): i for i in range(p[0].ind_len)})
        else:
            maps.append(pipe_positions(p, s[0], W.ch, sort=s[1])[0])
    out_shape = [l.ind_len for p in parts for l in p]
    widths = [len(p) for p in parts]

    def oracle(da):
        out = np.zeros(out_shape, dtype=da.dtype)
        for idx in np.ndindex(*out_shape):
            src, k = [], 0
            for m, w in zip(maps, widths):
                src.append(m[tuple(idx[k:k + w])])
                k += w
            out[idx] = da[tuple(src)]
        return out

    kw = {'cutoff': 0.} if v == 'cutoff' else {}
    return Sc([a], lambda a: a.split_legs(arg, **kw), oracle, labels=out_labels, qtotal=a.qtotal,
              leg_q=[sq(l) for p in parts for l in p])


@op('as_completely_blocked', chain=True, owns=False, labels='encapsulated legs get pipe labels', qtotal='unchanged')
def b_as_completely_blocked(W, v):
    a = W.first()
    la = a.get_leg_labels()

    def post(ctx, res, tag):
        enc, R = res
        for i, l in enumerate(R.legs):
            distinct = Bd.rows_differ(ctx, _sorted_rows(ctx, l.charges)) if l.block_number > 1 else True
            ctx.prove(distinct, f'{tag}: every leg of the result is blocked by charge')

    def oracle(da):  # dense form up to the permutations inside the single-leg pipes: checked through split_legs
        return da

    return Sc([a], lambda a: a.as_completely_blocked(), oracle, get=lambda r: r[1].split_legs() if r[0] else r[1], labels=la,
              qtotal=a.qtotal, leg_q=[sq(l) for l in a.legs], owns=False, post=post)


def _sorted_rows(ctx, rows):
    rows = [r for r in rows]
    return sorted(rows, key=_LexKey) if len(rows) else rows


# ---------------------------------------------------------------- slicing / indexing
def _sym_index(W, name, n, oob=True, neg=True):
    """index with a bounded symbolic value; out-of-range values included when oob (IndexError documented)"""
    if W.tier == 'A' or (n <= 3 and W.sym_budget > 0):
        W.sym_budget -= 1  # Tier B: at most two symbolic indices per scenario, further ones are drawn with the seed
        return W.ctx.int(W.ns + name, (-n - 1 if oob else -n) if neg else 0, n if oob else n - 1)
    rng = W.rng('idx:' + name)
    return rng.randrange(-n, n)


def _in_range(i, n):
    return (i >= -n) & (i < n)


@op('take_slice', variants=('one', 'two', 'label', 'nothing'), chain=True, quick=('one', 'label', 'nothing'),
    labels='labels of the remaining legs', qtotal='a.qtotal - signed charge of the fixed indices')
def b_take_slice(W, v):
    a = W.first(min_rank=2 if v == 'two' else 1)
    r = a.rank
    la = a.get_leg_labels()
    if v == 'nothing':  # no index fixed: documented to return a copy of self
        return Sc([a], lambda a: a.take_slice([], []), lambda da: da, **_same(a))
    if r == 1:
        raise Skip()  # result would have rank 0: not allowed (documented: no rank-0 arrays)
    axes = [r - 1] if v != 'two' else [r - 1, 0]
    if v == 'two' and r < 3:
        raise Skip()
    idx = [_sym_index(W, f'i{k}', a.shape[ax]) for k, ax in enumerate(axes)]
    ok = True
    for i, ax in zip(idx, axes):
        ok = ok & _in_range(i, a.shape[ax])
    arg_axes = [la[ax] if (v == 'label' and la[ax] is not None) else ax for ax in axes]
    keep = [i for i in range(r) if i not in axes]

    def oracle(da):
        inds = [slice(None)] * r
        for i, ax in zip(idx, axes):
            inds[ax] = int(i)
        return da[tuple(inds)]

    def qt():
        q = np.array(a.qtotal)
        for i, ax in zip(idx, axes):
            q = q - sq(a.legs[ax])[int(i)]
        return q

    sc = Sc([a], lambda a: a.take_slice(idx if len(idx) > 1 else idx[0], arg_axes if len(idx) > 1 else arg_axes[0]), oracle,
            labels=[la[i] for i in keep], leg_q=[sq(a.legs[i]) for i in keep], raises=(IndexError, W.ctx.Not(ok)))
    sc.qtotal_fn = qt
    return sc


def _index_variants(W, a, v):
    """-> (inds as given to tenpy, full per-axis inds for the oracle) ; may raise Skip"""
    r, sh = a.rank, a.shape
    rng = W.rng('getitem:' + v)
    if v == 'int_first':
        i = _sym_index(W, 'i', sh[0], oob=False)
        if r == 1:
            raise Skip()
        return (i, ), (i, ) + (slice(None), ) * (r - 1)
    if v == 'ellipsis_last':
        if r == 1:
            raise Skip()
        j = _sym_index(W, 'j', sh[-1], oob=False)
        return (Ellipsis, j), (slice(None), ) * (r - 1) + (j, )
    if v == 'all_slices':  # a[:, :]: all-trivial indexing, documented as a copy
        inds = (slice(None), ) * r
        return inds, inds
    if v == 'ellipsis_only':  # a[...]
        return (Ellipsis, ), (slice(None), ) * r
    if v == 'slice':
        s0 = slice(1, None) if sh[0] > 1 else slice(None)
        inds = (s0, ) + ((slice(None, None, 2), ) if r > 1 else ())
        return inds, full_inds(inds, r)
    if v == 'negstep':
        inds = (slice(None, None, -1), ) + ((slice(sh[1], 0, -1), ) if r > 1 else ())
        return inds, full_inds(inds, r)
    if v == 'mask':
        n = sh[-1]
        if W.tier == 'A' or n <= 3:
            m = np.array([W.ctx.flag(W.ns + f'm{k}') for k in range(n)], dtype=bool)
        else:
            m = np.array([rng.random() < 0.6 for _ in range(n)], dtype=bool)
        inds = (Ellipsis, m)
        return inds, full_inds(inds, r)
    if v == 'idxarray':
        n = sh[0]
        if n < 2:
            raise Skip()
        sub = list(range(n))
        rng.shuffle(sub)
        sub = sub[:max(2, n - 1)]
        if sub == sorted(sub):
            sub = sub[::-1]
        inds = (np.array(sub), )
        return inds, full_inds(inds, r)
    if v == 'mixed':
        if r < 2:
            raise Skip()
        i = _sym_index(W, 'i', sh[0], oob=False)
        sub = list(range(sh[1]))[::-1][:max(1, sh[1] - 1)]
        inds = (i, sub) + ((slice(None, -1), ) if r > 2 else ())
        return inds, full_inds((i, np.array(sub)) + ((slice(None, -1), ) if r > 2 else ()), r)
    raise ValueError(v)


def _index_expect(a, full):
    la = a.get_leg_labels()
    keep = [k for k, i in enumerate(full) if not isinstance(i, (int, np.integer)) and not _is_symint(i)]
    labels = [la[k] for k in keep]

    def qt():
        q = np.array(a.qtotal)
        for k, i in enumerate(full):
            if k not in keep:
                q = q - sq(a.legs[k])[int(i)]
        return q

    def leg_q():
        out = []
        for k in keep:
            out.append(np_index(sq(a.legs[k]), (full[k], )))
        return out

    return keep, labels, qt, leg_q


def _is_symint(i):
    return type(i).__name__ == 'I'


def _concrete_full(full):
    return tuple(int(i) if (_is_symint(i) or isinstance(i, (int, np.integer))) else i for i in full)


@op('getitem', variants=('ints', 'int_first', 'ellipsis_last', 'slice', 'negstep', 'mask', 'idxarray', 'mixed', 'all_slices', 'ellipsis_only'), chain=True,
    quick=('ints', 'int_first', 'negstep', 'mask', 'idxarray', 'mixed', 'all_slices', 'ellipsis_only'), labels='labels of the axes not indexed by an int',
    qtotal='a.qtotal - signed charge of the int-indexed positions')
def b_getitem(W, v):
    a = W.first()
    r = a.rank
    if v == 'ints':
        idx = tuple(_sym_index(W, f'i{k}', a.shape[k], oob=(k == 0), neg=(k == 0)) for k in range(r))
        ok = True
        for i, n in zip(idx, a.shape):
            ok = ok & _in_range(i, n)
        return Sc([a], lambda a: a[idx if r > 1 else idx[0]], lambda da: da[tuple(int(i) for i in idx)], scalar=True,
                  raises=(IndexError, W.ctx.Not(ok)))
    inds, full = _index_variants(W, a, v)
    keep, labels, qt, leg_q = _index_expect(a, full)
    if not keep:
        raise Skip()
    sc = Sc([a], lambda a: a[inds if len(inds) > 1 else inds[0]], lambda da: np_index(da, _concrete_full(full)), labels=labels)
    sc.qtotal_fn = qt
    sc.leg_q_fn = leg_q
    return sc


@op('setitem', variants=('ints', 'slice_npc', 'slice_flat', 'negstep_npc', 'mask_flat', 'int_first_npc'), inplace=True, chain=True,
    quick=('ints', 'slice_npc', 'negstep_npc', 'mask_flat'), labels='unchanged', qtotal='unchanged')
def b_setitem(W, v):
    N = W.npc
    ctx = W.ctx
    a = W.first()
    r = a.rank
    if v == 'ints':
        # concretised (one path per value): with symbolic index objects the position array of __setitem__ becomes an
        # object array and so would the _qdata row inserted by get_block(insert=True) -- an artefact of the embedding
        idx = tuple(int(_sym_index(W, f'i{k}', a.shape[k], oob=False, neg=(k == r - 1))) for k in range(r))
        val = W.scalar('val')
        # documented (get_block): IndexError if the position is not compatible with the charges
        q = np.array(a.qtotal)
        for k, i in enumerate(idx):
            q = q - sq(a.legs[k])[int(i)]
        allowed = mod_equal(ctx, q, np.zeros_like(q), W.ch)

        def call(a):
            a[idx if r > 1 else idx[0]] = val
            return a

        def oracle(da):
            da = np.array(da)
            da[tuple(int(i) for i in idx)] = val
            return da

        return Sc([a], call, oracle, inplace=True, raises=(IndexError, ctx.Not(allowed)), **_same(a))
    vv = {'slice_npc': 'slice', 'slice_flat': 'slice', 'negstep_npc': 'negstep', 'mask_flat': 'mask', 'int_first_npc': 'int_first'}[v]
    inds, full = _index_variants(W, a, vv)
    # symbolic index objects would reach numpy's own indexing of the blocks (block[block_mask] = ...): concretise them
    inds = tuple(int(i) if _is_symint(i) else i for i in inds)
    full = tuple(int(i) if _is_symint(i) else i for i in full)
    keep, labels, qt, leg_q = _index_expect(a, full)
    if not keep:
        raise Skip()
    # `other`: tensor with the legs of a[inds] (taken from a zero copy, so no entry of a is involved)
    proto = a.zeros_like()[inds if len(inds) > 1 else inds[0]]
    b = W.tensor('b', proto.legs, labels=proto.get_leg_labels(), qtotal=proto.qtotal)
    cfull = _concrete_full(full)

    def oracle(da, db):
        da = np.array(da)
        sel = np_index(np.arange(da.size).reshape(da.shape), cfull)
        flat = da.reshape(-1)
        out = flat.copy()
        out[sel.reshape(-1)] = db.reshape(-1)
        return out.reshape(da.shape)

    if v.endswith('_flat'):

        def call(a, b):
            a[inds if len(inds) > 1 else inds[0]] = b.to_ndarray()
            return a
    else:

        def call(a, b):
            a[inds if len(inds) > 1 else inds[0]] = b
            return a

    return Sc([a, b], call, oracle, inplace=True, **_same(a))


@op('iproject', variants=('mask', 'intmask', 'two'), inplace=True, chain=True, quick=('mask', 'two'), labels='unchanged',
    qtotal='unchanged')
def b_iproject(W, v):
    a = W.first(min_rank=2 if v == 'two' else 1)
    r = a.rank
    rng = W.rng('iproject')

    def mk(ax, name):
        n = a.shape[ax]
        if (W.tier == 'A' or n <= 3) and name == 'm':
            return np.array([W.ctx.flag(W.ns + f'{name}{k}') for k in range(n)], dtype=bool)
        return np.array([rng.random() < 0.6 for _ in range(n)], dtype=bool)

    if v == 'two':
        axes = [0, r - 1]
        masks = [mk(0, 'm'), mk(r - 1, 'n')]
        arg_m, arg_a = masks, axes
    else:
        axes = [r - 1]
        masks = [mk(r - 1, 'm')]
        arg_m = masks[0] if v == 'mask' else np.nonzero(masks[0])[0][::-1]
        arg_a = -1 + r
    full = [slice(None)] * r
    for m, ax in zip(masks, axes):
        full[ax] = m
    la = a.get_leg_labels()
    leg_q = [np_index(sq(l), (full[k], )) for k, l in enumerate(a.legs)]

    def call(a):
        a.iproject(arg_m, arg_a)
        return a

    return Sc([a], call, lambda da: np_index(da, tuple(full)), labels=la, qtotal=a.qtotal, leg_q=leg_q, inplace=True)


@op('permute', variants=('first', 'last_label'), chain=True, quick=('first', ), labels='unchanged', qtotal='unchanged')
def b_permute(W, v):
    a = W.first()
    la = a.get_leg_labels()
    ax = 0 if v == 'first' else a.rank - 1
    n = a.shape[ax]
    perms = list(itertools.permutations(range(n)))
    if W.tier == 'A' or n <= 3:
        p = list(perms[W.ctx.choice(W.ns + 'perm', len(perms))])
    else:
        p = list(range(n))
        W.rng('permute').shuffle(p)
    arg = ax if (v == 'first' or la[ax] is None) else la[ax]
    leg_q = [sq(l) for l in a.legs]
    leg_q[ax] = leg_q[ax][p]
    return Sc([a], lambda a: a.permute(p, arg), lambda da: np.take(da, p, axis=ax), labels=la, qtotal=a.qtotal, leg_q=leg_q)


@op('sort_legcharge', variants=('default', 'sort_only', 'bunch_only', 'per_leg'), chain=True, owns=False, quick=('default', 'per_leg'),
    labels='unchanged', qtotal='unchanged')
def b_sort_legcharge(W, v):
    a = W.first()
    r = a.rank
    la = a.get_leg_labels()
    kw = {'default': {}, 'sort_only': dict(sort=True, bunch=False), 'bunch_only': dict(sort=False, bunch=True),
          'per_leg': dict(sort=[k % 2 == 0 for k in range(r)], bunch=[k % 2 == 1 for k in range(r)])}[v]
    sort = kw.get('sort', True)
    bunch = kw.get('bunch', True)
    sort = sort if isinstance(sort, list) else [sort] * r
    bunch = bunch if isinstance(bunch, list) else [bunch] * r
    qa = [sq(l) for l in a.legs]
    box = {}

    def call(a):
        box['res'] = a.sort_legcharge(**kw)
        return box['res']

    def oracle(da):  # documented: cp.to_ndarray() == self.to_ndarray()[np.ix_(*perm)]
        perm = box['res'][0]
        return da[np.ix_(*[np.asarray(p, dtype=np.intp) for p in perm])]

    def post(ctx, res, tag):
        perm, R = res
        for k in range(r):
            p = [int(x) for x in perm[k]]
            ctx.prove(sorted(p) == list(range(a.shape[k])), f'{tag}: returned perm is a permutation')
            ctx.prove(mod_equal(ctx, sq(R.legs[k]), qa[k][p], W.ch), f'{tag}: leg charges permuted like the entries')
            if sort[k]:
                ctx.prove(Bd.lex_nondecreasing(ctx, R.legs[k].charges), f'{tag}: sorted leg is sorted')
            if bunch[k]:
                ctx.prove(Bd.rows_differ(ctx, R.legs[k].charges), f'{tag}: bunched leg is bunched')

    return Sc([a], call, oracle, get=lambda r: r[1], labels=la, qtotal=a.qtotal, owns=False, post=post)


# =============================================================================================
# table, part 3: legs added / removed, concatenation, charges, creation, misc
@op('add_trivial_leg', variants=('front', 'back', 'mid_conj'), chain=True, owns=False, quick=('front', 'mid_conj'),
    labels='new label inserted at axis', qtotal='unchanged')
def b_add_trivial_leg(W, v):
    a = W.first()
    r = a.rank
    la = a.get_leg_labels()
    axis, qc = {'front': (0, 1), 'back': (r, 1), 'mid_conj': (-1, -1)}[v]
    pos = axis if axis >= 0 else axis + r
    lab = 'triv'
    z = np.zeros((1, W.ch.qnumber), dtype=object if W.ctx.symbolic else np.int64)
    leg_q = [sq(l) for l in a.legs]
    leg_q.insert(pos, z)
    return Sc([a], lambda a: a.add_trivial_leg(axis, lab, qc), lambda da: np.expand_dims(da, pos), labels=la[:pos] + [lab] + la[pos:],
              qtotal=a.qtotal, leg_q=leg_q, owns=False)


@op('add_leg', variants=('front', 'back'), chain=True, quick=('back', ), labels='new label inserted at axis',
    qtotal='a.qtotal + signed charge of index i of the new leg')
def b_add_leg(W, v):
    a = W.first()
    r = a.rank
    la = a.get_leg_labels()
    leg = W.xleg('nl')
    n = leg.ind_len
    i = _sym_index(W, 'i', n, oob=False)
    axis = 0 if v == 'front' else r
    lab = 'new'

    def oracle(da):
        ii = int(i) % n
        out = np.zeros(da.shape[:axis] + (n, ) + da.shape[axis:], dtype=da.dtype)
        out[(slice(None), ) * axis + (ii, )] = da
        return out

    sc = Sc([a], lambda a: a.add_leg(leg, i, axis, lab), oracle, labels=la[:axis] + [lab] + la[axis:],
            leg_q=[sq(l) for l in a.legs[:axis]] + [sq(leg)] + [sq(l) for l in a.legs[axis:]], extra_live=[leg])
    sc.qtotal_fn = lambda: a.qtotal + sq(leg)[int(i)]
    return sc


@op('extend', variants=('leg', 'int'), chain=True, quick=('leg', ), labels='unchanged', qtotal='unchanged')
def b_extend(W, v):
    a = W.first()
    la = a.get_leg_labels()
    ax = a.rank - 1
    if v == 'leg':
        extra = W.xleg('ex')
        k = extra.ind_len
        eq = sq(extra)
    else:
        extra = k = 2
        eq = np.zeros((2, W.ch.qnumber), dtype=object if W.ctx.symbolic else np.int64)
    arg = la[ax] if la[ax] is not None else ax
    leg_q = [sq(l) for l in a.legs]
    leg_q[ax] = np.concatenate([leg_q[ax], eq], axis=0)

    def oracle(da):
        pad = np.zeros(da.shape[:ax] + (k, ), dtype=da.dtype)
        return np.concatenate([da, pad], axis=ax)

    return Sc([a], lambda a: a.extend(arg, extra), oracle, labels=la, qtotal=a.qtotal, leg_q=leg_q,
              extra_live=[extra] if v == 'leg' else [])


@op('squeeze', variants=('none', 'one', 'all', 'emptyblock'), quick=('none', 'all', 'emptyblock'),
    labels='labels of the remaining legs', qtotal='a.qtotal - signed charge of the squeezed legs')
def b_squeeze(W, v):
    t0 = W.new_leg('t0', [1], 1)
    t1 = W.new_leg('t1', [1], -1)
    if v == 'emptyblock':  # a length-1 leg whose first block is empty
        t1 = W.new_leg('t1', [0, 1], -1)
    l0 = W.leg(0)
    if v == 'all':
        legs, labels, axes, arg = [t0, t1], ['s', 't'], [0, 1], None
    elif v == 'one':
        legs, labels, axes, arg = [t0, l0, t1], ['s', 'a', 't'], [2], 't'
    else:  # numpy convention: axes=None squeezes every leg of length 1 (also l0 if it happens to have length 1)
        legs, labels, arg = [t0, l0, t1], ['s', 'a', 't'], None
        axes = [k for k, l in enumerate(legs) if l.ind_len == 1]
    a = W.tensor('a', legs, labels=labels)
    keep = [k for k in range(len(legs)) if k not in axes]
    q = np.array(a.qtotal)
    for k in axes:
        q = q - sq(legs[k])[0]
    return Sc([a], lambda a: a.squeeze(arg) if arg is not None else a.squeeze(), lambda da: np.squeeze(da, axis=tuple(axes)),
              labels=[labels[k] for k in keep], qtotal=q, leg_q=[sq(legs[k]) for k in keep], scalar=not keep)


@op('concatenate', variants=('axis0', 'last_conj', 'three', 'nocopy'), chain=True, quick=('axis0', 'last_conj'),
    labels='labels of the first array', qtotal='common qtotal')
def b_concatenate(W, v):
    N = W.npc
    a = W.first()
    r = a.rank
    la = a.get_leg_labels()
    ax = 0 if v in ('axis0', 'three', 'nocopy') else r - 1
    others = []
    for k in range(2 if v == 'three' else 1):
        x = W.new_leg(f'cx{k}', [2] if W.tier == 'A' else W.small_sizes(f'cx{k}'),
                      -a.legs[ax].qconj if v == 'last_conj' else a.legs[ax].qconj)
        legs = list(a.legs)
        legs[ax] = x
        others.append(W.tensor(f'b{k}', legs, labels=[None] * r, qtotal=a.qtotal))
    arg_ax = la[ax] if la[ax] is not None else ax
    leg_q = [sq(l) for l in a.legs]
    leg_q[ax] = np.concatenate([leg_q[ax]] + [sq(o.legs[ax]) for o in others], axis=0)
    copy = v != 'nocopy'
    return Sc([a] + others, lambda *arrs: N.concatenate(list(arrs), arg_ax, copy=copy), lambda *ds: np.concatenate(ds, axis=ax),
              labels=la, qtotal=a.qtotal, leg_q=leg_q, owns=copy)


@op('grid_concat', variants=('full', 'none_entry'), quick=('none_entry', ), labels='labels of the first entry', qtotal='common qtotal')
def b_grid_concat(W, v):
    N = W.npc
    one = [1] if W.tier == 'A' else None
    r0, r1 = W.leg(0), W.new_leg('gr1', one or W.small_sizes('gr1'), W.leg(0).qconj)
    c0, c1 = W.leg(1), W.new_leg('gc1', one or W.small_sizes('gc1'), W.leg(1).qconj)
    A = W.tensor('a', [r0, c0], labels=['r', 'c'])
    qt = A.qtotal
    B = W.tensor('b', [r0, c1], labels=['r', 'c'], qtotal=qt)
    Cc = W.tensor('c', [r1, c0], labels=['r', 'c'], qtotal=qt)
    D = W.tensor('d', [r1, c1], labels=['r', 'c'], qtotal=qt)
    if v == 'full':
        ops_ = [A, B, Cc, D]
        call = lambda A, B, Cc, D: N.grid_concat([[A, B], [Cc, D]], [0, 1])
        oracle = lambda a, b, c, d: np.concatenate([np.concatenate([a, b], axis=1), np.concatenate([c, d], axis=1)], axis=0)
    else:
        ops_ = [A, B, Cc]
        call = lambda A, B, Cc: N.grid_concat([[A, B], [Cc, None]], ['r', 'c'])
        oracle = lambda a, b, c: np.concatenate(
            [np.concatenate([a, b], axis=1), np.concatenate([c, np.zeros((c.shape[0], b.shape[1]), dtype=c.dtype)], axis=1)], axis=0)
    leg_q = [np.concatenate([sq(r0), sq(r1)], axis=0), np.concatenate([sq(c0), sq(c1)], axis=0)]
    return Sc(ops_, call, oracle, labels=['r', 'c'], qtotal=qt, leg_q=leg_q)


@op('grid_outer', variants=('qtotal_given', 'qtotal_detected'), quick=('qtotal_detected', ), labels='grid_labels + labels of the entries',
    qtotal='given, or grid charges + entry.qtotal of the first entry')
def b_grid_outer(W, v):
    N = W.npc
    ch = W.ch
    g = W.new_leg('g', [1, 1, 1] if W.tier == 'B' else [1, 2], 1 if W.rng('go').random() < 0.5 else -1)
    l0, l1 = W.leg(0), (W.leg(1) if W.tier == 'B' else W.new_leg('go1', [2], -1))
    if W.tier == 'A':
        qt = Bd.qvec(W.ctx, W.ns + 'goqt', ch)
    else:
        qt = W.draw_qtotal('go', [g, l0, l1])
        qt = ch.make_valid(None) if qt is None else qt
    gq = sq(g)
    e0 = W.tensor('e0', [l0, l1], labels=['p', 'q'], qtotal=ch.make_valid(np.array(qt - gq[0])))
    e2 = W.tensor('e2', [l0, l1], labels=['p', 'q'], qtotal=ch.make_valid(np.array(qt - gq[2])))
    kw = dict(qtotal=np.array(qt)) if v == 'qtotal_given' else {}

    def oracle(d0, d2):
        return np.stack([d0, np.zeros_like(d0), d2], axis=0)

    return Sc([e0, e2], lambda e0, e2: N.grid_outer([e0, None, e2], [g], grid_labels=['w'], **kw), oracle, labels=['w', 'p', 'q'],
              qtotal=qt, leg_q=[gq, sq(l0), sq(l1)], extra_live=[g])


@op('gauge_total_charge', variants=('zero', 'new', 'flip'), chain=True, owns=False, quick=('new', 'flip'), labels='unchanged',
    qtotal='newqtotal (default 0)')
def b_gauge_total_charge(W, v):
    a = W.first()
    la = a.get_leg_labels()
    ch = W.ch
    ax = a.rank - 1
    arg = la[ax] if la[ax] is not None else ax
    if v == 'zero':
        newq, kw = ch.make_valid(None), {}
    else:
        newq = Bd.qvec(W.ctx, W.ns + 'newqt', ch) if W.tier == 'A' else ch.make_valid(np.array(W.draw_charges('newqt', 1)[0]))
        kw = dict(newqtotal=np.array(newq))
    if v == 'flip':
        kw['new_qconj'] = -a.legs[ax].qconj
    leg_q = [sq(l) for l in a.legs]
    leg_q[ax] = leg_q[ax] + (newq - a.qtotal)

    def post(ctx, res, tag):
        ctx.prove(res.legs[ax].qconj == kw.get('new_qconj', a.legs[ax].qconj), f'{tag}: qconj of the gauged leg')

    return Sc([a], lambda a: a.gauge_total_charge(arg, **kw), lambda da: da, labels=la, qtotal=newq, leg_q=leg_q, owns=False, post=post)


@op('drop_charge', variants=('all', 'first', 'last'), chain=True, quick=('all', 'last'), labels='unchanged',
    qtotal='the dropped component removed')
def b_drop_charge(W, v):
    a = W.first()
    N = W.npc
    ch = a.chinfo
    la = a.get_leg_labels()
    if ch.qnumber == 0 and v != 'all':
        raise Skip()
    if v == 'all':
        ch2 = N.ChargeInfo()
        arg = None
        sel = []
    else:
        k = 0 if v == 'first' else ch.qnumber - 1
        arg = k
        sel = [j for j in range(ch.qnumber) if j != k]
        ch2 = N.ChargeInfo([int(ch.mod[j]) for j in sel])
    leg_q = [sq(l)[:, sel] for l in a.legs]
    return Sc([a], lambda a: a.drop_charge(arg), lambda da: da, labels=la, qtotal=np.array(a.qtotal)[sel], leg_q=leg_q, ch=ch2)


@op('change_charge', variants=('to_Z2', 'to_Z3', 'Z4_to_Z2'), chain=True, quick=('to_Z2', 'to_Z3'), labels='unchanged',
    qtotal='a.qtotal modulo the new mod')
def b_change_charge(W, v):
    a = W.first()
    N = W.npc
    ch = a.chinfo
    la = a.get_leg_labels()
    mods = [int(m) for m in ch.mod]
    new = {'to_Z2': 2, 'to_Z3': 3, 'Z4_to_Z2': 2}[v]
    cand = [j for j, m in enumerate(mods) if (m == 1 if v != 'Z4_to_Z2' else m == 4)]
    if not cand:
        raise Skip()
    k = cand[-1]
    mods2 = list(mods)
    mods2[k] = new
    ch2 = N.ChargeInfo(mods2)
    return Sc([a], lambda a: a.change_charge(k, new, 'newname'), lambda da: da, labels=la, qtotal=np.array(a.qtotal),
              leg_q=[sq(l) for l in a.legs], ch=ch2)


@op('add_charge', variants=('qtotal_given', ), tiers='B', labels='unchanged', qtotal='concatenation of a.qtotal and the given qtotal')
def b_add_charge(W, v):
    """Tier B: a tensor conserving (c0, c1) is rebuilt from its c0-part and the legs of c1"""
    N = W.npc
    ch = W.ch
    if ch.qnumber < 2:
        raise Skip()
    full = W.first()
    la = full.get_leg_labels()
    ch0 = N.ChargeInfo([int(m) for m in ch.mod[:-1]])
    ch1 = N.ChargeInfo([int(ch.mod[-1])])
    legs0 = [N.LegCharge.from_qind(ch0, l.slices, np.array(l.charges[:, :-1]), l.qconj) for l in full.legs]
    legs1 = [N.LegCharge.from_qind(ch1, l.slices, np.array(l.charges[:, -1:]), l.qconj) for l in full.legs]
    a = N.Array(legs0, dtype=full.dtype, qtotal=np.array(full.qtotal[:-1]), labels=la)
    a._data = [np.array(t) for t in full._data]
    a._qdata = np.array(full._qdata)
    a._qdata_sorted = full._qdata_sorted
    q1 = np.array(full.qtotal[-1:])
    return Sc([a], lambda a: a.add_charge(legs1, qtotal=q1), lambda da: da, labels=la, qtotal=np.array(full.qtotal),
              leg_q=[sq(l) for l in full.legs], ch=ch, extra_live=legs1)


# ---------------------------------------------------------------- creation
@op('diag', variants=('vector', 'scalar'), quick=('vector', ), labels='given', qtotal='0')
def b_diag(W, v):
    N = W.npc
    leg = W.leg(0)
    n = leg.ind_len
    s = W.vec('s', n) if v == 'vector' else W.scalar('s')
    dt = object if W.ctx.symbolic else None
    want = np.diag(s) if v == 'vector' else np.diag(np.array([s] * n, dtype=dt))
    return Sc([], lambda: N.diag(s, leg, dtype=dt, labels=['p', 'p*']), lambda: want, labels=['p', 'p*'],
              qtotal=W.ch.make_valid(None), leg_q=[sq(leg), -sq(leg)], extra_live=[leg])


@op('eye_like', chain=True, labels='given', qtotal='0')
def b_eye_like(W, v):
    N = W.npc
    a = W.first()
    leg = a.legs[-1]
    n = leg.ind_len
    return Sc([a], lambda a: N.eye_like(a, -1 + a.rank, labels=['p', 'q']), lambda da: np.eye(n), labels=['p', 'q'],
              qtotal=W.ch.make_valid(None), leg_q=[sq(leg), -sq(leg)])


@op('zeros', labels='given', qtotal='given')
def b_zeros(W, v):
    N = W.npc
    legs = [W.leg(k) for k in range(W.rank)]
    qt = W.qtotal('z', legs)
    qt = W.ch.make_valid(None) if qt is None else qt
    labs = list('abcdefg')[:W.rank]
    return Sc([], lambda: N.zeros(legs, qtotal=np.array(qt), labels=labs), lambda: np.zeros([l.ind_len for l in legs]), labels=labs,
              qtotal=qt, leg_q=[sq(l) for l in legs], extra_live=legs)


@op('from_func', variants=('ones', 'symbolic', 'shape_kw'), quick=('symbolic', ), labels='given', qtotal='given')
def b_from_func(W, v):
    """oracle: the blocks of a reference tensor built by the harness; from_func must call func once per allowed block,
    in lexicographic block order, and put the returned data there"""
    N = W.npc
    legs = [W.leg(k) for k in range(W.rank)]
    ref = W.tensor('a', legs, labels=None, subset='all')
    # from_func stores every allowed block, also those with a zero dimension
    blocks = [np.array(t) for t in ref._data]
    shapes = [t.shape for t in blocks]
    it = iter(range(len(blocks)))
    dt = object if W.ctx.symbolic else ref.dtype
    state = {'k': 0, 'ok': True}

    def func(shape, *args):
        if shape == (2, 2) and state['k'] >= len(blocks):
            return np.zeros(shape, dtype=dt)
        k = state['k']
        state['k'] += 1
        if k >= len(blocks) or tuple(shape) != shapes[k]:
            state['ok'] = False
            return np.zeros(shape, dtype=dt)
        return blocks[k] if v != 'ones' else np.ones(shape)

    def func_kw(x=None, shp=None):
        return func(shp)

    want = ref.to_ndarray() if v != 'ones' else np.array(ref.to_ndarray() * 0 + _ones_where_stored(ref))
    labs = list('abcdefg')[:W.rank]
    if v == 'shape_kw':
        call = lambda: N.Array.from_func(func_kw, legs, dtype=dt, qtotal=np.array(ref.qtotal), func_kwargs={'x': 1}, shape_kw='shp', labels=labs)
    else:
        call = lambda: N.Array.from_func(func, legs, dtype=dt, qtotal=np.array(ref.qtotal), labels=labs)

    def post(ctx, res, tag):
        ctx.prove(state['ok'] and state['k'] == len(blocks), f'{tag}: func called once per allowed block with its shape')

    if W.struct.get('store_empty') is not True and any(0 in s for s in _all_allowed_shapes(W, ref)):
        raise Skip()  # reference built without the empty blocks: call order would not match
    return Sc([], call, lambda: want, labels=labs, qtotal=ref.qtotal, leg_q=[sq(l) for l in legs], post=post, extra_live=legs)


def _all_allowed_shapes(W, ref):
    out = []
    for qi in ref._iter_all_blocks():
        out.append(tuple(int(l.slices[k + 1] - l.slices[k]) for l, k in zip(ref.legs, qi)))
    return out


def _ones_where_stored(ref):
    out = np.zeros(ref.shape)
    for qi in ref._qdata:
        out[tuple(slice(int(l.slices[k]), int(l.slices[k + 1])) for l, k in zip(ref.legs, qi))] = 1.
    return out


@op('ones', labels='given', qtotal='given')
def b_ones(W, v):
    N = W.npc
    legs = [W.leg(k) for k in range(W.rank)]
    ref = W.tensor('a', legs, labels=None, subset='all')  # only its block structure (own allowedness test) is used
    if W.struct.get('store_empty') is not True and any(0 in s for s in _all_allowed_shapes(W, ref)):
        pass  # zero-size blocks do not change the dense form
    want = _ones_where_stored(ref)
    return Sc([], lambda: N.ones(legs, dtype=object if W.ctx.symbolic else float, qtotal=np.array(ref.qtotal)), lambda: want,
              labels=[None] * W.rank, qtotal=ref.qtotal, leg_q=[sq(l) for l in legs], extra_live=legs)


@op('from_ndarray', variants=('roundtrip', 'wrong_sector', 'detect_qtotal'), chain=True, quick=('roundtrip', 'wrong_sector'),
    labels='given', qtotal='given / detected from the largest entry')
def b_from_ndarray(W, v):
    N = W.npc
    ctx = W.ctx
    a = W.first()
    la = a.get_leg_labels()
    legs = list(a.legs)
    dt = object if ctx.symbolic else a.dtype
    if v == 'roundtrip':
        return Sc([a], lambda a: N.Array.from_ndarray(a.to_ndarray(), legs, dtype=dt, qtotal=np.array(a.qtotal), cutoff=0., labels=la),
                  lambda da: da, **_same(a))
    if v == 'wrong_sector':  # one extra symbolic entry: documented ValueError iff it lies in a wrong sector and is non-zero
        pos = tuple(W.rng('ws').randrange(n) if n else 0 for n in a.shape)
        if 0 in a.shape:
            raise Skip()
        e = W.ctx.real(W.ns + 'extra')
        q = sum(sq(l)[i] for l, i in zip(legs, pos))
        allowed = mod_equal(ctx, q, a.qtotal, W.ch)
        bad = ctx.And(ctx.Not(allowed), e != 0)

        def call(a):
            d = np.array(a.to_ndarray())
            d[pos] = d[pos] + e
            return N.Array.from_ndarray(d, legs, dtype=dt, qtotal=np.array(a.qtotal), cutoff=0., labels=la)

        def oracle(da):
            da = np.array(da)
            da[pos] = da[pos] + e
            return da

        return Sc([a], call, oracle, raises=(ValueError, bad), **_same(a))
    # detect_qtotal: a single non-zero entry decides
    if 0 in a.shape:
        raise Skip()
    pos = tuple(W.rng('dq').randrange(n) for n in a.shape)
    e = W.ctx.real(W.ns + 'one', pos=True)
    q = W.ch.make_valid(np.array(sum(sq(l)[i] for l, i in zip(legs, pos))))

    def call(a):
        d = np.zeros(a.shape, dtype=dt)
        d[pos] = e + 1.
        return N.Array.from_ndarray(d, legs, dtype=dt, labels=la)

    def oracle(da):
        d = np.zeros(da.shape, dtype=dt)
        d[pos] = e + 1.
        return d

    return Sc([a], call, oracle, labels=la, qtotal=q, leg_q=[sq(l) for l in legs])


@op('from_ndarray_trivial', labels='given', qtotal='empty')
def b_from_ndarray_trivial(W, v):
    N = W.npc
    d = W.ctx.array(W.ns + 'flat', (2, 3), cplx=W.cplx)
    ch0 = N.ChargeInfo()
    return Sc([], lambda: N.Array.from_ndarray_trivial(d, labels=['a', 'b']), lambda: d, labels=['a', 'b'], ch=ch0)


# ---------------------------------------------------------------- misc
@op('copy', variants=('deep', 'shallow'), chain=True, labels='unchanged', qtotal='unchanged')
def b_copy(W, v):
    a = W.first()
    return Sc([a], lambda a: a.copy(deep=(v == 'deep')), lambda da: da, owns=(v == 'deep'), **_same(a))


@op('astype', chain=True, labels='unchanged', qtotal='unchanged')
def b_astype(W, v):
    a = W.first()
    dt = object if W.ctx.symbolic else complex
    return Sc([a], lambda a: a.astype(dt), lambda da: da, **_same(a))


@op('zeros_like', chain=True, labels='unchanged', qtotal='unchanged')
def b_zeros_like(W, v):
    a = W.first()
    return Sc([a], lambda a: a.zeros_like(), lambda da: np.zeros(da.shape), **_same(a))


@op('isort_qdata', inplace=True, chain=True, labels='unchanged', qtotal='unchanged')
def b_isort_qdata(W, v):
    a = W.first()

    def call(a):
        a.isort_qdata()
        return a

    def post(ctx, res, tag):
        ctx.prove(bool(res._qdata_sorted), f'{tag}: flag set')

    return Sc([a], call, lambda da: da, inplace=True, post=post, **_same(a))


@op('replace_labels', variants=('one', 'many', 'drop', 'set'), chain=True, owns=False, quick=('many', 'drop'), labels='replaced', qtotal='unchanged')
def b_replace_labels(W, v):
    a = W.first()
    la = a.get_leg_labels()
    r = a.rank
    s = _same(a)
    if v == 'one':
        new = ['zz'] + la[1:]
        call = lambda a: a.replace_label(0, 'zz')
    elif v == 'many':
        new = ['zz'] + la[1:-1] + (['yy'] if r > 1 else [])
        call = lambda a: a.replace_labels([0, r - 1][:r], ['zz', 'yy'][:r]) if r > 1 else a.replace_labels([0], ['zz'])
    elif v == 'drop':
        new = [None] * r
        call = lambda a: a.copy(deep=False).idrop_labels()
    else:
        new = [f'n{k}' for k in range(r)]
        call = lambda a: a.copy(deep=False).iset_leg_labels(new)
    s['labels'] = new
    return Sc([a], call, lambda da: da, owns=False, **s)


@op('ipurge_zeros', variants=('zero_cut', 'cutoff'), inplace=True, chain=True, quick=('cutoff', ), labels='unchanged', qtotal='unchanged')
def b_ipurge_zeros(W, v):
    a = W.first()
    ctx = W.ctx
    cut = 0. if v == 'zero_cut' else 0.5
    blocks = [(tuple(slice(int(l.slices[k]), int(l.slices[k + 1])) for l, k in zip(a.legs, qi)), t) for qi, t in zip(a._qdata, a._data)]

    def oracle(da):
        out = np.zeros(da.shape, dtype=da.dtype)
        for sl, t in blocks:
            n2 = sum((abs2(x) for x in t.reshape(-1)), 0.)
            if bool(n2 > cut * cut):  # documented: blocks with norm <= cutoff are removed
                out[sl] = da[sl]
        return out

    return Sc([a], lambda a: a.ipurge_zeros(cut), oracle, inplace=True, **_same(a))


def abs2(x):
    return (x * np.conj(x)).real if not hasattr(x, 'abs2') else x.abs2()


@op('norm', variants=('two', 'inf', 'one'), chain=True, quick=('two', 'inf'), labels='scalar', qtotal='scalar')
def b_norm(W, v):
    N = W.npc
    a = W.first()
    ctx = W.ctx
    if ctx.symbolic and v != 'two' and (W.tier == 'A' or W.cplx or a.size > 3):
        raise Skip()  # abs() of a real entry forks on the sign, of a complex entry needs a sqrt variable: small real tensors only

    def oracle(da):
        flat = list(da.reshape(-1))
        if v == 'two':
            return None
        ab = [abs(x) for x in flat]
        if v == 'one':
            return sum(ab, 0.)
        m = 0.
        for x in ab:
            if bool(x > m):
                m = x
        return m

    def post(ctx, res, tag):
        pass

    sc = Sc([a], lambda a: N.norm(a, {'two': None, 'inf': np.inf, 'one': 1}[v]), oracle, scalar=True)
    if v == 'two':
        sc.norm2 = True
    return sc


# =============================================================================================
# C02: representation invariant, written with own formulas (not via tenpy's test_sanity / is_sorted / is_bunched)
def check_leg(ctx, leg, ch, tag):
    N = Bd.npc()
    sl = leg.slices
    nb = leg.charges.shape[0]
    ok = (sl.ndim == 1 and len(sl) == nb + 1 and int(sl[0]) == 0 and all(int(sl[i]) <= int(sl[i + 1]) for i in range(nb))
          and int(sl[-1]) == leg.ind_len and leg.block_number == nb and leg.charges.ndim == 2 and leg.charges.shape[1] == ch.qnumber
          and leg.qconj in (1, -1))
    ctx.prove(bool(ok), f'{tag}: leg slices / block_number / qconj consistent')
    if not ok:
        return
    ctx.prove(leg.chinfo == ch, f'{tag}: leg has the ChargeInfo of the tensor')
    for j, m in enumerate(ch.mod):
        if int(m) != 1:
            for v in leg.charges[:, j]:
                ctx.prove((v >= 0) & (v < int(m)), f'{tag}: leg charges valid modulo')
    if leg.sorted and nb > 1:
        ctx.prove(Bd.lex_nondecreasing(ctx, leg.charges), f'{tag}: leg.sorted flag truthful')
    if leg.bunched and nb > 1:
        ctx.prove(Bd.rows_differ(ctx, leg.charges), f'{tag}: leg.bunched flag truthful')
    if isinstance(leg, N.LegPipe):
        check_pipe(ctx, leg, ch, tag)


def check_pipe(ctx, pipe, ch, tag):
    """q_map consistent with the incoming legs: every combination of incoming blocks exactly once, sizes are products,
    the rows belonging to one outgoing block tile it contiguously, fused charge of every row == charge of its outgoing block"""
    qm = pipe.q_map
    legs = pipe.legs
    n = len(legs)
    combos = sorted(itertools.product(*[range(l.charges.shape[0]) for l in legs]))
    ok = qm.shape == (len(combos), 3 + n) and sorted(tuple(int(x) for x in row[3:]) for row in qm) == combos
    ctx.prove(bool(ok), f'{tag}: pipe.q_map lists every combination of incoming blocks once')
    if not ok:
        return
    ok = pipe.ind_len == int(np.prod([l.ind_len for l in legs])) and tuple(pipe.subshape) == tuple(l.ind_len for l in legs)
    fill = {}
    prev = -1
    for j, row in enumerate(qm):
        b, e, Q = int(row[0]), int(row[1]), int(row[2])
        size = int(np.prod([int(l.slices[k + 1] - l.slices[k]) for l, k in zip(legs, row[3:])]))
        ok = ok and e - b == size and 0 <= Q < pipe.block_number and Q >= prev and b == fill.get(Q, 0)
        fill[Q] = e
        prev = Q
        fused = sum(l.charges[int(k)] * (l.qconj * pipe.qconj) for l, k in zip(legs, row[3:]))
        if ok:
            ctx.prove(mod_equal(ctx, fused, pipe.charges[Q], ch), f'{tag}: pipe fusion rule for every q_map row')
    for Q in range(pipe.block_number):
        ok = ok and fill.get(Q, 0) == int(pipe.slices[Q + 1] - pipe.slices[Q])
    qs = pipe.q_map_slices
    ok = ok and len(qs) == pipe.block_number + 1 and all(
        all(int(qm[j, 2]) == Q for j in range(int(qs[Q]), int(qs[Q + 1]))) for Q in range(pipe.block_number)) and int(qs[-1]) == len(qm)
    ctx.prove(bool(ok), f'{tag}: pipe.q_map slices / sizes / q_map_slices consistent')


def check_invariants(ctx, A, tag, sanity=True):
    """the representation invariant of C02 for one Array"""
    ch = A.chinfo
    r = len(A.legs)
    ok = r >= 1 and A.rank == r and tuple(A.shape) == tuple(l.ind_len for l in A.legs)
    ctx.prove(bool(ok), f'{tag}: rank / shape match the legs')
    for l in A.legs:
        check_leg(ctx, l, ch, tag)
    n = len(A._data)
    qd = A._qdata
    ok = isinstance(qd, np.ndarray) and qd.shape == (n, r) and qd.dtype == np.intp
    ctx.prove(bool(ok), f'{tag}: _qdata is an intp array of shape (stored_blocks, rank)')
    if not ok:
        return
    ctx.prove(bool(qd.flags['C_CONTIGUOUS']), f'{tag}: _qdata is C-contiguous (storage schema, demanded by test_sanity)')
    ok = all(0 <= int(qd[i, k]) < A.legs[k].block_number for i in range(n) for k in range(r))
    ctx.prove(bool(ok), f'{tag}: _qdata entries are valid block indices')
    if not ok:
        return
    rows = [tuple(int(x) for x in row) for row in qd]
    ctx.prove(len(set(rows)) == n, f'{tag}: at most one stored block per combination of charge blocks')
    if A._qdata_sorted:
        keys = [row[::-1] for row in rows]
        ctx.prove(keys == sorted(keys), f'{tag}: _qdata_sorted flag truthful')
    shape_ok = True
    for row, t in zip(rows, A._data):
        want = tuple(int(l.slices[k + 1] - l.slices[k]) for l, k in zip(A.legs, row))
        shape_ok = shape_ok and isinstance(t, np.ndarray) and t.shape == want and (ctx.symbolic or t.dtype == A.dtype)
    ctx.prove(bool(shape_ok), f'{tag}: block shapes / dtype match the legs')
    # total charge
    qt = A.qtotal
    ok = isinstance(qt, np.ndarray) and qt.shape == (ch.qnumber, )
    ctx.prove(bool(ok), f'{tag}: qtotal has one entry per charge')
    if ok:
        for j, m in enumerate(ch.mod):
            if int(m) != 1:
                ctx.prove((qt[j] >= 0) & (qt[j] < int(m)), f'{tag}: qtotal valid modulo')
        for row in rows:
            q = sum(l.charges[k] * l.qconj for l, k in zip(A.legs, row))
            ctx.prove(mod_equal(ctx, q, qt, ch), f'{tag}: charge rule for every stored block')
    labs = A._labels
    ok = isinstance(labs, list) and len(labs) == r and all(l is None or isinstance(l, str) for l in labs)
    named = [l for l in labs if l is not None] if ok else []
    ctx.prove(bool(ok) and len(set(named)) == len(named), f'{tag}: one (unique or None) label per leg')
    if sanity:
        from tenpy.tools import optimization
        try:
            with optimization.temporary_level(0):
                A.test_sanity()
        except Exception as e:  # noqa
            if type(e).__name__ in ('SymLeak', 'RecursionError'):
                raise
            msg = ''.join(c for c in str(e)[:28] if c.isalpha() or c == ' ').strip()
            ctx.fail(f'{tag}: own test_sanity passes at optimization level 0 ({type(e).__name__} {msg})', str(e)[:160])


# ---------------------------------------------------------------- flag consumers (2-step histories)
def consumers(ctx, W, R, tag, which=('add', 'radd', 'tensordot', 'inner', 'sort_legcharge', 'legsort')):
    """operations that trust the cached claims (_qdata_sorted, leg.sorted, leg.bunched) applied to R;
    the result is compared with numpy on the dense form of R (which does not depend on any flag)"""
    N = W.npc
    dR = np.array(R.to_ndarray())
    r = R.rank
    ch = R.chinfo
    Wz = World(ctx, dict(W.struct, mods=[int(m) for m in ch.mod]), cplx=W.cplx, subset='all' if W.tier == 'A' else 'draw', ns=W.ns + 'z')
    # one consumer per path (symbolic selector): the forks of the consumers add up instead of multiplying
    which = (which[ctx.choice(W.ns + 'consumer', len(which))], )

    def vec_for(leg, name):
        """vector contractible with `leg` whose first non-empty block is allowed (qtotal derived, not a new symbol)"""
        lc = leg.conj()
        q = None
        for b in range(lc.block_number):
            if int(lc.slices[b + 1] - lc.slices[b]) > 0:
                q = ch.make_valid(np.array(lc.charges[b] * lc.qconj))
                break
        return Wz.tensor(name, [lc], labels=['zz'], qtotal=q if q is not None else 'zero')

    def guard(name, f):
        if has_empty_block(R):
            ctx.note('consumer_on_empty_blocks')
        try:
            f()
        except Exception as e:  # noqa
            if type(e).__name__ in ('SymLeak', 'RecursionError'):
                raise
            msg = ''.join(c for c in str(e)[:28] if c.isalpha() or c == ' ').strip()
            ctx.fail(f'{tag} then {name}: unexpected {type(e).__name__} ({msg})', str(e)[:160])

    if 'add' in which or 'radd' in which:
        F = Wz.tensor('f', list(R.legs), labels=R.get_leg_labels(), qtotal=R.qtotal)
        dF = np.array(F.to_ndarray())
        if 'add' in which:
            guard('+', lambda: ctx.prove_eq((R + F).to_ndarray(), dR + dF, f'{tag} then R + F: dense == numpy'))
        if 'radd' in which:
            guard('F +', lambda: ctx.prove_eq((F + R).to_ndarray(), dF + dR, f'{tag} then F + R: dense == numpy'))
    if 'tensordot' in which and r >= 2:
        G = vec_for(R.legs[0], 'g')
        dG = np.array(G.to_ndarray())
        guard('tensordot', lambda: ctx.prove_eq(N.tensordot(G, R, axes=1).to_ndarray(), np.tensordot(dG, dR, axes=1),
                                                f'{tag} then tensordot(G, R): dense == numpy'))
        G2 = vec_for(R.legs[-1], 'h')
        dG2 = np.array(G2.to_ndarray())
        guard('tensordot', lambda: ctx.prove_eq(N.tensordot(R, G2, axes=1).to_ndarray(), np.tensordot(dR, dG2, axes=1),
                                                f'{tag} then tensordot(R, G): dense == numpy'))
    if 'inner' in which:
        H = Wz.tensor('k', [l.conj() for l in R.legs], labels=None, qtotal=ch.make_valid(np.array(-R.qtotal)))
        dH = np.array(H.to_ndarray())
        guard('inner', lambda: ctx.prove_eq(np.asarray(N.inner(R, H, axes='range'), dtype=object if ctx.symbolic else None).reshape(()),
                                            np.asarray(np.sum(dR * dH)).reshape(()), f'{tag} then inner(R, H): value == numpy'))
    if 'sort_legcharge' in which:

        def f():
            perm, S = R.sort_legcharge()
            ctx.prove_eq(S.to_ndarray(), dR[np.ix_(*[np.asarray(p, dtype=np.intp) for p in perm])],
                         f'{tag} then sort_legcharge: dense == permuted operand')
            for l in S.legs:
                ctx.prove(Bd.lex_nondecreasing(ctx, l.charges) & Bd.rows_differ(ctx, l.charges),
                          f'{tag} then sort_legcharge: legs blocked')
            check_invariants(ctx, S, f'{tag} then sort_legcharge', sanity=False)

        guard('sort_legcharge', f)
    if 'legsort' in which:

        def f():
            for l in R.legs:
                if type(l) is not N.LegCharge:
                    continue
                _, ls = l.sort(bunch=False)
                ctx.prove(Bd.lex_nondecreasing(ctx, ls.charges), f'{tag} then LegCharge.sort: sorted')
                _, lb = l.bunch()
                ctx.prove(Bd.rows_differ(ctx, lb.charges), f'{tag} then LegCharge.bunch: bunched')
                ctx.prove(bool(l.is_blocked()) == _distinct(ctx, l.charges), f'{tag} then LegCharge.is_blocked: truthful')

        guard('LegCharge.sort/bunch', f)


def _distinct(ctx, rows):
    rows = [r for r in rows]
    for i in range(len(rows)):
        for j in range(i + 1, len(rows)):
            if all(bool(x == y) for x, y in zip(rows[i], rows[j])):
                return False
    return True


# =============================================================================================
# C03: fingerprints of live objects and writes through a result
def leg_snapshot(l):
    N = Bd.npc()
    s = dict(obj=l, slices=np.array(l.slices), charges=np.array(l.charges), qconj=l.qconj, sorted=l.sorted, bunched=l.bunched,
             ind_len=l.ind_len, block_number=l.block_number, chinfo=l.chinfo, slices_obj=l.slices, charges_obj=l.charges)
    if isinstance(l, N.LegPipe):
        s.update(q_map=np.array(l.q_map), q_map_slices=np.array(l.q_map_slices), sub=tuple(l.legs), subshape=tuple(l.subshape),
                 subqshape=tuple(l.subqshape), perm=None if l._perm is None else np.array(l._perm), strides=np.array(l._strides))
    return s


def collect_legs(arrays, extra=()):
    """every LegCharge / LegPipe reachable from the given arrays and legs (pipes recursively), by identity"""
    N = Bd.npc()
    seen, out = set(), []

    def add(l):
        if id(l) in seen or not isinstance(l, N.LegCharge):
            return
        seen.add(id(l))
        out.append(l)
        if isinstance(l, N.LegPipe):
            for s in l.legs:
                add(s)

    for a in arrays:
        if is_array(a):
            for l in a.legs:
                add(l)
    for l in extra:
        add(l)
    return out


def compare_leg(ctx, snap, tag):
    l = snap['obj']
    ok = (np.array_equal(l.slices, snap['slices']) and l.qconj == snap['qconj'] and l.sorted == snap['sorted'] and l.bunched == snap['bunched']
          and l.ind_len == snap['ind_len'] and l.block_number == snap['block_number'] and l.chinfo is snap['chinfo']
          and l.charges.shape == snap['charges'].shape)
    if 'q_map' in snap:
        ok = (ok and np.array_equal(l.q_map, snap['q_map']) and np.array_equal(l.q_map_slices, snap['q_map_slices'])
              and len(l.legs) == len(snap['sub']) and all(x is y for x, y in zip(l.legs, snap['sub'])) and tuple(l.subshape) == snap['subshape']
              and tuple(l.subqshape) == snap['subqshape'] and np.array_equal(l._strides, snap['strides'])
              and ((l._perm is None) == (snap['perm'] is None)) and (l._perm is None or np.array_equal(l._perm, snap['perm'])))
    ctx.prove(bool(ok), f'{tag}: shared LegCharge objects are not mutated (structure / flags)')
    if ok and l.charges.size:
        ok = ctx.prove_eq(l.charges, snap['charges'], f'{tag}: shared LegCharge objects are not mutated (charges)')
    return bool(ok)


def array_snapshot(a):
    return dict(obj=a, dense=np.array(a.to_ndarray()), qtotal=np.array(a.qtotal), labels=list(a._labels), legs=list(a.legs), shape=tuple(a.shape),
                rank=a.rank, chinfo=a.chinfo, dtype=a.dtype)


def compare_array(ctx, snap, tag):
    a = snap['obj']
    ok = (a._labels == snap['labels'] and len(a.legs) == len(snap['legs']) and all(x is y for x, y in zip(a.legs, snap['legs']))
          and tuple(a.shape) == snap['shape'] and a.rank == snap['rank'] and a.chinfo is snap['chinfo'] and a.dtype == snap['dtype']
          and np.shape(a.qtotal) == snap['qtotal'].shape)
    ctx.prove(bool(ok), f'{tag}: labels / legs / shape / dtype unchanged')
    if not ok:
        return False
    if snap['qtotal'].size:
        ok = ctx.prove_eq(np.asarray(a.qtotal), snap['qtotal'], f'{tag}: qtotal unchanged')
    try:
        now = a.to_ndarray()
    except Exception as e:  # noqa  (block bookkeeping of the object destroyed)
        if type(e).__name__ in ('SymLeak', 'RecursionError'):
            raise
        ctx.fail(f'{tag}: values unchanged (object can no longer be converted to a dense array)', f'{type(e).__name__}: {str(e)[:120]}')
        return False
    return bool(ctx.prove_eq(now, snap['dense'], f'{tag}: values unchanged')) and bool(ok)


def _first_positions(ctx, R, W, want_outside=True):
    """(position inside a stored block, position inside an allowed block that is not stored) or None"""
    stored = {tuple(int(x) for x in row) for row in R._qdata}
    inside = None
    for row, t in zip(R._qdata, R._data):
        if t.size:
            inside = tuple(int(l.slices[k]) for l, k in zip(R.legs, row))
            break
    outside = None
    ch = R.chinfo
    for qi in (itertools.product(*[range(l.block_number) for l in R.legs]) if want_outside else ()):
        if qi in stored or any(int(l.slices[k + 1] - l.slices[k]) == 0 for l, k in zip(R.legs, qi)):
            continue
        q = sum(l.charges[k] * l.qconj for l, k in zip(R.legs, qi))
        if bool(mod_equal(ctx, q, R.qtotal, ch)):
            outside = tuple(int(l.slices[k]) for l, k in zip(R.legs, qi))
            break
    return inside, outside


WRITES = ('setitem_stored', 'setitem_new', 'setitem_slice', 'iscale_prefactor', 'iscale_axis', 'itranspose', 'iswapaxes', 'iconj',
          'labels', 'isort', 'iproject', 'iadd')


NONFORKING_WRITES = ('setitem_stored', 'iscale_prefactor', 'iscale_axis', 'itranspose', 'iswapaxes', 'iconj', 'labels', 'isort', 'iadd')
FORKING_WRITES = ('iproject', 'setitem_new', 'setitem_slice')  # these branch on the (symbolic) charges
# writes that change only the *structure* of the tensor they are called on (block bookkeeping, legs, labels, new blocks) and
# never write into an existing block: they must not affect any other tensor, not even one sharing blocks with it
# (documented shallow copies: copy(deep=False), unary_blockwise, -a, replace_label, gauge_total_charge ...)
STRUCTURAL_WRITES = ('itranspose', 'iswapaxes', 'iconj', 'labels', 'isort', 'iproject', 'setitem_new')


def write_through(ctx, W, R, tag, check, writes=WRITES, groups=4):
    """in-place operations on R; after each one `check(what)` re-compares every other live object.
    A symbolic selector picks either the sequence of writes that do not branch on charges or one of the branching
    writes, so that their forks add up instead of multiplying (groups: how many of the alternatives are explored)."""
    k = ctx.choice(W.ns + 'write', min(groups, 1 + len(FORKING_WRITES)))
    writes = [w for w in writes if w in NONFORKING_WRITES] if k == 0 else [w for w in [FORKING_WRITES[k - 1]] if w in writes]
    inside, outside = (_first_positions(ctx, R, W, want_outside=('setitem_new' in writes)) if (k == 0 or 'setitem_new' in writes) else (None, None))
    r = R.rank

    def idx(p):
        return p if r > 1 else p[0]

    def val(name):  # results with a numeric dtype (eye_like, zeros ...) cannot hold symbols
        return ctx.num(W.ns + name, W.cplx) if (not ctx.symbolic or R.dtype == object) else 7.5

    for w in writes:
        try:
            if w == 'setitem_stored' and inside is not None:
                R[idx(inside)] = val('w1')
            elif w == 'setitem_new' and outside is not None:
                R[idx(outside)] = val('w2')
            elif w == 'setitem_slice' and R.shape[0] > 0:
                part = R[0:1] if r > 1 else None
                if part is None:
                    continue
                R[0:1] = part * 3.
            elif w == 'iscale_prefactor':
                R.iscale_prefactor(2.)
            elif w == 'iscale_axis':
                R.iscale_axis(np.arange(1., R.shape[-1] + 1.), -1)
            elif w == 'itranspose' and r > 1:
                R.itranspose()
            elif w == 'iswapaxes' and r > 1:
                R.iswapaxes(0, r - 1)
            elif w == 'iconj':
                R.iconj()
            elif w == 'labels':
                R.iset_leg_labels([f'w{k}' for k in range(r)])
                R.ireplace_label('w0', 'ww')
            elif w == 'isort':
                R.isort_qdata()
            elif w == 'iproject' and R.shape[0] > 1:
                m = np.ones(R.shape[0], dtype=bool)
                l0 = R.legs[0]
                nz = [b for b in range(l0.block_number) if int(l0.slices[b + 1] - l0.slices[b]) > 0]
                if len(nz) > 1:  # remove a complete charge block (not the last one: the block indices get renumbered)
                    m[int(l0.slices[nz[0]]):int(l0.slices[nz[0] + 1])] = False
                else:
                    m[-1] = False
                R.iproject(m, 0)
            elif w == 'iadd':
                R += R.copy(deep=True)
            else:
                continue
        except Exception as e:  # noqa
            if type(e).__name__ in ('SymLeak', 'RecursionError'):
                raise
            ctx.note('write_raised_' + w)  # failures of the write itself belong to C01 / C02
            continue
        ctx.note('writes_through_result')
        check(f'{tag}, then {w} on the result')


# =============================================================================================
# factorisations: their values are C05's subject (LAPACK contract stubs); here only what C02 / C03 state about every
# operation: invariants and flags of the returned tensors, qtotal rule, operands and shared legs untouched.  Charges are
# symbolic (Tier A), the entries are numbers so that LAPACK runs for real.
@op('qr', variants=('reduced', 'complete', 'qtotal_Q', 'complete_qconj', 'lq_qtotal'), quick=('qtotal_Q', 'complete_qconj'), props=('C02', 'C03'),
    labels='(a0, inner_Q), (inner_R, a1)', qtotal='Q: qtotal_Q (default 0); R: a.qtotal - Q.qtotal')
def b_qr(W, v):
    N = W.npc
    ch = W.ch
    a = W.tensor('a', [W.leg(0), W.leg(1)], labels=['a', 'b'], concrete=True)
    kw = dict(inner_labels=['q', 'r'])
    qQ = ch.make_valid(None)
    if v in ('qtotal_Q', 'lq_qtotal'):
        qQ = Bd.qvec(W.ctx, W.ns + 'qQ', ch) if W.tier == 'A' else ch.make_valid(np.array(W.draw_charges('qQ', 1)[0]))
        kw['qtotal_Q'] = np.array(qQ)
    if v in ('complete', 'complete_qconj'):
        kw['mode'] = 'complete'
    if v == 'complete_qconj':
        kw['inner_qconj'] = -a.legs[0].qconj
    if v == 'lq_qtotal':
        sc = Sc([a], lambda a: N.lq(a, **kw), None)
        sc.results = lambda res: [res[0], res[1]]
        sc.get = lambda res: res[1]
        sc.qtotals = lambda res: [(res[1], qQ), (res[0], a.qtotal - qQ)]
        return sc
    sc = Sc([a], lambda a: N.qr(a, **kw), None)
    sc.results = lambda res: [res[0], res[1]]
    sc.get = lambda res: res[0]
    sc.qtotals = lambda res: [(res[0], qQ), (res[1], a.qtotal - qQ)]
    return sc


@op('svd', variants=('default', 'qtotal_LR', 'inner_qconj'), quick=('qtotal_LR', ), props=('C02', 'C03'),
    labels='(a0, inner), (inner, a1)', qtotal='U, VH: qtotal_LR (default 0, a.qtotal)')
def b_svd(W, v):
    N = W.npc
    ch = W.ch
    a = W.tensor('a', [W.leg(0), W.leg(1)], labels=['a', 'b'], concrete=True)
    kw = dict(inner_labels=['u', 'v'])
    qL = ch.make_valid(None)  # documented default: [None, None] is equivalent to [None, a.qtotal], i.e. U.qtotal = 0
    if v == 'qtotal_LR':
        qL = Bd.qvec(W.ctx, W.ns + 'qL', ch) if W.tier == 'A' else ch.make_valid(np.array(W.draw_charges('qL', 1)[0]))
        kw['qtotal_LR'] = [np.array(qL), ch.make_valid(np.array(a.qtotal - qL))]
    if v == 'inner_qconj':
        kw['inner_qconj'] = -1
    # documented: RuntimeError('SVD found no singular values') for a tensor without entries
    sc = Sc([a], lambda a: N.svd(a, **kw), None, raises=(RuntimeError, not any(t.size for t in a._data)))
    sc.results = lambda res: [res[0], res[2]]
    sc.get = lambda res: res[0]
    sc.qtotals = lambda res: [(res[0], qL), (res[2], a.qtotal - qL)]
    return sc
