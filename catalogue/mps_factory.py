"""MPS factory shared by C07 / C08 / C09: an MPS whose tensors hold SYMBOLIC complex entries and whose
singular values are positive symbolic reals, plus the dense (numpy) oracles on those symbols.

The same functions serve both modes: in symbolic mode entries are canonical polynomials (dtype=object), in
concrete mode complex128 numbers taken from the solver model.

State preparation (DESIGN 3 "constructing the state directly"): a base MPS is built by the real constructor
``MPS.from_product_state`` (which runs from_Bflat / __init__ / test_sanity concretely), then every tensor is replaced
through ``psi.set_B`` by a tensor with hand-built virtual legs (non-uniform bond dimensions, several charge
sectors per bond, repeated charges) whose stored blocks are symbols, and ``psi._S`` by positive symbols
(the constructor casts S to float64, hence afterwards).  ``psi.test_sanity()`` is run on the result.

Conventions of the oracle side: dense tensors have index order (vL, p, vR).  For a stored tensor T_i with form
(nuL, nuR) the harness computes  B_i = S_i^{-nuL} T_i S_{i+1}^{1-nuR}  (right-canonical *form*, not assumed
isometric) with its own scaling; the state on a window [i..j] is Theta = S_i B_i ... B_j with both virtual legs
open.  For finite b.c. S_0 = S_L = [1].
"""
import itertools

import numpy as np

from catalogue import build as Bd

FORMS = {'A': (1., 0.), 'B': (0., 1.), 'C': (0.5, 0.5), 'G': (0., 0.), 'Th': (1., 1.)}


# --------------------------------------------------------------------------------------------------
# sites
def make_sites(kind, L):
    """list of L sites.  kinds: spin, spinSz, ferm, fermN, fermP, shf, shfNSz, spin+ferm"""
    from tenpy.networks import site as S
    if kind == 'spin':
        s = S.SpinHalfSite(conserve=None)
        return [s] * L
    if kind == 'spinSz':
        s = S.SpinHalfSite(conserve='Sz')
        return [s] * L
    if kind == 'spinP':
        s = S.SpinHalfSite(conserve='parity')
        return [s] * L
    if kind == 'ferm':
        s = S.FermionSite(conserve=None)
        return [s] * L
    if kind == 'fermN':
        s = S.FermionSite(conserve='N')
        return [s] * L
    if kind == 'fermP':
        s = S.FermionSite(conserve='parity')
        return [s] * L
    if kind == 'shf':
        s = S.SpinHalfFermionSite(cons_N=None, cons_Sz=None)
        return [s] * L
    if kind == 'shfNSz':
        s = S.SpinHalfFermionSite(cons_N='N', cons_Sz='Sz')
        return [s] * L
    if kind == 'spin+ferm':
        a = S.SpinHalfSite(conserve=None)
        b = S.FermionSite(conserve=None)
        return [(a, b)[i % 2] for i in range(L)]
    raise ValueError(kind)


def is_fermionic(kind):
    return kind in ('ferm', 'fermN', 'fermP', 'shf', 'shfNSz')


# --------------------------------------------------------------------------------------------------
# virtual legs (deterministic, hand-built: no dependence on LAPACK / numpy version, so that the symbolic run and
# the concrete replay see literally the same block structure)
def _tup(q):
    return tuple(int(x) for x in np.asarray(q).reshape(-1))


def _pcharges(site):
    return [_tup(q) for q in site.leg.to_qflat()]


def _add(ci, a, b, sign=1):
    return _tup(ci.make_valid(np.asarray(a) + sign * np.asarray(b)))


def _pick(cands, n, variant=0):
    """n charges from the candidate multiset.  variant 0: distinct central charges (cyclically repeated if there
    are too few); variant 1: charges in the order of how often they are reachable, each as often as it is reachable
    (repeated charges = blocks larger than 1x1)"""
    cands = list(cands)
    dist = sorted(set(cands))
    m = len(dist)
    if variant == 1:
        mid = dist[(m - 1) // 2]
        order = sorted(dist, key=lambda c: (-cands.count(c), sum(abs(x - y) for x, y in zip(c, mid)), c))
        seq = [c for c in order for _ in range(cands.count(c))]
        return sorted(seq[k % len(seq)] for k in range(n))
    if n <= m:
        start = (m - n) // 2
        return sorted(dist[start:start + n])
    return sorted(dist[k % m] for k in range(n))


def bond_charges(sites, chis, bc, variant=0):
    """list of L+1 lists of charge tuples (one per virtual index), and the list of qtotal per tensor"""
    ci = sites[0].leg.chinfo
    L = len(sites)
    zero = _tup(ci.make_valid(None))
    P = [_pcharges(s) for s in sites]
    qtot = [zero] * L
    if ci.qnumber == 0:
        return [[zero] * chis[k] for k in range(L + 1)], qtot
    # reference path: alternating basis states
    path = [P[i][(i + variant) % len(P[i])] for i in range(L)]
    Q = zero
    for p in path:
        Q = _add(ci, Q, p)
    # right reachability for finite b.c.
    reach = [None] * (L + 1)
    if bc == 'finite':
        reach[L] = {Q}
        for k in range(L - 1, -1, -1):
            reach[k] = {_add(ci, q, p, -1) for q in reach[k + 1] for p in P[k]}
    if bc == 'finite':
        chosen = [[zero]]
    else:
        start = [zero] + list(P[0]) + [_add(ci, zero, p, -1) for p in P[0]]
        if variant == 1 and len({c for c in start if c != zero}) >= chis[0]:
            start = [c for c in start if c != zero]
        chosen = [_pick(start, chis[0], 0)]
    for k in range(1, L + 1):
        if bc == 'infinite' and k == L:
            chosen.append(list(chosen[0]))
            break
        cand = [_add(ci, q, p) for q in chosen[k - 1] for p in P[k - 1]]
        if reach[k] is not None:
            cand = [c for c in cand if c in reach[k]]
        chosen.append(_pick(cand, chis[k], variant))
    if bc == 'infinite':
        # the last tensor may need a total charge so that its right leg matches the first left leg
        best = None
        cands_q = {_add(ci, _add(ci, a, p), b, -1) for a in chosen[L - 1] for p in P[L - 1] for b in chosen[0]}
        for qt in sorted(cands_q, key=lambda t: (sum(abs(x) for x in t), t)):
            n = sum(1 for a in chosen[L - 1] for p in P[L - 1] for b in chosen[0] if _add(ci, _add(ci, a, p), b, -1) == qt)
            if best is None or n > best[0]:
                best = (n, qt)
        qtot = list(qtot)
        qtot[L - 1] = best[1]
    return chosen, qtot


def virtual_legs(sites, chis, bc, variant=0):
    npc = Bd.npc()
    ci = sites[0].leg.chinfo
    chosen, qtot = bond_charges(sites, chis, bc, variant)
    legs = []
    for k, qs in enumerate(chosen):
        if ci.qnumber == 0:
            leg = npc.LegCharge.from_trivial(len(qs), ci, qconj=1)
        else:
            leg = npc.LegCharge.from_qflat(ci, np.array(qs, dtype=np.int64).reshape(len(qs), ci.qnumber), qconj=1)
            leg = leg.bunch()[1]
        legs.append(leg)
    if bc == 'infinite':
        legs[-1] = legs[0]
    return legs, qtot


# --------------------------------------------------------------------------------------------------
class SymMPS:
    """the real MPS `psi` plus everything the oracle needs (dense stored tensors, forms, S, t = sqrt(S))"""

    def __init__(self):
        self.psi = None

    # -- oracle side: own scaling S^x (x multiple of 1/2 needs t)
    def Spow(self, k, x):
        """diag entries S_k ** x as 1D array (harness's own arithmetic)"""
        k = self.bond(k)
        S = self.S[k]
        if x == 0:
            return np.ones(len(S), dtype=S.dtype if not self.symbolic else object) * 1
        two_x = int(round(2 * x))
        assert abs(two_x - 2 * x) < 1e-12
        if two_x % 2 == 0:
            base, e = S, two_x // 2
        else:
            assert self.t is not None, "half-integer powers of S need S = t*t"
            base, e = self.t[k], two_x
        out = np.empty(len(S), dtype=base.dtype)
        for a in range(len(S)):
            v = base[a]
            r = 1
            for _ in range(abs(e)):
                r = r * v
            out[a] = r if e >= 0 else 1 / r
        return out

    def site(self, i):
        return i % self.L if self.bc == 'infinite' else i

    def bond(self, k):
        return k % self.L if self.bc == 'infinite' else k

    def Tdense(self, i):
        """stored tensor of site i as dense (vL, p, vR)"""
        return self.Td[self.site(i)]

    def form_tensor(self, i, nuL, nuR):
        """S_i^{nuL} Gamma_i S_{i+1}^{nuR} computed by the harness from the stored tensor and its stored form"""
        f = self.forms[self.site(i)]
        T = self.Tdense(i)
        sl = self.Spow(i, nuL - f[0])
        sr = self.Spow(i + 1, nuR - f[1])
        return T * sl[:, None, None] * sr[None, None, :]

    def B(self, i):
        return self.form_tensor(i, 0., 1.)

    def theta(self, i, j):
        """window state S_i B_i ... B_j, index order (vL, p_i, ..., p_j, vR)"""
        th = self.form_tensor(i, 1., 1.)
        for k in range(i + 1, j + 1):
            th = np.tensordot(th, self.B(k), axes=(th.ndim - 1, 0))
        return th

    def full_state(self):
        """finite / segment: B_0 ... B_{L-1} with S_0 in front (S_0 = 1 for finite)"""
        return self.theta(0, self.L - 1)

    def dims(self, i, j):
        return [self.sites[self.site(k)].dim for k in range(i, j + 1)]


def build(ctx, name, kind, L, chis, bc='finite', forms='B', cplx=True, sqrt_S=False, variant=0, S_symbolic=True,
          legs=None):
    """MPS with symbolic tensors.  chis: L+1 bond dimensions (finite: chis[0]=chis[L]=1; infinite: chis[L]=chis[0]).

    forms: one label or a list of labels / tuples (stored form per site)."""
    from tenpy.networks.mps import MPS
    sites = make_sites(kind, L)
    chis = list(chis)
    assert len(chis) == L + 1
    if bc == 'finite':
        assert chis[0] == chis[-1] == 1
    if bc == 'infinite':
        assert chis[0] == chis[-1]
    if legs is None:
        legs, qtot = virtual_legs(sites, chis, bc, variant)
    else:
        legs, qtot = legs
    if isinstance(forms, (str, tuple)) or forms is None:
        forms = [forms] * L
    forms_t = [FORMS[f] if isinstance(f, str) else f for f in forms]
    # base MPS from the real constructor (product state along some basis path)
    base_states = [0] * L
    if sites[0].leg.chinfo.qnumber > 0 and bc == 'infinite':
        # for an infinite product state the charges must close; use a path with vanishing total charge if there is one
        base_states = _neutral_path(sites)
    psi = MPS.from_product_state(sites, base_states, bc=bc, dtype=complex if cplx else float, unit_cell_width=L, permute=False)
    Ts = []
    for i in range(L):
        T = Bd.tensor(ctx, f'{name}{i}_', [legs[i], sites[i].leg, legs[i + 1].conj()], np.array(qtot[i], dtype=np.int64)
                      if len(qtot[i]) else None, cplx=cplx, labels=['vL', 'p', 'vR'])
        Ts.append(T)
    for i in range(L):
        psi.set_B(i, Ts[i], form=forms_t[i])
    # singular values
    nb = L + 1 if bc != 'infinite' else L
    S = [None] * nb
    t = [None] * nb if sqrt_S else None
    for k in range(nb):
        if bc == 'finite' and k in (0, L):
            S[k] = np.ones(1)
            if sqrt_S:
                t[k] = np.ones(1)
            continue
        if not S_symbolic:
            S[k] = np.ones(chis[k])
            if sqrt_S:
                t[k] = np.ones(chis[k])
            continue
        if sqrt_S:
            t[k] = ctx.array(f'{name}t{k}', (chis[k], ), pos=True)
            S[k] = t[k] * t[k]
        else:
            S[k] = ctx.array(f'{name}S{k}', (chis[k], ), pos=True)
    psi._S = list(S)
    if ctx.symbolic:
        psi.dtype = np.dtype(object)
    psi.test_sanity()
    out = SymMPS()
    out.psi = psi
    out.sites = sites
    out.kind = kind
    out.L = L
    out.bc = bc
    out.chis = chis
    out.forms = forms_t
    out.T = Ts
    out.Td = [T.to_ndarray() for T in Ts]
    out.S = S
    out.t = t
    out.symbolic = ctx.symbolic
    out.legs = legs
    out.qtot = qtot
    nblocks = sum(T.stored_blocks for T in Ts)
    ctx.note('stored_blocks', nblocks)
    ctx.note('tensor_entries', sum(int(b.size) for T in Ts for b in T._data))
    return out


def _neutral_path(sites):
    ci = sites[0].leg.chinfo
    zero = _tup(ci.make_valid(None))
    P = [_pcharges(s) for s in sites]
    for st in itertools.product(*[range(len(p)) for p in P]):
        q = zero
        for i, s in enumerate(st):
            q = _add(ci, q, P[i][s])
        if q == zero:
            return list(st)
    return [0] * len(sites)


def same_structure(ctx, name, ref, cplx=True, forms=None, sqrt_S=False):
    """a second MPS (independent symbols) with the same sites / legs as `ref` (bra != ket)"""
    return build(ctx, name, ref.kind, ref.L, ref.chis, ref.bc, forms if forms is not None else ref.forms, cplx, sqrt_S,
                 legs=(ref.legs, ref.qtot))


# --------------------------------------------------------------------------------------------------
# dense operators (oracle side)
def op_matrix(site, name):
    """dense matrix of a (possibly composite, space separated) operator name: product of the single operators'
    matrices, built from the elementary operators of the site (independent of Site.multiply_operators)"""
    m = None
    for nm in name.split(' '):
        x = getattr(site, nm).to_ndarray() if nm != 'Id' else np.eye(site.dim)
        m = x if m is None else m @ x
    return m


def needs_JW(site, name):
    """number of JW-carrying elementary factors is odd"""
    return sum(1 for nm in name.split(' ') if nm in site.need_JW_string) % 2 == 1


def kron_all(mats):
    out = np.eye(1)
    for m in mats:
        out = np.kron(out, m)
    return out


def term_operator(sm, term, i0, i1, autoJW=True):
    """dense operator on the window [i0..i1] of the ordered product  op_0(i_0) op_1(i_1) ...  (left-most factor is
    applied last); fermionic factors carry the harness's own Jordan-Wigner string prod_{i0<=k<i} JW_k.
    Returns (matrix, parity) with parity = number of JW-carrying factors mod 2 (1: the string would leave the window)"""
    sites = [sm.sites[sm.site(k)] for k in range(i0, i1 + 1)]
    D = int(np.prod([s.dim for s in sites]))
    M = np.eye(D)
    par = 0
    for name, i in term:
        mats = []
        jw = autoJW and needs_JW(sites[i - i0], name)
        for k, s in enumerate(sites):
            if k < i - i0:
                mats.append(op_matrix(s, 'JW') if jw else np.eye(s.dim))
            elif k == i - i0:
                mats.append(op_matrix(s, name))
            else:
                mats.append(np.eye(s.dim))
        if jw:
            par += 1
        M = M @ kron_all(mats)
    return M, par % 2


def product_operator(sm, names, i0):
    sites = [sm.sites[sm.site(i0 + k)] for k in range(len(names))]
    return kron_all([op_matrix(s, n) for s, n in zip(sites, names)])


def expect(th_bra, M, th_ket):
    """sum_{a,b,s,s'} conj(th_bra[a,s',b]) M[s',s] th_ket[a,s,b]  (theta with index order (vL, p..., vR))"""
    a, b = th_ket.shape[0], th_ket.shape[-1]
    D = int(np.prod(th_ket.shape[1:-1]))
    K = th_ket.reshape(a, D, b)
    Br = th_bra.reshape(a, D, b)
    MK = np.tensordot(M, K, axes=(1, 1))  # (D, a, b)
    return np.sum(np.conj(Br).transpose(1, 0, 2) * MK)


def overlap_dense(psi_bra, psi_ket):
    """sum conj(bra) * ket over all indices (arrays of equal shape)"""
    return np.sum(np.conj(psi_bra) * psi_ket)
