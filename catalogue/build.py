"""Mode-agnostic builders: legs with (symbolic) charges and tensors with (symbolic) entries.

In symbolic mode charges are z3 integers (``charges.QTYPE = object``) and entries canonical
polynomials; in concrete mode the same functions build ordinary int64 / float64 / complex128 data
from the solver model, so that one harness serves exploration and replay.
"""
import itertools

import numpy as np


def npc():
    import tenpy.linalg.np_conserved as m
    return m


def setup_symbolic_tierA():
    from symx import stubs
    stubs.install_blas()
    stubs.install_symbolic_charges()


def setup_symbolic_tierB():
    from symx import stubs
    stubs.install_blas()


def chinfo(mods):
    return npc().ChargeInfo(list(mods))


def charges(ctx, name, nblocks, ch, window=None):
    """(nblocks, qnumber) array of symbolic charge values, valid for `ch` (Z_N charges in [0,N))"""
    a = ctx.int_array(name, (nblocks, ch.qnumber))
    for j, m in enumerate(ch.mod):
        for i in range(nblocks):
            if m != 1:
                ctx.assume((a[i, j] >= 0) & (a[i, j] < int(m)) if ctx.symbolic else (0 <= a[i, j] < int(m)))
            elif window is not None:
                ctx.assume((a[i, j] >= -window) & (a[i, j] <= window) if ctx.symbolic else (-window <= a[i, j] <= window))
    return a


def qvec(ctx, name, ch):
    """symbolic total charge (already valid)"""
    a = ctx.int_array(name, (1, ch.qnumber))[0]
    for j, m in enumerate(ch.mod):
        if m != 1:
            ctx.assume((a[j] >= 0) & (a[j] < int(m)) if ctx.symbolic else (0 <= a[j] < int(m)))
    return a


def leg(ctx, name, sizes, ch, qconj, tier='A', concrete_charges=None):
    """LegCharge with block sizes `sizes`; Tier A: symbolic charges, Tier B: `concrete_charges`"""
    slices = np.concatenate([[0], np.cumsum(sizes)]).astype(np.intp)
    if tier == 'A':
        q = charges(ctx, name, len(sizes), ch)
    else:
        q = np.array(concrete_charges, dtype=np.int64).reshape(len(sizes), ch.qnumber)
    return npc().LegCharge.from_qind(ch, slices, q, qconj)


def eq_all(ctx, a, b):
    """all entries equal (forks in symbolic mode)"""
    a = np.asarray(a)
    b = np.asarray(b)
    for x, y in zip(a.reshape(-1), b.reshape(-1)):
        if not bool(x == y):
            return False
    return True


def block_allowed(ctx, legs, qi, qtotal, ch):
    q = np.sum([l.get_charge(k) for l, k in zip(legs, qi)], axis=0)
    q = ch.make_valid(q)
    return eq_all(ctx, q, qtotal)


def tensor(ctx, name, legs, qtotal=None, cplx=False, labels=None, subset='all', dtype=None):
    """npc.Array whose allowed blocks hold symbolic entries.

    subset: 'all' -> every allowed block is stored; 'choose' -> a symbolic flag per allowed block decides
    whether it is stored (missing blocks = zeros)."""
    N = npc()
    ch = legs[0].chinfo
    if qtotal is None:
        qtotal = ch.make_valid(None)
    if ctx.symbolic:
        dt = object
    else:
        dt = dtype or (complex if cplx else float)
    A = N.Array(legs, dtype=dt, qtotal=qtotal, labels=labels)
    data, qd = [], []
    for qi in A._iter_all_blocks():
        if not block_allowed(ctx, legs, qi, A.qtotal, ch):
            continue
        tag = name + ''.join(map(str, qi))
        if subset == 'choose' and not ctx.flag('st_' + tag):
            continue
        shape = tuple(int(l.slices[k + 1] - l.slices[k]) for l, k in zip(legs, qi))
        blk = ctx.array(tag, shape, cplx=cplx)
        if not ctx.symbolic and dtype is not None:
            blk = blk.astype(dtype)
        data.append(blk)
        qd.append(qi)
    A._data = data
    A._qdata = np.array(qd, dtype=np.intp).reshape(len(qd), A.rank)
    A._qdata_sorted = True  # _iter_all_blocks yields lexicographic order (last leg most significant)
    if len(qd) > 1:
        perm = np.lexsort(A._qdata.T)
        A._qdata = np.ascontiguousarray(A._qdata[perm])
        A._data = [A._data[p] for p in perm]
    return A


def dense(a):
    """dense form (object array in symbolic mode)"""
    return a.to_ndarray()


def qflat(legc):
    return legc.to_qflat()


def lex_nondecreasing(ctx, rows):
    """formula/boolean: rows (2D) are lexicographically non-decreasing (independent of tenpy's is_sorted;
    numpy lexsort convention: last column is the primary key)"""
    ok = True
    for a, b in zip(rows[:-1], rows[1:]):
        ok = ok & _lex_le(ctx, a[::-1], b[::-1])
    return ok


def _lex_le(ctx, a, b):
    if len(a) == 0:
        return True
    res = (a[-1] <= b[-1])
    for x, y in zip(a[-2::-1], b[-2::-1]):
        res = (x < y) | ((x == y) & res)
    return res


def rows_differ(ctx, rows):
    ok = True
    for a, b in zip(rows[:-1], rows[1:]):
        d = False
        for x, y in zip(a, b):
            d = d | (x != y)
        ok = ok & d
    return ok


def valid_mod(ctx, x, ch):
    """x is a valid charge vector difference == 0 modulo ch.mod"""
    x = ch.make_valid(np.array(x, dtype=object if ctx.symbolic else np.int64))
    ok = True
    for v in x.reshape(-1):
        ok = ok & (v == 0)
    return ok
