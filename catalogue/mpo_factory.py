"""Mode-agnostic factories for C11 / C12: MPS and MPO with symbolic tensors, dense oracles written
in plain numpy on the same symbols, and the harness's OWN operator tables / Jordan-Wigner construction.

Everything that is compared against tenpy is computed here from the *inputs* the harness created
(the dense arrays handed out by the builders), never by reading the objects back after tenpy touched them.
Axis conventions:   MPS tensors (vL, p, vR);   MPO tensors (wL, wR, p, p*);   dense operators O[row=p, col=p*].
"""
import itertools

import numpy as np

from catalogue import build as Bd


def npc():
    import tenpy.linalg.np_conserved as m
    return m


# ---------------------------------------------------------------------------------------------
# sites and the harness's own operator tables
def make_site(kind, conserve=None, sort_charge=None):
    from tenpy.networks import site as S
    kw = {} if sort_charge is None else {'sort_charge': sort_charge}
    if kind == 'spin':
        return S.SpinHalfSite(conserve=conserve, **kw)
    if kind == 'fermion':
        return S.FermionSite(conserve=conserve, **kw)
    if kind == 'fermion_renamed':
        # the same fermions under other names: rename_op for C, Cd and add_op(..., need_JW=True) for a second pair of names
        st = S.FermionSite(conserve=conserve, **kw)
        c, cd = st.get_op('C').copy(), st.get_op('Cd').copy()
        st.rename_op('C', 'A')
        st.rename_op('Cd', 'Ad')
        st.add_op('X', c, need_JW=True, hc='Xd')
        st.add_op('Xd', cd, need_JW=True, hc='X')
        st._verif_alias = {'A': 'C', 'Ad': 'Cd', 'X': 'C', 'Xd': 'Cd'}  # harness bookkeeping: new name -> own operator
        st._verif_removed = ['C', 'Cd']
        return st
    if kind == 'spinful':
        cons_N, cons_Sz = (conserve if isinstance(conserve, (list, tuple)) else (conserve, conserve))
        return S.SpinHalfFermionSite(cons_N=cons_N, cons_Sz=cons_Sz)
    raise ValueError(kind)


def own_ops(site):
    """the harness's own definition of the local operators, placed by the *state labels* of `site`
    (the only thing taken from tenpy is which basis index carries which label); O[row, col] = <row|O|col>"""
    d = site.dim
    lab = site.state_labels

    def ket_bra(a, b, val=1.):
        m = np.zeros((d, d))
        m[lab[a], lab[b]] = val
        return m

    ops = {'Id': np.eye(d)}
    name = type(site).__name__
    if name == 'SpinHalfSite':
        ops['Sp'] = ket_bra('up', 'down')
        ops['Sm'] = ket_bra('down', 'up')
        ops['Sz'] = ket_bra('up', 'up', 0.5) + ket_bra('down', 'down', -0.5)
        ops['Sx'] = 0.5 * (ops['Sp'] + ops['Sm'])
        ops['Sy'] = -0.5j * (ops['Sp'] - ops['Sm'])
        ops['Sigmaz'] = 2. * ops['Sz']
        ops['Sigmax'] = 2. * ops['Sx']
        ops['JW'] = np.eye(d)
        fermionic = {'JW'}  # member of need_JW_string on every site (here the identity matrix)
    elif name == 'FermionSite':
        ops['C'] = ket_bra('empty', 'full')
        ops['Cd'] = ket_bra('full', 'empty')
        ops['N'] = ket_bra('full', 'full')
        ops['JW'] = ket_bra('empty', 'empty') + ket_bra('full', 'full', -1.)
        ops['dN'] = ops['N'] - site.filling * np.eye(d)
        # documented reading of Site.need_JW_string: the operator named X on site i of a term stands for (prod_{k<i} JW_k) X_i;
        # 'JW' itself is a member of need_JW_string for every site
        fermionic = {'C', 'Cd', 'JW'}
    elif name == 'SpinHalfFermionSite':
        # local order of the two species: up before down,  c_d = (-1)^{n_u} C_d
        occ = {'empty': (0, 0), 'up': (1, 0), 'down': (0, 1), 'full': (1, 1)}
        inv = {v: k for k, v in occ.items()}
        Cu = np.zeros((d, d))
        Cd_ = np.zeros((d, d))
        for (nu, nd), l in inv.items():
            if nu == 1:
                Cu[lab[inv[(0, nd)]], lab[l]] = 1.
            if nd == 1:
                Cd_[lab[inv[(nu, 0)]], lab[l]] = (-1.)**nu
        ops['Cu'], ops['Cd'] = Cu, Cd_
        ops['Cdu'], ops['Cdd'] = Cu.T.copy(), Cd_.T.copy()
        ops['Nu'] = ops['Cdu'] @ Cu
        ops['Nd'] = ops['Cdd'] @ Cd_
        ops['Ntot'] = ops['Nu'] + ops['Nd']
        ops['NuNd'] = ops['Nu'] @ ops['Nd']
        ops['JW'] = np.diag([(-1.)**sum(occ[k]) for k in sorted(lab, key=lambda k: lab[k]) if k in occ])
        ops['JWu'] = np.diag([(-1.)**occ[k][0] for k in sorted(lab, key=lambda k: lab[k]) if k in occ])
        ops['JWd'] = np.diag([(-1.)**occ[k][1] for k in sorted(lab, key=lambda k: lab[k]) if k in occ])
        fermionic = {'Cu', 'Cd', 'Cdu', 'Cdd', 'JW', 'JWu', 'JWd'}
    elif name == 'GroupedSite':
        # own construction from the fine sites: operator X on fine site m of the group is  JW x ... x JW x X x Id x ... (fermionic X)
        subs = [own_ops(x) for x in site.sites]
        dims = [x.dim for x in site.sites]
        # permutation fine kron index -> grouped basis index, read from the state labels of the grouped site
        perm = np.zeros(d, dtype=int)
        for combo in itertools.product(*[sorted(x.state_labels.items(), key=lambda kv: kv[1]) for x in site.sites]):
            names = [k for k, _ in combo]
            idxs = [v for _, v in combo]
            fine = 0
            for i_, d_ in zip(idxs, dims):
                fine = fine * d_ + i_
            label = ' '.join(f'{nm}_{lb}' for nm, lb in zip(names, site.labels))
            perm[fine] = site.state_labels[label]
        # (aliases of a state label give the same assignment twice)
        P = np.zeros((d, d))
        P[perm, np.arange(d)] = 1.
        fermionic = set()
        for m, (sub, ferm) in enumerate(subs):
            for nm, mat in sub.items():
                if nm == 'Id':
                    continue
                mats = [(subs[k][0]['JW'] if (k < m and nm in ferm) else np.eye(dims[k])) for k in range(len(subs))]
                mats[m] = mat
                ops[nm + site.labels[m]] = P @ kron_all(mats) @ P.T
                if nm in ferm:
                    fermionic.add(nm + site.labels[m])
        ops['JW'] = P @ kron_all([sub[0]['JW'] for sub in subs]) @ P.T
        fermionic.add('JW')
    else:
        raise ValueError(name)
    alias = getattr(site, '_verif_alias', None)
    if alias:
        for new, old in alias.items():
            ops[new] = ops[old]
            if old in fermionic:
                fermionic.add(new)
        for old in getattr(site, '_verif_removed', []):
            ops.pop(old, None)
            fermionic.discard(old)
    return ops, fermionic


def kron_all(mats):
    r = np.ones((1, 1))
    for m in mats:
        r = np.kron(r, m)
    return r


def own_site_op(sites, i, opname, tables=None):
    """dense many-body operator of the *physical* operator `opname` on site i: fermionic operators carry
    the harness's own Jordan-Wigner string  c_i = (prod_{k<i} JW_k) C_i"""
    L = len(sites)
    tables = tables or [own_ops(s) for s in sites]
    ops, ferm = tables[i]
    mats = []
    for k in range(L):
        if k < i and opname in ferm:
            mats.append(tables[k][0]['JW'])
        elif k == i:
            mats.append(ops[opname])
        else:
            mats.append(tables[k][0]['Id'])
    return kron_all(mats)


def own_term_dense(sites, term, tables=None):
    """product, *in the order written*, of the operators of `term` = [(opname, i), ...]; space-separated
    names 'A B' on one site mean the matrix product A.B of the (physical) operators"""
    tables = tables or [own_ops(s) for s in sites]
    D = int(np.prod([s.dim for s in sites]))
    res = np.eye(D)
    for opname, i in term:
        for nm in opname.split(' '):
            res = res @ own_site_op(sites, i, nm, tables)
    return res


# ---------------------------------------------------------------------------------------------
# legs
def vleg(chinfo, spec, qconj):
    """virtual leg: `spec` = dimension (all charges 0) or list of charge values / tuples per index"""
    N = npc()
    if isinstance(spec, (int, np.integer)):
        q = np.zeros((int(spec), chinfo.qnumber), dtype=np.int64)
    else:
        q = np.array(spec, dtype=np.int64).reshape(len(spec), chinfo.qnumber)
    return N.LegCharge.from_qflat(chinfo, q, qconj)


def _flag(x, i):
    return bool(x[i]) if isinstance(x, (list, tuple)) else bool(x)


# ---------------------------------------------------------------------------------------------
# MPS with symbolic tensors
class SymMPS:
    """psi: the tenpy MPS;  T[i]: dense stored tensors (vL, p, vR) as created;  S[i]: Schmidt values on bond i;
    forms[i] = (nuL, nuR)"""

    def __init__(self, psi, T, S, forms):
        self.psi, self.T, self.S, self.forms = psi, T, S, forms

    def gamma_form(self, i, nuL, nuR):
        """own form conversion of the stored tensor i to (nuL, nuR)"""
        fL, fR = self.forms[i]
        t = self.T[i]
        t = t * _pw(self.S[i], nuL - fL)[:, None, None]
        t = t * _pw(self.S[i + 1], nuR - fR)[None, None, :]
        return t

    def dense(self):
        """state vector psi[p0, p1, ..., p_{L-1}] = S_0 G_0 S_1 G_1 ... S_L  (norm attribute not included)"""
        L = len(self.T)
        cur = None
        for i in range(L):
            t = self.gamma_form(i, 1., 0.)  # 'A' form
            if cur is None:
                cur = t.sum(axis=0) if t.shape[0] == 1 else t  # vL of dimension 1 for finite bc
                if t.shape[0] != 1:
                    raise ValueError("finite MPS expected")
            else:
                cur = np.tensordot(cur, t, axes=[[-1], [0]])
        cur = cur * _pw(self.S[L], 1.)
        return cur.sum(axis=-1) if cur.shape[-1] == 1 else cur


def _pw(S, k):
    """S**k for k in {-1, -0.5, 0, 0.5, 1} elementwise (object or float arrays)"""
    if k == 0:
        return np.array([1.] * len(S), dtype=S.dtype)
    out = np.empty(len(S), dtype=S.dtype)
    for j, s in enumerate(S):
        out[j] = s**k if k != 1 else s
    return out


_FORMS = {'A': (1., 0.), 'B': (0., 1.), 'C': (0.5, 0.5), 'G': (0., 0.), 'Th': (1., 1.)}


def sym_mps(ctx, name, sites, vspec, cplx=False, forms='B', symS=True, sqrtS=False):
    """finite MPS with symbolic tensors.  vspec: L+1 virtual leg specs (first and last of dimension 1).
    cplx: bool or per-site list.  forms: str or per-site list.  symS: interior Schmidt values are positive symbols
    (sqrtS: given as squares t*t of positive symbols so that the forms with S**0.5 stay polynomial)."""
    from tenpy.networks.mps import MPS
    L = len(sites)
    chinfo = sites[0].leg.chinfo
    forms = [forms] * L if isinstance(forms, str) else list(forms)
    legs = [vleg(chinfo, vspec[i], +1) for i in range(L + 1)]
    Bs, T = [], []
    for i in range(L):
        B = Bd.tensor(ctx, f'{name}{i}', [legs[i], sites[i].leg, legs[i + 1].conj()], None, cplx=_flag(cplx, i),
                      labels=['vL', 'p', 'vR'])
        Bs.append(B)
        T.append(B.to_ndarray().copy())
    S = []
    for i in range(L + 1):
        n = legs[i].ind_len
        if symS and 0 < i < L:
            s = ctx.array(f'{name}S{i}', (n, ), pos=True)
            if sqrtS:
                s = s * s
        else:
            s = np.ones(n, dtype=object if ctx.symbolic else float)
        S.append(s)
    psi = MPS(sites, Bs, [np.ones(len(s)) for s in S], bc='finite', form=forms)
    for i in range(L + 1):
        psi._S[i] = S[i].copy()
    if ctx.symbolic:
        psi.dtype = np.dtype(object)
    return SymMPS(psi, T, S, [_FORMS[f] for f in forms])


# ---------------------------------------------------------------------------------------------
# MPO with symbolic W tensors
class SymMPO:
    """H: the tenpy MPO;  W[i]: dense (wL, wR, p, p*) arrays as created;  IdL/IdR: marker lists (len L+1)"""

    def __init__(self, H, W, IdL, IdR):
        self.H, self.W, self.IdL, self.IdR = H, W, IdL, IdR

    def dense(self):
        return dense_from_W(self.W, self.IdL[0], self.IdR[-1])


def dense_from_W(Ws, iL, iR):
    """dense operator O[(p0 p1 ..), (p0* p1* ..)] of W tensors with axes (wL, wR, p, p*)"""
    L = len(Ws)
    cur = Ws[0][iL]  # (wR, p, p*)
    for W in Ws[1:]:
        cur = np.tensordot(cur, W, axes=[[0], [0]])  # (p.., wR, p, p*)
        cur = np.moveaxis(cur, -3, 0)
    cur = cur[iR]
    cur = cur.transpose(list(range(0, 2 * L, 2)) + list(range(1, 2 * L, 2)))
    d = int(np.prod(cur.shape[:L]))
    return cur.reshape(d, d)


def mpo_dense_of(H):
    """dense operator of a tenpy MPO *result* (reads its W tensors through to_ndarray and its boundary markers)"""
    Ws = []
    for i in range(H.L):
        W = H.get_W(i)
        Ws.append(W.to_ndarray().transpose([W.get_leg_index(l) for l in ['wL', 'wR', 'p', 'p*']]))
    return dense_from_W(Ws, H.get_IdL(0), H.get_IdR(H.L - 1))


def _norm_idx(i, n):
    return None if i is None else (i + n if i < 0 else i)


def sym_W(ctx, name, legs, IdL_l, IdR_l, IdL_r, IdR_r, cplx=False, qtotal=None, std_form=True, zero_prob=None):
    """one W tensor with symbolic entries in every allowed block.  If markers are given and std_form:
    W[IdL,IdL] = W[IdR,IdR] = Id, column IdL and row IdR otherwise 0 ('only identities to the left/right')."""
    W = Bd.tensor(ctx, name, legs, qtotal, cplx=cplx, labels=['wL', 'wR', 'p', 'p*'])
    D = W.to_ndarray().copy()
    nL, nR, d, _ = D.shape
    one = np.eye(d)
    if std_form:
        a, b = _norm_idx(IdL_l, nL), _norm_idx(IdL_r, nR)
        if b is not None:
            D[:, b] = 0. * D[:, b]
            if a is not None:
                D[a, b] = D[a, b] + one
        a, b = _norm_idx(IdR_l, nL), _norm_idx(IdR_r, nR)
        if a is not None:
            D[a, :] = 0. * D[a, :]
            if b is not None:
                D[a, b] = D[a, b] + one
    if ctx.symbolic:
        for idx in np.ndindex(*D.shape):  # canonical zero constants instead of 0*symbol
            v = D[idx]
            if hasattr(v, 'is_const') and v.is_const():
                D[idx] = v.const()
    # write back into the stored blocks; entries outside stored blocks must be zero
    mask = np.zeros(D.shape, dtype=bool)
    for qi, blk in zip(W._qdata, W._data):
        sl = tuple(slice(int(l.slices[q]), int(l.slices[q + 1])) for l, q in zip(W.legs, qi))
        blk[...] = D[sl]
        mask[sl] = True
    for idx in np.argwhere(~mask):
        v = D[tuple(idx)]
        if not (isinstance(v, (int, float, complex)) and v == 0):
            raise ValueError("marker entries fall outside the charge-allowed blocks of W")
    return W, D


def sym_mpo(ctx, name, sites, wspec=None, markers=True, cplx=False, like=None, IdL=None, IdR=None, std_form=True):
    """finite MPO whose W tensors hold symbolic entries.

    wspec: L+1 bond specs (dimension or charges) -- or `like`: a concretely built tenpy MPO whose legs, qtotals and
    markers are copied.  markers=True: IdL/IdR defined on every bond, W in the documented 'sum form';
    markers=False: only IdL[0] and IdR[L] are set and every entry of W is symbolic."""
    from tenpy.networks.mpo import MPO
    L = len(sites)
    if like is not None:
        legsL = [like.get_W(i).get_leg('wL') for i in range(L)]
        legsR = [like.get_W(i).get_leg('wR') for i in range(L)]
        qt = [like.get_W(i).qtotal for i in range(L)]
        IdL = list(like.IdL) if IdL is None else list(IdL)
        IdR = list(like.IdR) if IdR is None else list(IdR)
    else:
        chinfo = sites[0].leg.chinfo
        bl = [vleg(chinfo, wspec[i], +1) for i in range(L + 1)]
        legsL = bl[:L]
        legsR = [l.conj() for l in bl[1:]]
        qt = [None] * L
        IdL = [0] * (L + 1) if IdL is None else list(IdL)
        IdR = [-1] * (L + 1) if IdR is None else list(IdR)
    if not markers:
        IdL = [IdL[0]] + [None] * L
        IdR = [None] * L + [IdR[-1]]
    Ws, Ds = [], []
    for i in range(L):
        legs = [legsL[i], legsR[i], sites[i].leg, sites[i].leg.conj()]
        W, D = sym_W(ctx, f'{name}{i}', legs, IdL[i], IdR[i], IdL[i + 1], IdR[i + 1], cplx=_flag(cplx, i), qtotal=qt[i],
                     std_form=std_form and markers)
        Ws.append(W)
        Ds.append(D)
    H = MPO(sites, Ws, 'finite', IdL, IdR, max_range=None)
    return SymMPO(H, Ds, IdL, IdR)


def dense_of_tenpy_mps(psi):
    """state denoted by a tenpy MPS object (finite): S_0 G_0 S_1 ... S_L read from its stored tensors, forms and S"""
    L = psi.L
    cur = None
    for i in range(L):
        B = psi._B[i]
        t = B.to_ndarray().transpose([B.get_leg_index(l) for l in ['vL', 'p', 'vR']])
        fL, fR = psi.form[i]
        t = t * _pw(np.asarray(psi._S[i]), 1. - fL)[:, None, None]
        t = t * _pw(np.asarray(psi._S[i + 1]), -fR)[None, None, :]
        cur = t[0] if cur is None else np.tensordot(cur, t, axes=[[-1], [0]])
    cur = cur * np.asarray(psi._S[L])
    return cur[..., 0]


# ---------------------------------------------------------------------------------------------
def sandwich(bra_vec, O, ket_vec):
    """<bra|O|ket> for dense state tensors and a dense operator matrix"""
    b = np.conj(bra_vec.reshape(-1))
    k = ket_vec.reshape(-1)
    return np.dot(b, np.dot(O, k))


def conj_obj(x):
    """complex conjugate that also works for object arrays of symbolic scalars"""
    x = np.asarray(x)
    if x.dtype == object:
        out = np.empty(x.shape, dtype=object)
        for idx in np.ndindex(*x.shape):
            v = x[idx]
            out[idx] = v.conjugate() if hasattr(v, 'conjugate') else v
        return out
    return np.conj(x)
