"""Model factories and the harness's OWN dense oracle for C10 (mode agnostic: object arrays of symbolic
scalars in symbolic mode, float / complex arrays in concrete mode).

The oracle is built from the INPUTS of the CouplingModel.add_* calls (operator names, unit-cell indices,
displacements, strength arrays, boundary conditions): sum over the lattice of strength * A_x B_{x+dx} as dense
Kronecker products in the MPS order of the sites (site 0 most significant), with the harness's own Jordan-Wigner
strings.  Which pairs of sites exist comes from the brute force of catalogue/lattices.py.
"""
import itertools

import numpy as np

from catalogue import lattices as Lt

# --------------------------------------------------------------------------------------------
# strengths


def sym_strength(ctx, name, shape, cplx=False, free=0):
    """array of coupling strengths.

    entries with flat index >= `free`: sign * (positive symbol > 1e-3) with a fixed alternating sign pattern (everything
    is polynomial in the strengths, and the only branching of the code under check on a strength is the symmetric test
    |s| < tol_zero, so the positive orthant loses nothing); entries < `free` are unconstrained reals that are
    exactly 0 or |s| > 1e-3 (zero-strength forks)."""
    shape = tuple(int(s) for s in shape)
    out = np.empty(shape, dtype=object if ctx.symbolic else (complex if cplx else float))
    for k, idx in enumerate(np.ndindex(*shape)):
        nm = name + ('_' + '_'.join(map(str, idx)) if idx else '')
        parts = []
        for part in (('re', 'im') if cplx else ('', )):
            pn = nm + ('.' + part if part else '')
            if k < free:
                v = ctx.real(pn)
                ctx.assume(ctx.Or(v == 0, v > 1.e-3, v < -1.e-3))
            else:
                p = ctx.real(pn + '+', pos=True)
                ctx.assume(p > 1.e-3)
                sign = -1 if (k + (1 if part == 'im' else 0)) % 3 == 1 else 1
                v = p * sign
            parts.append(v)
        out[idx] = parts[0] + 1j * parts[1] if cplx else parts[0]
    return out if shape else out[()]


# --------------------------------------------------------------------------------------------
# dense helpers (kron basis, MPS site 0 most significant)


def _iszero(x):
    if isinstance(x, (int, float, complex, np.number)):
        return x == 0
    n = getattr(x, 'n', None)  # symx R: canonical polynomial {} == 0
    return n is not None and not n and getattr(x, 'd', 1) is None and not getattr(x, 'poison', False)


def _block_zero(a):
    return all(_iszero(v) for v in np.asarray(a).reshape(-1))


def kron(a, b):
    """Kronecker product that also works for object arrays"""
    a = np.asarray(a)
    b = np.asarray(b)
    dt = object if (a.dtype == object or b.dtype == object) else np.result_type(a.dtype, b.dtype)
    out = np.zeros((a.shape[0] * b.shape[0], a.shape[1] * b.shape[1]), dtype=dt)
    for i in range(a.shape[0]):
        for j in range(a.shape[1]):
            if _iszero(a[i, j]):
                continue
            out[i * b.shape[0]:(i + 1) * b.shape[0], j * b.shape[1]:(j + 1) * b.shape[1]] = a[i, j] * b
    return out


def matmul(a, b):
    a = np.asarray(a)
    b = np.asarray(b)
    return np.dot(a, b)


def dagger(a):
    a = np.asarray(a)
    if a.dtype == object:
        out = np.empty(a.T.shape, dtype=object)
        for idx in np.ndindex(*a.shape):
            v = a[idx]
            out[idx[::-1]] = v.conjugate() if hasattr(v, 'conjugate') else v
        return out
    return a.conj().T


def op_matrix(site, name):
    """matrix of the operator `name` of the site (an ndarray is taken as the matrix itself)"""
    if isinstance(name, np.ndarray):
        return name
    return np.asarray(site.get_op(name).to_ndarray())


def needs_jw(site, name):
    return (not isinstance(name, np.ndarray)) and site.op_needs_JW(name)


def op_at(sites, i, opname, jw=False):
    """dense operator `opname` on site i of the list `sites` (own Jordan-Wigner string on all sites left of i)"""
    m = np.eye(1)
    for k, s in enumerate(sites):
        if k < i and jw:
            o = op_matrix(s, 'JW')
        elif k == i:
            o = op_matrix(s, opname)
        else:
            o = np.eye(s.dim)
        m = np.kron(m, o)
    return m


def product_at(sites, ops):
    """dense product OP_0 OP_1 ... (in this order) of operators (name, site index); operators that need a
    Jordan-Wigner string get the harness's own string"""
    dim = int(np.prod([s.dim for s in sites]))
    m = np.eye(dim)
    for name, i in ops:
        m = m @ op_at(sites, i, name, needs_jw(sites[i], name))
    return m


def dense_mpo(H, n_cells=1):
    """own contraction of the W tensors from IdL (left of site 0) to IdR (right of the last site) over `n_cells`
    unit cells: the sum of all terms of the MPO that lie completely inside the window"""
    Lw = H.L * n_cells
    cur = None
    for k in range(Lw):
        i = k % H.L
        W = np.asarray(H.get_W(i).transpose(['wL', 'wR', 'p', 'p*']).to_ndarray())
        if k == 0:
            cur = [W[H.get_IdL(0), b] for b in range(W.shape[1])]
            continue
        new = [None] * W.shape[1]
        for a in range(W.shape[0]):
            if cur[a] is None or _block_zero(cur[a]):
                continue
            for b in range(W.shape[1]):
                if _block_zero(W[a, b]):
                    continue
                t = kron(cur[a], W[a, b])
                new[b] = t if new[b] is None else new[b] + t
        cur = new
    res = cur[H.get_IdR(H.L - 1)]
    if res is None:
        d = int(np.prod([s.dim for s in H.sites]))**n_cells
        res = np.zeros((d, d))
    if H.explicit_plus_hc:
        res = res + dagger(res)
    return res


def bond_matrix(Hb):
    """two-site bond operator as a matrix in the kron basis of (left site, right site)"""
    t = np.asarray(Hb.transpose(['p0', 'p1', 'p0*', 'p1*']).to_ndarray())
    d0, d1 = t.shape[0], t.shape[1]
    return t.reshape(d0 * d1, d0 * d1)


def embed_two(sites, i, mat):
    """matrix on the adjacent sites (i, i+1) embedded into the full chain"""
    dl = int(np.prod([s.dim for s in sites[:i]])) if i > 0 else 1
    dr = int(np.prod([s.dim for s in sites[i + 2:]])) if i + 2 < len(sites) else 1
    return kron(kron(np.eye(dl), mat), np.eye(dr))


def dense_bonds(H_bond, sites):
    """sum of the bond operators of a finite chain (H_bond[i] acts on sites i-1, i)"""
    d = int(np.prod([s.dim for s in sites]))
    tot = np.zeros((d, d), dtype=object)
    for i, Hb in enumerate(H_bond):
        if Hb is None:
            continue
        tot = tot + embed_two(sites, i - 1, bond_matrix(Hb))
    return tot


def ed_matrix(ed):
    """ExactDiag.full_H in the kron basis (the pipe of ExactDiag sorts by charge: undo with its own index map,
    whose correctness is the subject of C06)"""
    F = np.asarray(ed.full_H.to_ndarray())
    shape = [s.dim for s in ed._sites]
    perm = np.array([int(ed._pipe.map_incoming_flat(list(idx))) for idx in itertools.product(*[range(d) for d in shape])])
    return F[np.ix_(perm, perm)]


# --------------------------------------------------------------------------------------------
# the oracle


class Oracle:
    """accumulates sum of strength * (product of operators) as a dense matrix on a window of `n_cells` MPS unit cells
    (finite systems: the whole system).  For infinite systems every term is repeated in all unit cells and kept if
    it lies completely inside the window."""

    def __init__(self, ctx, lat, ref, n_cells=1, unit_cell=None, window=None):
        """unit_cell: optional replacement of `lat.unit_cell` by twin sites (same operators, other basis order: the
        sites without charge conservation keep the standard, un-sorted local basis)"""
        self.ctx = ctx
        self.lat = lat
        self.ref = ref
        self.n_cells = n_cells if ref.infinite else 1
        cell = list(lat.mps_sites()) if unit_cell is None else [unit_cell[row[-1]] for row in ref.order]
        self.cell = cell
        # window of MPS sites [first, last] (default: n_cells unit cells starting at site 0); terms completely inside it
        self.first, self.last = window if window is not None else (0, len(cell) * self.n_cells - 1)
        self.sites = [cell[i % len(cell)] for i in range(self.first, self.last + 1)]
        self.jw_gap = False  # a term with Jordan-Wigner operators on non-adjacent MPS sites (non-zero strength)
        self.W = len(self.sites)
        d = int(np.prod([s.dim for s in self.sites]))
        self.H = np.zeros((d, d), dtype=object if ctx.symbolic else complex)
        self.n_terms = 0
        self.max_range = 0  # largest distance (in MPS sites) of two operators of a term with non-zero strength
        # onsite operator of every site of the unit cell (for the half / half split of infinite bond operators)
        self.onsite_mats = [np.zeros((s.dim, s.dim), dtype=object if ctx.symbolic else complex) for s in cell]

    def _translations(self, idx):
        """positions (relative to the first site of the window) of all translates of a term that lie inside the window"""
        f, l = self.first, self.last
        if not self.ref.infinite:
            return [[i - f for i in idx]] if all(f <= i <= l for i in idx) else []
        N = self.ref.N
        out = []
        for k in range(f // N - 6, l // N + 6):
            t = [i + k * N for i in idx]
            if all(f <= i <= l for i in t):
                out.append([i - f for i in t])
        return out

    def add(self, strength, ops, plus_hc=False):
        """ops: list of (opname, mps index) in the unit-cell representative; product in the given order"""
        pos = [i for _, i in ops]
        if len(pos) > 1 and max(pos) - min(pos) > 1 and not self.jw_gap:
            sp = sorted(pos)
            if any(needs_jw(self.cell[i % self.ref.N], n) for n, i in ops) and any(b - a > 1 for a, b in zip(sp, sp[1:])) \
                    and bool(strength != 0):
                self.jw_gap = True
        if len(pos) > 1 and max(pos) - min(pos) > self.max_range and bool(strength != 0):
            self.max_range = max(pos) - min(pos)
        if len(pos) == 1:
            i = pos[0] % self.ref.N
            o = strength * op_matrix(self.cell[i], ops[0][0])
            self.onsite_mats[i] = self.onsite_mats[i] + o + (dagger(o) if plus_hc else 0)
        for t in self._translations(pos):
            m = product_at(self.sites, [(name, i) for (name, _), i in zip(ops, t)])
            term = strength * m
            self.H = self.H + term
            if plus_hc:
                self.H = self.H + dagger(term)
            self.n_terms += 1

    # ---- the add_* calls of CouplingModel, re-stated over lattice coordinates
    def onsite(self, strength, u, opname, plus_hc=False):
        st = _tile(strength, self.ref.Ls)
        for i, row in enumerate(self.ref.order):
            if row[-1] == u:
                self.add(st[row[:-1]], [(opname, i)], plus_hc)

    def coupling(self, strength, u1, op1, u2, op2, dx, plus_hc=False):
        rows, shape = Lt.spec_couplings(self.ctx, self.ref, u1, u2, list(dx))
        if not rows:
            return
        st = _tile(strength, shape)
        for r in rows:
            self.add(st[tuple(r[2:])], [(op1, r[0]), (op2, r[1])], plus_hc)

    def multi(self, strength, ops, plus_hc=False):
        """ops: list of (opname, dx, u)"""
        rows, shape = Lt.spec_multi_couplings(self.ctx, self.ref, [(list(dx), u) for _, dx, u in ops])
        if not rows:
            return
        st = _tile(strength, shape)
        M = len(ops)
        for r in rows:
            self.add(st[tuple(r[M:])], [(ops[m][0], r[m]) for m in range(M)], plus_hc)

    def exp_decaying(self, strength, lam, op_i, op_j, subsites=None, plus_hc=False):
        """strength * sum_{a < b} lam**(b - a) A_{S_a} B_{S_b} over the (periodically continued) subsites S"""
        N = self.ref.N
        S = list(range(N)) if subsites is None else list(subsites)
        if len(S) > 1 and bool(strength != 0):
            self.max_range = max(self.max_range, 2)  # long range
            if len(S) > 2 and needs_jw(self.cell[S[0]], op_i):
                self.jw_gap = True
        allS = []
        cells = range(self.first // N - 1, self.last // N + 2) if self.ref.infinite else [0]
        for k in cells:
            allS += [s + k * N for s in S if self.first <= s + k * N <= self.last]
        for a in range(len(allS)):
            for b in range(a + 1, len(allS)):
                m = product_at(self.sites, [(op_i, allS[a] - self.first), (op_j, allS[b] - self.first)])
                term = (strength * lam**(b - a)) * m
                self.H = self.H + term
                if plus_hc:
                    self.H = self.H + dagger(term)
                self.n_terms += 1


def _tile(strength, shape):
    """strength as array of the given shape (scalars and smaller arrays are repeated periodically, as documented)"""
    shape = tuple(int(s) for s in shape)
    a = np.asarray(strength, dtype=object) if not isinstance(strength, np.ndarray) else strength
    if a.ndim == 0:
        out = np.empty(shape, dtype=object)
        for idx in np.ndindex(*shape):
            out[idx] = a[()]
        return out
    out = np.empty(shape, dtype=object)
    for idx in np.ndindex(*shape):
        out[idx] = a[tuple(i % n for i, n in zip(idx, a.shape))]
    return out


def is_hermitian(ctx, H, label):
    return ctx.prove_eq(H, dagger(H), label)


def grouped_perm(gsites, orig_sites):
    """index map kron basis of the original sites -> kron basis of the grouped sites (the pipe of a GroupedSite may
    sort the product basis by charge)"""
    dims = [s.dim for s in orig_sites]
    perm = []
    for idx in itertools.product(*[range(d) for d in dims]):
        k = 0
        pos = 0
        for g in gsites:
            n = g.n_sites
            loc = list(idx[pos:pos + n])
            pos += n
            li = int(g.leg.map_incoming_flat(loc)) if hasattr(g.leg, 'map_incoming_flat') else int(np.ravel_multi_index(loc, [s.dim for s in g.sites]))
            k = k * g.dim + li
        perm.append(k)
    return np.array(perm)


# --------------------------------------------------------------------------------------------
# lazy norm (DESIGN section 2(v)): `norm(x) > tol` with a tiny tol is decided as `x != 0`


class LazyNorm:
    """2-norm of symbolic entries that is only ever compared with a tiny threshold (tol_zero, QCUTOFF).

    The strengths of the harnesses are exactly 0 or bounded away from 0 (|s| > 1e-3), so `norm > tol` for
    tol <= 1e-10 is decided as "some entry != 0" (linear), instead of the quadratic sum |x|^2 > tol^2 on which the
    non-linear solver was observed to hang.  Any other use falls back to the sqrt-variable norm of symx.stubs."""
    TINY = 1.e-10

    def __init__(self, entries):
        self.entries = list(entries)

    def _nonzero(self):
        from symx import scalars as S
        res = False
        for e in self.entries:
            c = (e != 0)
            if isinstance(c, (bool, np.bool_)):
                if c:
                    return True
                continue
            res = c if res is False else (res | c)
        return res

    def value(self):
        from symx import stubs
        a = np.empty(len(self.entries), dtype=object)
        for k, e in enumerate(self.entries):
            a[k] = e
        return stubs.sym_norm(a)

    def _tiny(self, c):
        return isinstance(c, (int, float, np.floating, np.integer)) and 0 <= c <= self.TINY

    def __gt__(self, c):
        return self._nonzero() if self._tiny(c) else (self.value() > c)

    def __ge__(self, c):
        return self._nonzero() if (self._tiny(c) and c > 0) else (self.value() >= c)

    def __lt__(self, c):
        if self._tiny(c):
            nz = self._nonzero()
            return (not nz) if isinstance(nz, (bool, np.bool_)) else ~nz
        return self.value() < c

    def __le__(self, c):
        return self.__lt__(c) if (self._tiny(c) and c > 0) else (self.value() <= c)

    def __float__(self):
        return float(self.value())

    def __mul__(self, o):
        return self.value() * o

    __rmul__ = __mul__

    def __truediv__(self, o):
        return self.value() / o

    def __rtruediv__(self, o):
        return o / self.value()

    def __add__(self, o):
        return self.value() + o

    __radd__ = __add__


def lazy_norm(x, ord=None, axis=None, keepdims=False):
    from symx import scalars as S
    from symx import stubs
    if isinstance(x, (list, tuple)) and any(isinstance(v, LazyNorm) for v in x) and ord is None and axis is None:
        ent = []
        for v in x:
            if isinstance(v, LazyNorm):
                ent += v.entries
            elif not _iszero(v):
                ent.append(v)
        return LazyNorm(ent)
    xa = np.asarray(x) if not isinstance(x, np.ndarray) else x
    if xa.dtype == object and ord is None and axis is None and S.has_sym(xa):
        return LazyNorm([v for v in xa.reshape(-1) if not _iszero(v)])
    return stubs.sym_norm(x, ord, axis, keepdims)


def install_lazy_norm():
    """route np.linalg.norm of tenpy.linalg.np_conserved (Array.norm, ipurge_zeros) to the lazy norm"""
    import tenpy.linalg.np_conserved as npc
    npc.np.linalg.norm = lazy_norm
