"""Lattice factories and the harness's OWN reference formulas for C19 (and the lattice part of C10).

Everything here is mode agnostic: in symbolic mode indices / displacements may be ``symx.scalars.I``
(z3 integers), in concrete mode they are Python ints.  Nothing of `tenpy.models.lattice` is used by
the reference formulas except the *data* ``lat.order`` (copied as plain ints before the instance is
made symbolic-ready), ``lat.Ls`` and the boundary conditions handed to the constructor.
"""
import itertools

import numpy as np

# --------------------------------------------------------------------------------------------
# construction


def lattice_module():
    import tenpy.models.lattice as m
    return m


_SITES = {}


def _site(kind='spin'):
    """site objects are never modified by the lattice: one instance per process"""
    from tenpy.networks import site as s
    if kind not in _SITES:
        if kind == 'spin':
            _SITES[kind] = s.SpinHalfSite(None)
        elif kind == 'fermion':
            _SITES[kind] = s.FermionSite(None)
        else:
            raise ValueError(kind)
    return _SITES[kind]


def _order_arg(order):
    if isinstance(order, str):
        return order
    # json lists -> the tuple forms accepted by Lattice.ordering
    if order[0] == 'standard':
        return ('standard', tuple(bool(b) for b in order[1]), tuple(order[2]))
    if order[0] == 'grouped':
        return ('grouped', [tuple(g) for g in order[1]]) + tuple(tuple(x) if isinstance(x, list) else x for x in order[2:])
    raise ValueError(order)


def _build_lattice(cfg, site=None):
    """real constructor of the configuration `cfg` (json-able dict)

    cfg: cls, Ls, order, bc (list of 'open' | 'periodic' | int), bc_MPS, wrap (None | dict(kind=...))"""
    L = lattice_module()
    s = site if site is not None else _site(cfg.get('site', 'spin'))
    cls = getattr(L, cfg['cls'])
    Ls = list(cfg['Ls'])
    bc = list(cfg['bc'])
    kw = dict(bc=bc if len(bc) > 1 or cfg['cls'] not in ('Chain', 'Ladder') else bc[0], bc_MPS=cfg['bc_MPS'])
    wrap = cfg.get('wrap') or {}
    kind = wrap.get('kind')
    order = _order_arg(cfg.get('order', 'default'))
    if kind != 'multispecies':
        kw['order'] = order
    if cfg['cls'] == 'NLegLadder':
        lat = cls(Ls[0], cfg['N'], s, **kw)
    else:
        lat = cls(*Ls, s, **kw)
    if kind is None:
        return lat
    if kind == 'irregular':
        add = None
        if wrap.get('add'):
            add = ([list(a) for a in wrap['add']], list(wrap.get('add_mps', [None] * len(wrap['add']))))
        n_add_u = wrap.get('n_add_u', 0)
        # explicit positions: the default zeros((n, lat.dim)) does not fit lattices drawn in more dimensions than
        # `dim` (Ladder: dim 1, positions 2D), see notes/C19.md
        add_pos = np.zeros((n_add_u, np.asarray(lat.basis).shape[1]))
        return L.IrregularLattice(lat, remove=wrap.get('remove'), add=add, add_unit_cell=[s] * n_add_u, add_positions=add_pos)
    if kind == 'helical':
        return L.HelicalLattice(lat, wrap['N_unit_cells'])
    if kind == 'multispecies':
        ms = L.MultiSpeciesLattice(lat, [s] * wrap['n'])
        if order != 'default':
            ms.order = ms.ordering(order)
        return ms
    raise ValueError(kind)


def build_lattice(cfg, site=None):
    """real constructor of the configuration `cfg`, followed by the `history` of in-place public methods
    (cfg['history'] = [['enlarge', factor], ...]: `enlarge_mps_unit_cell`).  What the lattice looked like before the
    history is kept for the reference formulas (`lat._verif_pre`)."""
    lat = _build_lattice(cfg, site)
    hist = cfg.get('history') or []
    if hist:
        base = lat.regular_lattice if (cfg.get('wrap') or {}).get('kind') == 'helical' else lat
        pre = dict(order=[tuple(int(v) for v in row) for row in np.asarray(lat.order)], Ls=tuple(int(v) for v in lat.Ls),
                   N_sites=int(lat.N_sites), reg_cells=int(np.prod(base.Ls)))
        for op in hist:
            if op[0] == 'enlarge':
                lat.enlarge_mps_unit_cell(int(op[1]))
            else:
                raise ValueError(op)
        lat._verif_pre = pre
    return lat


class Ref:
    """concrete snapshot of what the reference formulas may use: the order (list of int tuples), sizes and
    the boundary conditions as given to the constructor"""

    def __init__(self, lat, cfg):
        wrap = (cfg.get('wrap') or {}).get('kind')
        base = lat.regular_lattice if wrap == 'helical' else lat
        self.helical = wrap == 'helical'
        self.order = [tuple(int(v) for v in row) for row in np.asarray(base.order)]
        self.Ls = tuple(int(v) for v in base.Ls)
        self.dim = len(self.Ls)
        self.Lu = len(base.unit_cell)
        self.N = len(self.order)
        self.infinite = cfg['bc_MPS'] == 'infinite'
        bc = list(cfg['bc'])
        self.open = [b == 'open' for b in bc]
        sh = [int(b) if isinstance(b, int) else 0 for b in bc[1:]]
        self.shift = sh if any(sh) else None
        if self.helical:
            self.Nh = int(lat.N_sites)
        self.irregular = wrap == 'irregular'
        self.history = [list(h) for h in (cfg.get('history') or [])]
        if self.history:
            # expectations after enlarge_mps_unit_cell, from the state BEFORE the history (own formulas, not lat.N_sites)
            pre = lat._verif_pre
            F = int(np.prod([h[1] for h in self.history if h[0] == 'enlarge']))
            if self.helical:
                # the helical MPS unit cell grows by the factor; the regular lattice (read as data) must contain it
                self.Nh = pre['N_sites'] * F
            else:
                L0 = pre['Ls'][0]
                self.order = [(row[0] + k * L0, ) + row[1:] for k in range(F) for row in pre['order']]
                self.Ls = (L0 * F, ) + tuple(pre['Ls'][1:])
                self.N = len(self.order)
        self.table = {row: i for i, row in enumerate(self.order)}


def symbolic_ready(lat):
    """state preparation (DESIGN §3): the integer arrays of a concretely constructed lattice that the index
    methods *write symbolic values into* become object arrays; arrays only used as look-up tables stay int"""
    lat._order = np.asarray(lat._order).astype(object)
    lat._mps_fix_u = tuple(np.asarray(a).view(_WideningInt) for a in lat._mps_fix_u)
    reg = getattr(lat, 'regular_lattice', None)
    if reg is not None and type(lat).__name__ == 'HelicalLattice':
        symbolic_ready(reg)


class _WideningInt(np.ndarray):
    """int index array whose in-place `+=` widens to object dtype when a symbolic shift is added
    (`mps_i += mps_ij_shift` in possible_couplings); dtype promotion is outside the claim (DESIGN §7)"""

    def __iadd__(self, o):
        if isinstance(o, np.ndarray) and o.dtype == object:
            return np.asarray(self).astype(object) + o
        if not isinstance(o, (np.ndarray, int, np.integer)):
            return np.asarray(self).astype(object) + o
        return np.ndarray.__iadd__(self, o)


def sym_take(a, indices, axis=None, out=None, mode='raise'):
    """np.take with symbolic (bounded) integer indices: every feasible index value is a path"""
    from symx import scalars as S
    if S.has_sym(indices):
        idx = np.asarray(indices, dtype=object)
        ii = np.empty(idx.shape, dtype=np.intp)
        for k in np.ndindex(*idx.shape):
            ii[k] = int(idx[k])
        return np.take(a, ii, axis=axis).astype(object)
    if isinstance(indices, np.ndarray) and indices.dtype == object:
        indices = indices.astype(np.intp)
        return np.take(a, indices, axis=axis).astype(object)
    return np.take(a, indices, axis=axis, out=out, mode=mode)


def sym_asarray(x, dtype=None, **kw):
    """np.asarray(idx, dtype=np.intp) of the index methods: an object array stays an object array (also an empty
    one or one that holds only concrete integers on this path), so that symbolic offsets can be added in place"""
    from symx import scalars as S
    if isinstance(x, np.ndarray) and x.dtype == object:
        return x
    if S.has_sym(x):
        return np.asarray(x, dtype=object)
    return np.asarray(x, dtype=dtype, **kw)


def install_facade():
    from symx import stubs
    L = lattice_module()
    stubs.facade_for(L, overrides={'take': sym_take})
    L.np.asarray = sym_asarray  # instance attribute: takes precedence over the facade's own asarray


def ivec(ctx, vals):
    """displacement / index vector holding ints and (in symbolic mode) symbolic integers"""
    if ctx.symbolic and not all(isinstance(v, (int, np.integer)) for v in vals):
        a = np.empty(len(vals), dtype=object)
        for k, v in enumerate(vals):
            a[k] = v
        return a
    return np.array([int(v) for v in vals], dtype=np.intp)


# --------------------------------------------------------------------------------------------
# reference formulas (own brute force over lattice coordinates)


def count_true(ctx, conds):
    if ctx.symbolic:
        from symx.scalars import I
        tot = I(0)
        for c in conds:
            tot = tot + I(I.l(c))
        return tot
    return sum(1 for c in conds if c)


def rows_equal(ctx, g, e):
    conds = []
    for a, b in zip(g, e):
        if (_is_int(a) and _is_int(b)) or isinstance(a, str):
            if a != b:
                return False
            continue
        c = (a == b)
        if isinstance(c, (bool, np.bool_)):
            if not c:
                return False
            continue
        conds.append(c)
    if not conds:
        return True
    return ctx.And(*conds)


def same_multiset(ctx, got_rows, exp_rows, label):
    """order independent: same number of rows and every expected row occurs exactly once among the returned ones
    (one solver query for the conjunction over all expected rows)"""
    ok = ctx.prove(len(got_rows) == len(exp_rows), label + ': number of couplings')
    if not ok:
        return False
    if not exp_rows:
        return True
    each = []
    for e in exp_rows:
        conds = [rows_equal(ctx, g, e) for g in got_rows]
        each.append(count_true(ctx, conds) == 1)
    return ctx.prove(ctx.And(*each), label + ': every expected coupling is returned exactly once')


def _is_int(v):
    return isinstance(v, (int, np.integer))


def _min0(v):
    """min(0, v) for int or symbolic v"""
    return v if bool(v < 0) else 0


def _split(v, L):
    """v = k * L + r with a CONCRETE remainder r in range(L) (symbolic v: every feasible remainder is a path) and
    the quotient k (int or symbolic)"""
    if _is_int(v):
        return int(v) // L, int(v) % L
    r = int(v % L)
    return v // L, r


class Disp:
    """a displacement vector prepared for the reference formulas: along every periodic direction it is split into
    (windings, concrete remainder) once per path, so that the coordinates of every target site are concrete and
    only the number of windings along x stays symbolic"""

    def __init__(self, ctx, ref, d):
        self.ref = ref
        self.d = list(d)
        self.kr = {}
        for a in range(1, ref.dim):
            if not ref.open[a]:
                self.kr[a] = _split(d[a], ref.Ls[a])
            elif not _is_int(d[a]):
                raise ValueError("displacements along open directions are enumerated (concrete)")
        # part of the x displacement that is the same for all sites: dx0 - sum_a shift_a * windings_a
        T = d[0]
        if ref.shift is not None:
            for a, (k, r) in self.kr.items():
                T = T - k * ref.shift[a - 1]
        self.T = T
        self.T_kr = None if ref.open[0] else _split(T, ref.Ls[0])

    def target(self, ctx, x):
        """unit cell reached from the unit cell `x` (concrete ints): (coords inside the lattice, windings along x)
        or None if an open boundary is crossed"""
        ref = self.ref
        y = [None] * ref.dim
        xoff = x[0]
        for a in range(1, ref.dim):
            if ref.open[a]:
                y[a] = x[a] + self.d[a]
                if not 0 <= y[a] < ref.Ls[a]:
                    return None
            else:
                k, r = self.kr[a]
                c = (x[a] + r) // ref.Ls[a]
                y[a] = (x[a] + r) % ref.Ls[a]
                if ref.shift is not None:
                    # going once around direction a in positive direction shifts by -shift * basis[0]
                    xoff = xoff - c * ref.shift[a - 1]
        if ref.open[0]:
            y0 = xoff + self.T
            if not bool((y0 >= 0) & (y0 < ref.Ls[0])):
                return None
            y[0] = int(y0)
            return y, 0
        k, r = self.T_kr
        y[0] = (xoff + r) % ref.Ls[0]
        return y, k + (xoff + r) // ref.Ls[0]


def own_mps_index(ctx, ref, x, disp, u):
    """MPS index of the site (x + displacement, u); None if there is no such site.
    For infinite MPS the index is continued periodically: one winding along x = N sites."""
    t = disp.target(ctx, x)
    if t is None:
        return None
    y, w0 = t
    j0 = ref.table.get(tuple(y) + (int(u), ))
    if j0 is None:
        return None
    if ref.infinite:
        return j0 + w0 * ref.N
    return j0


def own_lat2mps(ctx, ref, x, u):
    """MPS index of the lattice index (x.., u) with possibly symbolic entries (None: no such site).
    Coordinates inside the lattice are bounded and concretised; x0 may be unbounded for infinite MPS."""
    if ref.infinite:
        k, r = _split(x[0], ref.Ls[0])
    else:
        k, r = 0, int(x[0])
    key = (r, ) + tuple(int(v) for v in x[1:]) + (int(u), )
    j0 = ref.table.get(key)
    if j0 is None:
        return None
    return j0 + k * ref.N if ref.infinite else j0


def _min_of(idx):
    m = idx[0]
    for v in idx[1:]:
        if bool(v < m):
            m = v
    return m


def _normalise(ctx, ref, idx, n=None):
    """translate a tuple of MPS indices of an infinite system such that 0 <= min(idx) < n (MPS unit cell)"""
    if not ref.infinite:
        return list(idx)
    if n is None:
        n = ref.Nh if ref.helical else ref.N
    t = _min_of(idx) // n
    return [v - t * n for v in idx]


def spec_coupling_shape(ref, dxs):
    """dxs: list of displacement vectors of all operators (two-site: [0, dx])"""
    shape = []
    for a in range(ref.dim):
        if ref.open[a]:
            vals = [int(d[a]) for d in dxs]
            shape.append(ref.Ls[a] - (max(vals) - min(vals)))
        else:
            shape.append(ref.Ls[a])
    return shape


def spec_couplings(ctx, ref, u1, u2, dx):
    """all pairs of existing sites (x, u1), (x + dx, u2), one representative per translation class.

    Returns rows [i, j, corner_0, ..., corner_{dim-1}] where corner = strength index as documented for
    add_coupling: lower left corner of the box spanned by the coupling (modulo coupling_shape)."""
    shape = spec_coupling_shape(ref, [[0] * ref.dim, dx])
    n_first = ref.Nh if ref.helical else ref.N
    disp = Disp(ctx, ref, dx)
    low = [_min0(d) for d in dx]
    rows = []
    for i0 in range(n_first):
        row = ref.order[i0]
        if row[-1] != u1:
            continue
        x = list(row[:-1])
        j = own_mps_index(ctx, ref, x, disp, u2)
        if j is None:
            continue
        i, j = _normalise(ctx, ref, [i0, j])
        corner = [((x[a] + low[a]) % shape[a]) if shape[a] > 0 else 0 for a in range(ref.dim)]
        rows.append([i, j] + corner)
    return rows, shape


def spec_multi_couplings(ctx, ref, ops):
    """ops: list of (dx vector, u).  All tuples of existing sites (x + dx_0, u_0), ..., (x + dx_{M-1}, u_{M-1}), one
    representative per translation class: enumerated over the position of the FIRST operator's site (not over box
    positions, which is how the code under check enumerates them).

    Returns rows [i_0, ..., i_{M-1}, corner_0, ...] with corner = lower left corner of the box (modulo coupling_shape)."""
    dxs = [d for d, _ in ops]
    shape = spec_coupling_shape(ref, dxs)
    mins = []
    for a in range(ref.dim):
        m = dxs[0][a]
        for d in dxs[1:]:
            if bool(d[a] < m):
                m = d[a]
        mins.append(m)
    rows = []
    d0, u0 = ops[0]
    disps = [Disp(ctx, ref, [d[a] - d0[a] for a in range(ref.dim)]) for d in dxs[1:]]
    low = [mins[a] - d0[a] for a in range(ref.dim)]
    n_first = ref.Nh if ref.helical else ref.N
    for i0 in range(n_first):
        row = ref.order[i0]
        if row[-1] != u0:
            continue
        x = list(row[:-1])
        idx = [i0]
        for (d, u), disp in zip(ops[1:], disps):
            j = own_mps_index(ctx, ref, x, disp, u)
            if j is None:
                idx = None
                break
            idx.append(j)
        if idx is None:
            continue
        idx = _normalise(ctx, ref, idx)
        corner = [((x[a] + low[a]) % shape[a]) if shape[a] > 0 else 0 for a in range(ref.dim)]
        rows.append(list(idx) + corner)
    return rows, shape
