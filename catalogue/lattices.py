"""Lattice factories and the harness's OWN reference formulas for C19 (and the lattice part of C10).

Everything here is mode agnostic: in symbolic mode indices / displacements may be ``symx.scalars.I``
(z3 integers), in concrete mode they are Python ints.  Nothing of `tenpy.models.lattice` is used by
the reference formulas except the *data* ``lat.order`` (copied as plain ints before the instance is
made symbolic-ready), ``lat.Ls`` and the boundary conditions handed to the constructor.
"""
import itertools

import numpy as np

# --------------------------------------------------------------------------------------------
# construction


def lattice_module():
    import tenpy.models.lattice as m
    return m


def _site(kind='spin'):
    from tenpy.networks import site as s
    if kind == 'spin':
        return s.SpinHalfSite(None)
    if kind == 'fermion':
        return s.FermionSite(None)
    raise ValueError(kind)


def _order_arg(order):
    if isinstance(order, str):
        return order
    # json lists -> the tuple forms accepted by Lattice.ordering
    if order[0] == 'standard':
        return ('standard', tuple(bool(b) for b in order[1]), tuple(order[2]))
    if order[0] == 'grouped':
        return ('grouped', [tuple(g) for g in order[1]]) + tuple(tuple(x) if isinstance(x, list) else x for x in order[2:])
    raise ValueError(order)


def build_lattice(cfg, site=None):
    """real constructor of the configuration `cfg` (json-able dict)

    cfg: cls, Ls, order, bc (list of 'open' | 'periodic' | int), bc_MPS, wrap (None | dict(kind=...))"""
    L = lattice_module()
    s = site if site is not None else _site(cfg.get('site', 'spin'))
    cls = getattr(L, cfg['cls'])
    Ls = list(cfg['Ls'])
    bc = list(cfg['bc'])
    kw = dict(bc=bc if len(bc) > 1 or cfg['cls'] not in ('Chain', 'Ladder') else bc[0], bc_MPS=cfg['bc_MPS'])
    wrap = cfg.get('wrap') or {}
    kind = wrap.get('kind')
    order = _order_arg(cfg.get('order', 'default'))
    if kind != 'multispecies':
        kw['order'] = order
    if cfg['cls'] == 'NLegLadder':
        lat = cls(Ls[0], cfg['N'], s, **kw)
    else:
        lat = cls(*Ls, s, **kw)
    if kind is None:
        return lat
    if kind == 'irregular':
        add = None
        if wrap.get('add'):
            add = ([list(a) for a in wrap['add']], list(wrap.get('add_mps', [None] * len(wrap['add']))))
        n_add_u = wrap.get('n_add_u', 0)
        # explicit positions: the default zeros((n, lat.dim)) does not fit lattices drawn in more dimensions than
        # `dim` (Ladder: dim 1, positions 2D), see notes/C19.md
        add_pos = np.zeros((n_add_u, np.asarray(lat.basis).shape[1]))
        return L.IrregularLattice(lat, remove=wrap.get('remove'), add=add, add_unit_cell=[s] * n_add_u, add_positions=add_pos)
    if kind == 'helical':
        return L.HelicalLattice(lat, wrap['N_unit_cells'])
    if kind == 'multispecies':
        ms = L.MultiSpeciesLattice(lat, [s] * wrap['n'])
        if order != 'default':
            ms.order = ms.ordering(order)
        return ms
    raise ValueError(kind)


class Ref:
    """concrete snapshot of what the reference formulas may use: the order (list of int tuples), sizes and
    the boundary conditions as given to the constructor"""

    def __init__(self, lat, cfg):
        wrap = (cfg.get('wrap') or {}).get('kind')
        base = lat.regular_lattice if wrap == 'helical' else lat
        self.helical = wrap == 'helical'
        self.order = [tuple(int(v) for v in row) for row in np.asarray(base.order)]
        self.Ls = tuple(int(v) for v in base.Ls)
        self.dim = len(self.Ls)
        self.Lu = len(base.unit_cell)
        self.N = len(self.order)
        self.infinite = cfg['bc_MPS'] == 'infinite'
        bc = list(cfg['bc'])
        self.open = [b == 'open' for b in bc]
        sh = [int(b) if isinstance(b, int) else 0 for b in bc[1:]]
        self.shift = sh if any(sh) else None
        self.table = {row: i for i, row in enumerate(self.order)}
        if self.helical:
            self.Nh = int(lat.N_sites)
        self.irregular = wrap == 'irregular'


def symbolic_ready(lat):
    """state preparation (DESIGN §3): the integer arrays of a concretely constructed lattice that the index
    methods *write symbolic values into* become object arrays; arrays only used as look-up tables stay int"""
    lat._order = np.asarray(lat._order).astype(object)
    lat._mps_fix_u = tuple(np.asarray(a).view(_WideningInt) for a in lat._mps_fix_u)
    reg = getattr(lat, 'regular_lattice', None)
    if reg is not None and type(lat).__name__ == 'HelicalLattice':
        symbolic_ready(reg)


class _WideningInt(np.ndarray):
    """int index array whose in-place `+=` widens to object dtype when a symbolic shift is added
    (`mps_i += mps_ij_shift` in possible_couplings); dtype promotion is outside the claim (DESIGN §7)"""

    def __iadd__(self, o):
        if isinstance(o, np.ndarray) and o.dtype == object:
            return np.asarray(self).astype(object) + o
        if not isinstance(o, (np.ndarray, int, np.integer)):
            return np.asarray(self).astype(object) + o
        return np.ndarray.__iadd__(self, o)


def sym_take(a, indices, axis=None, out=None, mode='raise'):
    """np.take with symbolic (bounded) integer indices: every feasible index value is a path"""
    from symx import scalars as S
    if S.has_sym(indices):
        idx = np.asarray(indices, dtype=object)
        ii = np.empty(idx.shape, dtype=np.intp)
        for k in np.ndindex(*idx.shape):
            ii[k] = int(idx[k])
        return np.take(a, ii, axis=axis).astype(object)
    if isinstance(indices, np.ndarray) and indices.dtype == object:
        indices = indices.astype(np.intp)
        return np.take(a, indices, axis=axis).astype(object)
    return np.take(a, indices, axis=axis, out=out, mode=mode)


def sym_asarray(x, dtype=None, **kw):
    """np.asarray(idx, dtype=np.intp) of the index methods: an object array stays an object array (also an empty
    one or one that holds only concrete integers on this path), so that symbolic offsets can be added in place"""
    from symx import scalars as S
    if isinstance(x, np.ndarray) and x.dtype == object:
        return x
    if S.has_sym(x):
        return np.asarray(x, dtype=object)
    return np.asarray(x, dtype=dtype, **kw)


def install_facade():
    from symx import stubs
    L = lattice_module()
    stubs.facade_for(L, overrides={'take': sym_take})
    L.np.asarray = sym_asarray  # instance attribute: takes precedence over the facade's own asarray


def ivec(ctx, vals):
    """displacement / index vector holding ints and (in symbolic mode) symbolic integers"""
    if ctx.symbolic and not all(isinstance(v, (int, np.integer)) for v in vals):
        a = np.empty(len(vals), dtype=object)
        for k, v in enumerate(vals):
            a[k] = v
        return a
    return np.array([int(v) for v in vals], dtype=np.intp)


# --------------------------------------------------------------------------------------------
# reference formulas (own brute force over lattice coordinates)


def count_true(ctx, conds):
    if ctx.symbolic:
        from symx.scalars import I
        tot = I(0)
        for c in conds:
            tot = tot + I(I.l(c))
        return tot
    return sum(1 for c in conds if c)


def rows_equal(ctx, g, e):
    return ctx.And(*[(a == b) for a, b in zip(g, e)])


def same_multiset(ctx, got_rows, exp_rows, label):
    """order independent: same number of rows and every expected row occurs exactly once"""
    ok = ctx.prove(len(got_rows) == len(exp_rows), label + ': number of couplings')
    if not ok:
        return
    for e in exp_rows:
        conds = [rows_equal(ctx, g, e) for g in got_rows]
        ctx.prove(count_true(ctx, conds) == 1, label + ': every expected coupling is returned exactly once')


def _min0(v):
    """min(0, v) for int or symbolic v"""
    return v if bool(v < 0) else 0


def canonical(ctx, ref, y):
    """bring unit-cell coordinates `y` (ints / symbolic) into the lattice under the boundary conditions.

    Returns (exists: bool-like, coords inside [0,L) per direction, w0: number of windings along x)"""
    y = list(y)
    ok = True
    xs = 0
    for a in range(1, ref.dim):
        w = y[a] // ref.Ls[a]
        if ref.open[a]:
            ok = ctx.And(ok, w == 0)
        else:
            y[a] = y[a] - w * ref.Ls[a]
            if ref.shift is not None and ref.shift[a - 1] != 0:
                # going once around direction a in positive direction shifts by -shift * basis[0]
                xs = xs + w * ref.shift[a - 1]
    y[0] = y[0] - xs
    w0 = y[0] // ref.Ls[0]
    if ref.open[0]:
        ok = ctx.And(ok, w0 == 0)
    else:
        y[0] = y[0] - w0 * ref.Ls[0]
    return ok, y, w0


def own_mps_index(ctx, ref, y, u):
    """MPS index of the site at unit cell `y`, unit-cell site `u`; None if there is no such site.
    For infinite MPS the index is continued periodically: one winding along x = N sites."""
    ok, yc, w0 = canonical(ctx, ref, y)
    if not bool(ok):
        return None
    key = tuple(int(v) for v in yc) + (int(u), )
    j0 = ref.table.get(key)
    if j0 is None:
        return None
    if ref.infinite:
        return j0 + w0 * ref.N
    return j0


def _min_of(idx):
    m = idx[0]
    for v in idx[1:]:
        if bool(v < m):
            m = v
    return m


def _normalise(ctx, ref, idx, n=None):
    """translate a tuple of MPS indices of an infinite system such that 0 <= min(idx) < n (MPS unit cell)"""
    if not ref.infinite:
        return list(idx)
    if n is None:
        n = ref.Nh if ref.helical else ref.N
    t = _min_of(idx) // n
    return [v - t * n for v in idx]


def spec_coupling_shape(ref, dxs):
    """dxs: list of displacement vectors of all operators (two-site: [0, dx])"""
    shape = []
    for a in range(ref.dim):
        if ref.open[a]:
            vals = [int(d[a]) for d in dxs]
            shape.append(ref.Ls[a] - (max(vals) - min(vals)))
        else:
            shape.append(ref.Ls[a])
    return shape


def spec_couplings(ctx, ref, u1, u2, dx):
    """all pairs of existing sites (x, u1), (x + dx, u2), one representative per translation class.

    Returns rows [i, j, corner_0, ..., corner_{dim-1}] where corner = strength index as documented for
    add_coupling: lower left corner of the box spanned by the coupling (modulo coupling_shape)."""
    shape = spec_coupling_shape(ref, [[0] * ref.dim, dx])
    n_first = ref.Nh if ref.helical else ref.N
    rows = []
    for i0 in range(n_first):
        row = ref.order[i0]
        if row[-1] != u1:
            continue
        x = list(row[:-1])
        j = own_mps_index(ctx, ref, [x[a] + dx[a] for a in range(ref.dim)], u2)
        if j is None:
            continue
        i, j = _normalise(ctx, ref, [i0, j])
        corner = [(x[a] + _min0(dx[a])) % shape[a] for a in range(ref.dim)]
        rows.append([i, j] + corner)
    return rows, shape


def spec_multi_couplings(ctx, ref, ops):
    """ops: list of (dx vector, u).  One coupling per position of the box (corner) such that all sites exist.

    Returns rows [i_0, ..., i_{M-1}, corner_0, ...]."""
    dxs = [d for d, _ in ops]
    shape = spec_coupling_shape(ref, dxs)
    mins = []
    for a in range(ref.dim):
        m = dxs[0][a]
        for d in dxs[1:]:
            if bool(d[a] < m):
                m = d[a]
        mins.append(m)
    rows = []
    if any(s <= 0 for s in shape):
        return rows, shape
    for corner in itertools.product(*[range(s) for s in shape]):
        idx = []
        for d, u in ops:
            j = own_mps_index(ctx, ref, [corner[a] + d[a] - mins[a] for a in range(ref.dim)], u)
            if j is None:
                idx = None
                break
            idx.append(j)
        if idx is None:
            continue
        # helical: the box positions enumerate the translation classes of the larger regular lattice; exactly
        # one member of each class of the helical unit cell (Nh sites) has 0 <= min < Nh
        idx = _normalise(ctx, ref, idx, ref.N)
        if ref.helical and not bool(_min_of(idx) < ref.Nh):
            continue
        rows.append(list(idx) + list(corner))
    return rows, shape
