"""C03 at the MPS level: routines that are not documented as in-place never change their operand MPS.

Exposes ``CASES(tier, seed)``, ``setup_symbolic(case)`` and the harness functions (``single_case``, ``pair_case``,
``copies_case``, ``sample_alias_case``); meant to be wired into props/c03_aliasing.py by importing them.  MPS come from
catalogue/mps_factory.py (symbolic complex tensor entries, positive symbolic singular values, symbolic norms).

For every routine a *fingerprint* of each operand MPS is taken before the call and compared afterwards:
identity of every ``_B[i]`` object and of its data blocks, labels, ``qtotal``, identity of the three legs and their
charges / slices / qconj, dense content (``prove_eq`` on the symbols), identity and content of every ``_S[k]``, ``form``,
``norm`` (identity), ``bc``, ``sites``, ``segment_boundaries``, outer virtual legs and ``get_total_charge()``.
Pairs of MPS are also built with DIFFERENT outer virtual legs (all bonds shifted by a charge / only the bonds right of the
first tensor shifted, compensated by the qtotal of that tensor) so that the gauging branch of
``MPS._gauge_compatible_vL_vR`` (used by overlap, add, MPSEnvironment) runs.
Results documented as independent (copy(), get_B(copy=True), get_B with a form change, get_theta, extract_segment) are
written through and the operand re-compared; ``get_B(copy=False)`` without form change is the documented exception
(returns the stored tensor itself) and is checked as such.
"""
import numpy as np

from catalogue import build as Bd
from catalogue import mps_factory as F

BOUNDS = {'quick': 'L<=3, chi<=2, SpinHalfSite(Sz) finite / segment, FermionSite(N) infinite; every routine / pair variant by a symbolic selector',
          'thorough': 'additionally SpinHalfSite(None) and FermionSite(N) segment'}
STUBS = ['BLAS contract stub', 'numpy facade for tenpy.networks.mps / mpo / terms / tools.math',
         'MPS.canonical_form_finite replaced by a no-op in the symbolic run of the routine `add` (it acts on the NEW MPS only)',
         'random generator stub (sample_measurements)']


def setup_symbolic(case):
    from symx import stubs
    import tenpy.networks.mps as M
    import tenpy.networks.mpo as MPO
    import tenpy.networks.terms as T
    import tenpy.tools.math as TM
    stubs.install_blas()
    stubs.facade_for(M, MPO, T, TM)
    if case is not None and case.get('params', {}).get('stub_canonical'):
        M.MPS.canonical_form_finite = lambda self, *a, **k: None


# ------------------------------------------------------------------------------------------------
def fingerprint(psi):
    fp = dict(psi=psi, Blist=psi._B, Slist=psi._S, B=[], S=[], form=list(psi.form), formlist=psi.form, norm=psi.norm, bc=psi.bc,
              sites=list(psi.sites), seg=psi.segment_boundaries, dtype=psi.dtype, grouped=psi.grouped, L=psi.L)
    for T in psi._B:
        fp['B'].append(dict(obj=T, blocks=list(T._data), labels=list(T.get_leg_labels()), qtotal=np.array(T.qtotal).copy(),
                            dense=T.to_ndarray().copy(), qdata=T._qdata.copy(),
                            legs=[dict(obj=l, charges=np.array(l.charges).copy(), slices=np.array(l.slices).copy(), qconj=l.qconj) for l in T.legs]))
    for S in psi._S:
        fp['S'].append(dict(obj=S, val=None if S is None else np.array(S).copy()))
    fp['outer'] = psi.outer_virtual_legs()
    fp['qtotal'] = np.array(psi.get_total_charge()).copy()
    return fp


def unchanged(ctx, fp, what, who='operand'):
    """every obligation label starts with the routine name, so that a finding is keyed by routine"""
    psi = fp['psi']
    t = f'{what}: {who}'
    ok = psi._B is fp['Blist'] and len(psi._B) == len(fp['B']) and all(a is b['obj'] for a, b in zip(psi._B, fp['B']))
    ctx.prove(ok, f'{t}: the _B list still holds the same tensor objects')
    ok = psi._S is fp['Slist'] and len(psi._S) == len(fp['S']) and all(a is b['obj'] for a, b in zip(psi._S, fp['S']))
    ctx.prove(ok, f'{t}: the _S list still holds the same arrays')
    ctx.prove(psi.form is fp['formlist'] and list(psi.form) == fp['form'], f'{t}: form unchanged')
    ctx.prove(psi.norm is fp['norm'] and psi.bc == fp['bc'] and psi.L == fp['L'] and psi.grouped == fp['grouped']
              and len(psi.sites) == len(fp['sites']) and all(a is b for a, b in zip(psi.sites, fp['sites']))
              and psi.segment_boundaries is fp['seg'], f'{t}: norm / bc / sites / segment_boundaries unchanged')
    for i, b in enumerate(fp['B']):
        T = b['obj']
        st = (list(T.get_leg_labels()) == b['labels'] and np.array_equal(np.array(T.qtotal), b['qtotal'])
              and len(T._data) == len(b['blocks']) and all(x is y for x, y in zip(T._data, b['blocks']))
              and np.array_equal(T._qdata, b['qdata']))
        ctx.prove(st, f'{t}: tensor {i}: labels, qtotal, block list and block identities unchanged')
        lg = all(l is s['obj'] and l.qconj == s['qconj'] and np.array_equal(np.array(l.charges), s['charges'])
                 and np.array_equal(np.array(l.slices), s['slices']) for l, s in zip(T.legs, b['legs'])) and len(T.legs) == len(b['legs'])
        ctx.prove(lg, f'{t}: tensor {i}: legs are the same objects with the same charges / slices / qconj')
        ctx.prove_eq(T.to_ndarray(), b['dense'], f'{t}: tensor {i}: entries unchanged')
    for k, s in enumerate(fp['S']):
        if s['val'] is not None:
            ctx.prove_eq(np.asarray(s['obj']), s['val'], f'{t}: singular values of bond {k} unchanged')
    o = psi.outer_virtual_legs()
    ctx.prove(o[0] is fp['outer'][0] and o[1] is fp['outer'][1], f'{t}: outer virtual legs unchanged')
    ctx.prove(np.array_equal(np.array(psi.get_total_charge()), fp['qtotal']), f'{t}: get_total_charge unchanged')


def _scribble(T):
    """in-place updates through an npc.Array: prefactor scaling, *=, element assignment of every stored entry"""
    T.iscale_prefactor(3.)
    T *= 2.
    for blk in T._data:
        blk[...] = 7


# ------------------------------------------------------------------------------------------------
def _build(ctx, p, name='k', forms=None):
    return F.build(ctx, name, p['kind'], p['L'], p['chis'], p['bc'], forms if forms is not None else p.get('forms', 'B'), cplx=True,
                   variant=p.get('variant', 0))


def _shifted_partner(ctx, ref, variant, name='b'):
    """second MPS on the same sites whose outer virtual legs differ from those of `ref`:
    'same': identical legs; 'shift_all': every bond charge shifted by q (vL and vR differ, same qtotal of every tensor);
    'shift_right': bonds 1..L shifted, compensated by qtotal of the first tensor (only vR differs)"""
    npc = Bd.npc()
    ci = ref.sites[0].leg.chinfo
    if variant == 'same' or ci.qnumber == 0:
        return F.same_structure(ctx, name, ref)
    q = np.array([2] + [0] * (ci.qnumber - 1), dtype=np.int64)
    legs = []
    for k, l in enumerate(ref.legs):
        if variant == 'shift_all' or k >= 1:
            l2 = npc.LegCharge.from_qflat(ci, ci.make_valid(l.to_qflat() + q), qconj=l.qconj).bunch()[1]
        else:
            l2 = l
        legs.append(l2)
    qtot = [tuple(int(x) for x in t) for t in ref.qtot]
    if variant == 'shift_right':
        qtot[0] = tuple(int(x) for x in ci.make_valid(np.array(ref.qtot[0]) - q))
    return F.build(ctx, name, ref.kind, ref.L, ref.chis, ref.bc, ref.forms, cplx=True, legs=(legs, qtot))


SINGLE = ['expectation_value', 'expectation_value.2site_op', 'expectation_value_multi_sites', 'expectation_value_term', 'correlation_function',
          'term_correlation_function_right', 'term_correlation_function_left', 'term_list_correlation_function_right', 'get_rho_segment',
          'entanglement_entropy', 'entanglement_spectrum', 'probability_per_charge', 'expectation_value_terms_sum', 'overlap(self)',
          'get_theta', 'get_B(form change)', 'extract_segment', 'get_grouped_mps', 'norm_test.skip']


def single_case(ctx, **p):
    """one operand MPS, one routine (symbolic selector)"""
    from tenpy.networks.terms import TermList
    sm = _build(ctx, p)
    psi = sm.psi
    L = sm.L
    psi.norm = ctx.real('norm', pos=True)
    routines = [r for r in SINGLE if not r.endswith('.skip')]
    if sm.bc == 'infinite':
        routines = [r for r in routines if r not in ('expectation_value_terms_sum', 'overlap(self)')]
    if sm.bc == 'segment':
        routines = [r for r in routines if r != 'expectation_value_terms_sum']  # needs explicit environments
    if sm.sites[0].leg.chinfo.qnumber == 0:
        routines = [r for r in routines if r != 'probability_per_charge']
    r = routines[ctx.choice('routine', len(routines))]
    ferm = F.is_fermionic(sm.kind)
    o1, o2, on = ('Cd', 'C', 'N') if ferm else ('Sp', 'Sm', 'Sz')
    fp = fingerprint(psi)
    res = None
    extra = []  # results documented as independent: written through afterwards
    if r == 'expectation_value':
        res = psi.expectation_value(on)
    elif r == 'expectation_value.2site_op':
        legs = [sm.sites[0].leg, sm.sites[1 % L].leg]
        op = Bd.tensor(ctx, 'o', legs + [l.conj() for l in legs], None, cplx=True, labels=['p0', 'p1', 'p0*', 'p1*'])
        d0 = op.to_ndarray().copy()
        res = psi.expectation_value(op, sites=[0])
        ctx.prove_eq(op.to_ndarray(), d0, f'{r}: the operator passed in is unchanged')
        ctx.prove(op.get_leg_labels() == ['p0', 'p1', 'p0*', 'p1*'], f'{r}: labels of the operator passed in are unchanged')
    elif r == 'expectation_value_multi_sites':
        res = psi.expectation_value_multi_sites([on, on], 0)
    elif r == 'expectation_value_term':
        res = psi.expectation_value_term([(o1, 0), (o2, 1)])
    elif r == 'correlation_function':
        res = psi.correlation_function(o1, o2, sites1=[0, 1], sites2=[0, 1])
    elif r == 'term_correlation_function_right':
        res = psi.term_correlation_function_right([(o1, 0)], [(o2, 0)], 0, [1])
    elif r == 'term_correlation_function_left':
        res = psi.term_correlation_function_left([(o1, 0)], [(o2, 0)], [0], 1)
    elif r == 'term_list_correlation_function_right':
        res = psi.term_list_correlation_function_right(TermList([[(o1, 0)]], [1.]), TermList([[(o2, 0)]], [2.]), 0, [1])
    elif r == 'get_rho_segment':
        res = psi.get_rho_segment([0, 1])
        extra.append(res)
    elif r == 'entanglement_entropy':
        res = psi.entanglement_entropy(n=2)
    elif r == 'entanglement_spectrum':
        res = psi.entanglement_spectrum()
        for a in res:  # documented to be new arrays: write through
            a[...] = 3
    elif r == 'probability_per_charge':
        b = 1 if sm.bc != 'infinite' else 0
        ch, ps = psi.probability_per_charge(b)
        ch[...] = 5  # documented copy of the leg charges
        res = psi.average_charge(b)
    elif r == 'expectation_value_terms_sum':
        res, _ = psi.expectation_value_terms_sum(TermList([[(on, 0)], [(o1, 0), (o2, 1)]], [1., 0.5]))
    elif r == 'overlap(self)':
        res = psi.overlap(psi)
    elif r == 'get_theta':
        # every site (stored forms A, B, Th, ...), n = 1, 2, default exponents and the exponents of the stored form of the site
        # (then nothing has to be rescaled and the result must still be independent data)
        n = 1 + ctx.choice('n', 2)
        starts = list(range(L - n + 1)) if sm.bc != 'infinite' else list(range(L))
        i = starts[ctx.choice('i', len(starts))]
        if ctx.choice('exponents', 2) == 0:
            res = psi.get_theta(i, n)
        else:
            fL = psi.form[i][0]
            fR = psi.form[(i + n - 1) % L][1]
            res = psi.get_theta(i, n, formL=fL, formR=fR)
        ctx.prove(res is not psi._B[i % L] and all(x is not y for x in res._data for T in psi._B for y in T._data), f'{r}: the result holds its own data blocks')
        extra.append(res)
    elif r == 'get_B(form change)':
        i = ctx.choice('i', L)
        res = psi.get_B(i, 'G', copy=False)  # no tensor is stored in 'G' form
        ctx.prove(res is not psi._B[i], f'{r}: a form change returns a new tensor')
        extra.append(res)
    elif r == 'extract_segment':
        seg = psi.extract_segment(0, L - 1)
        ctx.prove(seg is not psi and seg._B is not psi._B and all(a is not b for a, b in zip(seg._B, psi._B)), f'{r}: the segment holds its own tensors')
        for T in seg._B:
            extra.append(T)
        for S in seg._S:
            if S is not None:
                S[...] = 9
        seg.form[0] = None
        seg.norm = 17.
    elif r == 'get_grouped_mps':
        g = psi.get_grouped_mps(2)
        ctx.prove(g is not psi and g.grouped == 2 and psi.grouped == 1, f'{r}: grouping acts on a copy')
        for T in g._B:
            extra.append(T)
    else:
        raise ValueError(r)
    ctx.note('routine:' + r)
    unchanged(ctx, fp, r)
    if extra:
        for T in extra:
            _scribble(T)
        unchanged(ctx, fp, r, who='operand after writing through the result')


PAIR = ['overlap', 'overlap(ignore_form)', 'add', 'MPSEnvironment.full_contraction', 'MPSEnvironment.expectation_value', 'MPSEnvironment.get_LP_get_RP']
VARIANTS = ['same', 'shift_all', 'shift_right']


def pair_case(ctx, **p):
    """two operand MPS (independent symbols), outer virtual legs equal or gauged differently"""
    from tenpy.networks.mps import MPSEnvironment
    a = _build(ctx, p, 'a')
    variant = VARIANTS[ctx.choice('variant', len(VARIANTS))] if a.sites[0].leg.chinfo.qnumber else 'same'
    b = _shifted_partner(ctx, a, variant)
    a.psi.norm, b.psi.norm = ctx.real('norm_a', pos=True), ctx.real('norm_b', pos=True)
    r = p['routine']
    which = ctx.choice('order', 2)  # which of the two is `self` / bra
    x, y = (a, b) if which == 0 else (b, a)
    fx, fy = fingerprint(x.psi), fingerprint(y.psi)
    differ = x.psi.outer_virtual_legs() != y.psi.outer_virtual_legs()
    ctx.note('pairs_with_different_outer_legs', int(bool(differ)))
    what = f'{r}[{variant}]'
    if r == 'overlap':
        x.psi.overlap(y.psi)
    elif r == 'overlap(ignore_form)':
        try:
            x.psi.overlap(y.psi, ignore_form=True)
        except ValueError:
            # the TransferMatrix route does not gauge: states with incompatible outer legs are refused; still no operand may change
            ctx.prove(bool(differ), f'{what}: refused only for different outer legs')
    elif r == 'add':
        alpha, beta = ctx.cplx('alpha'), ctx.cplx('beta')
        ctx.assume(alpha != 0)
        ctx.assume(beta != 0)
        try:
            res = x.psi.add(y.psi, alpha, beta)
        except ValueError:
            # states of different total charge cannot be added (grid_concat: wrong qtotal); still no operand may change
            ctx.prove(variant == 'shift_right', f'{what}: refused only for different total charge')
            res = None
        if res is not None:
            ctx.prove(res is not x.psi and res is not y.psi and all(t is not u for t in res._B for u in x.psi._B + y.psi._B), f'{what}: the sum holds its own tensors')
            for T in res._B:
                _scribble(T)
    elif r.startswith('MPSEnvironment'):
        env = MPSEnvironment(x.psi, y.psi)
        ctx.prove(env.ket is y.psi, f'{what}: the environment keeps the ket it was given')
        if not differ:
            ctx.prove(env.bra is x.psi, f'{what}: with equal outer legs the environment keeps the bra it was given')
        if r == 'MPSEnvironment.full_contraction':
            env.full_contraction(ctx.choice('i0', a.L))
        elif r == 'MPSEnvironment.expectation_value':
            env.expectation_value('Sz' if not F.is_fermionic(a.kind) else 'N')
        else:
            i = ctx.choice('i', a.L)
            LP = env.get_LP(i, store=True)
            RP = env.get_RP(i, store=True)
            _scribble(LP.copy(deep=True))
    else:
        raise ValueError(r)
    unchanged(ctx, fx, what, who='first operand (self / bra)')
    unchanged(ctx, fy, what, who='second operand (other / ket)')


def copies_case(ctx, **p):
    """copy() is independent in tensors, singular values, form and norm; get_B(copy=True) is independent;
    get_B(copy=False) without form change is the documented exception (the stored tensor itself)"""
    sm = _build(ctx, p, forms=p.get('forms', 'B'))
    psi = sm.psi
    L = sm.L
    psi.norm = ctx.real('norm', pos=True)
    fp = fingerprint(psi)
    mode = ['copy', 'get_B(copy=True)', 'get_B(copy=False)'][ctx.choice('mode', 3)]
    if mode == 'copy':
        cp = psi.copy()
        ctx.prove(cp is not psi and cp._B is not psi._B and cp._S is not psi._S and cp.form is not psi.form, 'copy: new containers')
        ctx.prove(all(a is not b for a, b in zip(cp._B, psi._B)) and all(x is not y for a, b in zip(cp._B, psi._B) for x in a._data for y in b._data),
                  'copy: new tensors with new data blocks')
        ctx.prove(all(a is not b for a, b in zip(cp._S, psi._S) if a is not None), 'copy: new singular value arrays')
        for i in range(L):
            ctx.prove_eq(cp._B[i].to_ndarray(), fp['B'][i]['dense'], 'copy: same tensor entries')
        for T in cp._B:
            _scribble(T)
        for S in cp._S:
            if S is not None:
                S[...] = 9
        cp.form[0] = None
        cp.norm = 23.
        cp.sites[0] = None
        unchanged(ctx, fp, 'copy', who='original after writing through the copy')
    elif mode == 'get_B(copy=True)':
        i = ctx.choice('i', L)
        T = psi.get_B(i, form=[None, 'B', 'Th'][ctx.choice('form', 3)], copy=True)
        ctx.prove(T is not psi._B[i] and all(x is not y for x in T._data for y in psi._B[i]._data), 'get_B(copy=True): independent data')
        _scribble(T)
        T.iset_leg_labels(['a', 'b', 'c'])
        unchanged(ctx, fp, 'get_B(copy=True)', who='original after writing through the result')
    else:
        i = ctx.choice('i', L)
        T = psi.get_B(i, form=[None, psi.form[i]][ctx.choice('form', 2)], copy=False)  # as stored / the stored form itself
        ctx.prove(T is psi._B[i], 'get_B(copy=False) without form change returns the stored tensor itself (documented)')
        unchanged(ctx, fp, 'get_B(copy=False)')


class _Rng:

    def __init__(self, ctx):
        self.ctx, self.k = ctx, 0

    def choice(self, n, p=None):
        s = self.ctx.choice(f'sigma{self.k}', int(n))
        self.k += 1
        if p is not None:
            if self.ctx.symbolic:
                from symx.scalars import R
                ps = R.lift(p[s])
                bad = ps.poison or (ps.is_const() and ps.const() == 0)
            else:
                bad = not (np.isfinite(p[s]) and p[s] > 0)
            if bad:
                self.ctx.assume(False)
        return s


def sample_alias_case(ctx, **p):
    sm = _build(ctx, p)
    psi = sm.psi
    fp = fingerprint(psi)
    try:
        psi.sample_measurements(p['first'], p['last'], rng=_Rng(ctx), norm_tol=np.inf)
    except ZeroDivisionError:
        ctx.assume(False)
        return
    unchanged(ctx, fp, 'sample_measurements')


# ------------------------------------------------------------------------------------------------
def CASES(tier, seed):
    thorough = tier == 'thorough'
    geoms = [
        dict(kind='spinSz', L=3, chis=[1, 2, 2, 1], bc='finite', variant=1),
        dict(kind='spinSz', L=2, chis=[2, 2, 2], bc='segment', variant=1),
        dict(kind='fermN', L=2, chis=[2, 2, 2], bc='infinite'),
    ]
    if thorough:
        geoms += [dict(kind='spin', L=3, chis=[1, 2, 2, 1], bc='finite'), dict(kind='fermN', L=3, chis=[2, 2, 3, 2], bc='segment', variant=1)]
    O = dict(max_paths=2000, max_wall_s=1500 if thorough else 200, validate_paths=2, hard_timeout_s=1700 if thorough else 230)
    cases = []

    def add(name, fn, g, **kw):
        cases.append(dict(name=name, fn=fn, params=dict(g, **kw), opts=dict(O)))

    for g in geoms:
        gn = f"{g['kind']},L={g['L']},{g['bc']}"
        add(f'mps.single[{gn}]', 'single_case', g, forms=(['A', 'B', 'Th'] * 2)[:g['L']])
        add(f'mps.copies[{gn}]', 'copies_case', g, forms=(['A', 'B', 'Th'] * 2)[:g['L']])
        if g['bc'] != 'infinite':
            for r in PAIR:
                add(f'mps.pair.{r}[{gn}]', 'pair_case', g, routine=r, stub_canonical=(r == 'add'))
        add(f'mps.sample_measurements[{gn}]', 'sample_alias_case', g, first=0, last=1)
        cases[-1]['opts'].update(lazy_abs=True, named_zero_tests=True, guided_with_side=True)
    return cases
