"""Environment model for symbolic mode (part of the trusted base of every claim):
BLAS contract, numpy facade (dtype widening, log/exp/sqrt/norm routing), symbolic charge dtype.
Nothing here is installed in concrete mode.
"""
import numpy as np

from . import scalars as S
from . import engine as E

_installed = {}


def install_blas():
    """scipy BLAS is FFI: for object dtype use the documented contract alpha*a@b + beta*c"""
    import tenpy.linalg.np_conserved as npc
    if 'blas' in _installed:
        return
    orig = npc.BLAS
    orig_fcd = npc._find_calc_dtype
    _installed['blas'] = (orig, orig_fcd)

    class FakeBLAS:

        @staticmethod
        def get_blas_funcs(name, arrays=(), dtype=None):
            if dtype is None or np.dtype(dtype) != object:
                return orig.get_blas_funcs(name, arrays, dtype=dtype)
            if name == 'gemm':

                def gemm(alpha, a, b, beta=0., c=None, trans_a=False, trans_b=False, overwrite_c=False):
                    if trans_a:
                        a = a.T
                    if trans_b:
                        b = b.T
                    r = alpha * np.dot(a, b)
                    if c is not None:
                        r = r + beta * c
                    return r

                return gemm
            if name == 'gemv':

                def gemv(alpha, a, x, beta=0., y=None, trans=False, overwrite_y=False):
                    if trans:
                        a = a.T
                    r = alpha * np.dot(a, x)
                    if y is not None:
                        r = r + beta * y
                    return r

                return gemv
            if name == 'dotu':
                return lambda x, y: np.sum(x.reshape(-1) * y.reshape(-1)) if x.size else 0.
            if name == 'dotc':
                return lambda x, y: np.sum(np.conj(x.reshape(-1)) * y.reshape(-1)) if x.size else 0.
            raise KeyError(name)

        find_best_blas_type = staticmethod(orig.find_best_blas_type)

    npc.BLAS = FakeBLAS

    def fcd(a, b):
        if np.dtype(a) == object or np.dtype(b) == object:
            return np.dtype(object), np.dtype(object)
        return orig_fcd(a, b)

    npc._find_calc_dtype = fcd
    # numpy's own linalg.norm forgets the complex conjugate on object arrays: route it (no dtype widening)
    npc.np = NumpyFacade(widen=False)


def install_symbolic_charges():
    """leg charges may hold symbolic integers"""
    import tenpy.linalg.np_conserved as npc
    from tenpy.linalg import charges
    charges.QTYPE = object
    npc.QTYPE = object


def uninstall_symbolic_charges():
    import tenpy.linalg.np_conserved as npc
    from tenpy.linalg import charges
    charges.QTYPE = np.int_
    npc.QTYPE = np.int_


# ------------------------------------------------------------------------------------------
def _is_obj(x):
    return isinstance(x, np.ndarray) and x.dtype == object


def _lift_arr(x):
    a = np.asarray(x)
    if a.dtype != object:
        o = np.empty(a.shape, dtype=object)
        for idx in np.ndindex(*a.shape):
            o[idx] = S.R.lift(a[idx].item())
        return o
    return a


def sym_norm(x, ord=None, axis=None, keepdims=False):
    x = np.asarray(x)
    if x.dtype != object or not S.has_sym(x):
        if x.dtype == object:
            x = x.astype(complex)
        return np.linalg.norm(x, ord=ord, axis=axis, keepdims=keepdims)
    if axis is not None:
        if isinstance(axis, tuple):
            raise NotImplementedError("norm over tuple axis")
        xm = np.moveaxis(x, axis, -1)
        out = np.empty(xm.shape[:-1], dtype=object)
        for idx in np.ndindex(*out.shape):
            out[idx] = sym_norm(xm[idx], ord)
        return out
    flat = [S.R.lift(v) for v in x.reshape(-1)]
    if ord is None or ord == 2 or ord == 'fro':
        tot = S.R({})
        for v in flat:
            tot = tot + v.abs2()
        w = tot.sqrt()
        if E._CUR[0] is not None and hasattr(E._CUR[0], 'note_norm_parts'):
            E._CUR[0].note_norm_parts(w, flat)  # `norm > 0` is then decided as `some entry != 0` (DESIGN 2(v))
        return w
    if ord == np.inf:
        m = S.R({})
        for v in flat:
            a = abs(v)
            if bool(a > m):
                m = a
        return m
    if ord == 1:
        tot = S.R({})
        for v in flat:
            tot = tot + abs(v)
        return tot
    raise NotImplementedError(f"norm ord={ord}")


class _LinalgFacade:

    def __init__(self, fac):
        self._fac = fac

    def __getattr__(self, k):
        ov = self._fac._linalg_overrides.get(k)
        if ov is not None:
            return ov
        return getattr(np.linalg, k)

    def norm(self, x, ord=None, axis=None, keepdims=False):
        return sym_norm(x, ord, axis, keepdims)


class NumpyFacade:
    """stands in for the module-global ``np`` of a tenpy module under symbolic execution"""

    def __init__(self, widen=True, overrides=None, linalg_overrides=None):
        self._widen = widen
        self._overrides = dict(overrides or {})
        self._linalg_overrides = dict(linalg_overrides or {})
        self.linalg = _LinalgFacade(self)

    def __getattr__(self, k):
        ov = self.__dict__.get('_overrides', {}).get(k)
        if ov is not None:
            return ov
        return getattr(np, k)

    def _w(self, dtype):
        if not self._widen:
            return dtype
        if dtype is None:
            return object
        try:
            if np.dtype(dtype).kind in 'fc':
                return object
        except TypeError:
            pass
        return dtype

    def empty(self, shape, dtype=float, **kw):
        return np.empty(shape, dtype=self._w(dtype), **kw)

    def zeros(self, shape, dtype=float, **kw):
        return np.zeros(shape, dtype=self._w(dtype), **kw)

    def ones(self, shape, dtype=float, **kw):
        return np.ones(shape, dtype=self._w(dtype), **kw)

    def full(self, shape, fill_value, dtype=None, **kw):
        if S.has_sym(fill_value):
            a = np.empty(shape, dtype=object)
            a.fill(fill_value)
            return a
        return np.full(shape, fill_value, dtype=dtype, **kw)

    def zeros_like(self, a, dtype=None, **kw):
        if dtype is None and _is_obj(a):
            return np.zeros(a.shape, dtype=object)
        return np.zeros_like(a, dtype=dtype, **kw)

    def asarray(self, x, dtype=None, **kw):
        if S.has_sym(x):
            return np.asarray(x, dtype=object)
        return np.asarray(x, dtype=dtype, **kw)

    def array(self, x, dtype=None, **kw):
        if S.has_sym(x):
            kw.pop('order', None)
            return np.array(x, dtype=object, **kw)
        return np.array(x, dtype=dtype, **kw)

    def ascontiguousarray(self, x, dtype=None):
        if S.has_sym(x):
            return np.ascontiguousarray(np.asarray(x, dtype=object))
        return np.ascontiguousarray(x, dtype=dtype)

    # elementwise functions that numpy gets wrong / refuses for object arrays
    def _map(self, f, x):
        if isinstance(x, np.ndarray):
            if x.dtype != object:
                return None
            out = np.empty(x.shape, dtype=object)
            for idx in np.ndindex(*x.shape):
                out[idx] = f(S.R.lift(x[idx]) if not isinstance(x[idx], S.I) else x[idx])
            return out
        if S.is_sym(x):
            return f(x)
        return None

    def real(self, x):
        r = self._map(lambda v: v.real, x)
        return np.real(x) if r is None else r

    def imag(self, x):
        r = self._map(lambda v: v.imag, x)
        return np.imag(x) if r is None else r

    def conj(self, x):
        r = self._map(lambda v: v.conjugate(), x)
        return np.conj(x) if r is None else r

    conjugate = conj

    def abs(self, x):
        r = self._map(abs, x)
        return np.abs(x) if r is None else r

    absolute = abs

    def sqrt(self, x):
        r = self._map(lambda v: S.R.lift(v).sqrt(), x)
        return np.sqrt(x) if r is None else r

    def log(self, x):
        # constants also go through the uninterpreted function so that comparisons stay consistent
        if E._CUR[0] is not None and isinstance(x, (int, float, np.floating, np.integer)):
            return S.R.lift(x).log()
        if isinstance(x, np.ndarray) and x.dtype != object and E._CUR[0] is not None and self._widen:
            x = _lift_arr(x)
        r = self._map(lambda v: S.R.lift(v).log(), x)
        return np.log(x) if r is None else r

    def exp(self, x):
        r = self._map(lambda v: S.R.lift(v).exp(), x)
        return np.exp(x) if r is None else r

    def isnan(self, x):
        if _is_obj(x):
            return np.zeros(x.shape, dtype=bool)
        if S.is_sym(x):
            return False
        return np.isnan(x)

    def isfinite(self, x):
        if _is_obj(x):
            return np.ones(x.shape, dtype=bool)
        if S.is_sym(x):
            return True
        return np.isfinite(x)

    def iscomplexobj(self, x):
        if _is_obj(x) or S.is_sym(x):
            return True  # symbolic entries are treated as complex (cf. the conj hook)
        return np.iscomplexobj(x)

    def isrealobj(self, x):
        return not self.iscomplexobj(x)

    def isclose(self, a, b, rtol=1.e-5, atol=1.e-8, equal_nan=False):
        if S.has_sym(a) or S.has_sym(b) or _is_obj(a) or _is_obj(b):
            a = np.asarray(a, dtype=object)
            b = np.asarray(b, dtype=object)
            a, b = np.broadcast_arrays(a, b)
            out = np.empty(a.shape, dtype=bool)
            for idx in np.ndindex(*a.shape):
                out[idx] = bool(abs(a[idx] - b[idx]) <= atol + rtol * abs(b[idx]))
            return out if out.shape else bool(out)
        return np.isclose(a, b, rtol, atol, equal_nan)

    def allclose(self, a, b, rtol=1.e-5, atol=1.e-8, equal_nan=False):
        return bool(np.all(self.isclose(a, b, rtol, atol, equal_nan)))


def facade_for(*modules, widen=True, overrides=None, linalg_overrides=None):
    """replace the global ``np`` of the given tenpy modules; returns a restore function"""
    saved = []
    for mod in modules:
        saved.append((mod, mod.np))
        mod.np = NumpyFacade(widen, overrides, linalg_overrides)

    def restore():
        for mod, old in saved:
            mod.np = old

    return restore


def to_obj(a):
    """object-dtype copy of a numeric array (entries lifted lazily by the scalar operators)"""
    a = np.asarray(a)
    if a.dtype == object:
        return a
    return a.astype(object)


def obj_array(a):
    """make an npc.Array symbolic-ready: dtype=object with the same (numeric) blocks"""
    a = a.copy(deep=True)
    a._data = [to_obj(t) for t in a._data]
    a.dtype = np.dtype(object)
    return a
