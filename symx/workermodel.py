"""Contract model of ``tenpy.tools.thread.Worker`` (C20, part of the trusted base, used in BOTH modes).

The real class is a thread + ``queue.Queue`` + ``threading.Event``; the interpreter's concurrency is not
encodable.  The model keeps the documented contract and turns the scheduler into a *symbolic choice*:

* tasks are executed in FIFO order, each exactly once, atomically (a task = one call ``fct(*args, **kwargs)``
  followed by ``return_dict[return_key] = res``; the main thread only observes results through
  ``return_dict`` and the storage, both of which it reaches only at the synchronisation points below);
* at every synchronisation point (``put_task``, ``join_tasks``, ``__exit__`` and every access of a shared
  dictionary wrapped in :class:`SharedDict`) the worker may have completed any number ``0 .. len(pending)``
  of the pending tasks: the number is ``ctx.choice`` -> every interleaving at these points is a path;
* ``put_task`` blocks while more than ``max_queue_size`` tasks are unfinished in front of it (``max_queue_size``
  queued + the one being executed), i.e. the worker is forced to progress;
* ``join_tasks`` returns after all pending tasks were executed;
* an exception in a task kills the worker: the pending tasks are dropped (the real ``run`` drains the queue),
  ``exit`` is set, and every later ``put_task`` / ``join_tasks`` raises ``WorkerDied`` (the join during which
  it happens raises, too);
* ``__exit__`` lets the worker finish a symbolic number of the pending tasks, drops the rest (the real worker
  tests ``exit.is_set()`` before taking the next task) and stops the thread.

NOT modelled (outside the claim): real threads, the GIL, time-outs of ``Queue.get/put``, deadlock freedom of
``close`` in the real interpreter.

``SCENARIOS`` are fixed scripts that are executed against the model (schedulers "lazy" and "eager") and against the real
``Worker`` (daemon thread, every scenario under a deadline) and compared by ``props.c20_cache_events.model_selftest``
in both modes: plain execution validating the contract, not a solver claim.
"""
from tenpy.tools.thread import WorkerDied

from .seqtools import choice


class _Flag:

    def __init__(self):
        self._v = False

    def is_set(self):
        return self._v

    def set(self):
        self._v = True


class _Thread:

    def __init__(self, worker):
        self._w = worker

    def is_alive(self):
        w = self._w
        return w._entered and not w._stopped and not w.died


class WorkerModel:
    """same public interface as :class:`tenpy.tools.thread.Worker`"""

    def __init__(self, ctx=None, name='tenpy worker', max_queue_size=0, daemon=None, schedule=None):
        self.ctx = ctx
        self.name = name
        self.max_queue_size = max_queue_size
        self.pending = []
        self.exit = _Flag()
        self.worker_exception = None
        self.worker_thread = _Thread(self)
        self._entered = False
        self._stopped = False
        self.died = False
        self.n_sync = 0  # counter naming the choice variables
        self.n_put = 0
        self.done_log = []  # indices (in order of put_task) of executed tasks: FIFO / exactly-once evidence
        self.schedule = schedule  # None: symbolic; 'lazy': progress only when forced; 'eager': always everything

    # ---- scheduler
    def _run_one(self):
        idx, fct, args, kwargs, return_dict, return_key = self.pending.pop(0)
        self.done_log.append(idx)
        try:
            res = fct(*args, **kwargs)
            if return_dict is not None:
                dict.__setitem__(return_dict, return_key, res)  # the worker's own write is not a main-thread sync point
        except Exception as e:  # noqa   (the real run() catches Exception)
            self.worker_exception = e
            self.died = True
            self.exit.set()
            self.pending.clear()  # the real worker drains the queue

    def progress(self, at_least=0):
        """a synchronisation point: the worker completed ``k`` further tasks, ``at_least <= k <= len(pending)``"""
        if self.died or self._stopped or not self._entered:
            return
        n = len(self.pending)
        if n == 0:
            return
        at_least = min(at_least, n)
        if self.schedule == 'lazy':
            k = at_least
        elif self.schedule == 'eager':
            k = n
        else:
            self.n_sync += 1
            k = at_least + choice(self.ctx, f'progress{self.n_sync}', n - at_least + 1)
        for _ in range(k):
            if self.died:
                break
            self._run_one()

    # ---- interface of tenpy.tools.thread.Worker
    def __enter__(self):
        if self._entered:
            raise ValueError("Can't reuse Worker multiple times!")
        self._entered = True
        return self

    def __exit__(self, exc_type, exc, tb):
        if self.worker_thread.is_alive():
            self.progress()
            self.exit.set()
            self.pending.clear()
            self._stopped = True

    def _test_worker_alive(self):
        if not self._entered:
            raise ValueError('Worker needs to be started in `with` statement.')
        if self.exit.is_set() or not self.worker_thread.is_alive():
            raise WorkerDied(self.name + ': either exception occurred or close() was called.')

    def put_task(self, fct, *args, return_dict=None, return_key=None, **kwargs):
        self.progress()
        self._test_worker_alive()
        if self.max_queue_size > 0 and len(self.pending) > self.max_queue_size:
            # queue full: blocks until the worker took a task out of the queue
            self.progress(at_least=len(self.pending) - self.max_queue_size)
            self._test_worker_alive()
        self.pending.append((self.n_put, fct, args, kwargs, return_dict, return_key))
        self.n_put += 1

    def join_tasks(self):
        self._test_worker_alive()
        while self.pending and not self.died:
            self._run_one()
        self._test_worker_alive()


class SharedDict(dict):
    """``ThreadedStorage._loaded``: written by the worker, read by the main thread.  Every main-thread access is a
    synchronisation point at which the worker may have progressed."""

    def __init__(self, worker):
        super().__init__()
        self._worker = worker

    def __contains__(self, k):
        self._worker.progress()
        return dict.__contains__(self, k)

    def __getitem__(self, k):
        self._worker.progress()
        return dict.__getitem__(self, k)

    def __setitem__(self, k, v):
        self._worker.progress()
        dict.__setitem__(self, k, v)

    def __delitem__(self, k):
        self._worker.progress()
        dict.__delitem__(self, k)


def _scenario_fifo(make_worker):
    """FIFO, each task exactly once, join_tasks completes all queued tasks (queue bound forces put_task to block)"""
    log, res = [], {}

    def task(i):
        log.append(i)
        return 10 * i

    w = make_worker().__enter__()
    for i in range(5):
        w.put_task(task, i, return_dict=res, return_key=f'k{i}')
    w.join_tasks()
    out = [('fifo, each once, join completes all', list(log), sorted(res.items())),
           ('alive', w.worker_thread.is_alive(), w.exit.is_set())]
    w.__exit__(None, None, None)
    return out


def _scenario_failing_task(make_worker):
    """a task raises while the caller is already blocked in join_tasks(): WorkerDied, no hang; later put/join raise too"""
    import threading
    log = []

    def task(i, fail=False):
        if fail:
            threading.Event().wait(0.3)  # the caller is inside join_tasks() by now (real Worker); no-op for the model
            log.append(i)
            raise IOError('injected')
        log.append(i)

    out = []
    w = make_worker().__enter__()
    w.put_task(task, 5, fail=True)
    try:
        w.join_tasks()
        out.append(('join while the task fails', 'returned'))
    except WorkerDied:
        out.append(('join while the task fails', 'WorkerDied'))
    for nm, f in (('put', lambda: w.put_task(task, 6)), ('join', w.join_tasks)):
        try:
            f()
            out.append((nm + ' after death', 'returned'))
        except WorkerDied:
            out.append((nm + ' after death', 'WorkerDied'))
    out.append(('task after death not executed', 6 in log))
    w.__exit__(None, None, None)
    out.append(('exit after death returns', True, w.worker_thread.is_alive()))
    return out


def _scenario_failing_task_with_queue(make_worker):
    """tasks queued behind a failing one are dropped and join_tasks still returns (WorkerDied)"""
    import threading
    log = []

    def task(i, fail=False):
        if fail:
            threading.Event().wait(0.3)
            raise IOError('injected')
        log.append(i)

    out = []
    w = make_worker().__enter__()
    try:
        w.put_task(task, 0, fail=True)
        w.put_task(task, 1)
        w.put_task(task, 2)
        w.join_tasks()
        out.append(('put/join with tasks queued behind the failing one', 'returned'))
    except WorkerDied:  # (at the join for the real Worker; an eager scheduler already sees it at the next put)
        out.append(('put/join with tasks queued behind the failing one', 'WorkerDied'))
    out.append(('queued tasks dropped', list(log)))
    w.__exit__(None, None, None)
    return out


def _scenario_clean_exit(make_worker):
    res = {}
    out = []
    w2 = make_worker().__enter__()
    w2.put_task(lambda: 70, return_dict=res, return_key='k7')
    w2.join_tasks()
    w2.__exit__(None, None, None)
    out.append(('clean exit', res.get('k7'), w2.worker_thread.is_alive()))
    try:
        w2.put_task(lambda: 80)
        out.append(('put after exit', 'returned'))
    except WorkerDied:
        out.append(('put after exit', 'WorkerDied'))
    try:
        w2.__enter__()
        out.append(('re-enter', 'returned'))
    except ValueError:
        out.append(('re-enter', 'ValueError'))
    return out


def _scenario_result_visible_after_join(make_worker):
    """after join_tasks() returned the result of every finished task is in its return_dict, also if the worker thread is
    slow exactly when it deposits the result (emulated by a return_dict with a slow __setitem__ in the worker thread)"""
    import threading
    import time
    w = make_worker().__enter__()

    class SlowDict(dict):

        def __setitem__(self, key, val):
            if threading.current_thread() is getattr(w, 'worker_thread', None):
                time.sleep(0.3)
            dict.__setitem__(self, key, val)

    res = SlowDict()
    w.put_task(lambda a, b: a + b, 2, 2, return_dict=res, return_key='2+2')
    w.join_tasks()
    out = [('result deposited when join_tasks returns', res.get('2+2'))]
    w.__exit__(None, None, None)
    return out


SCENARIOS = [('fifo / exactly once / join completes all', _scenario_fifo),
             ('failing task surfaces as WorkerDied, no hang', _scenario_failing_task),
             ('failing task with queued tasks: WorkerDied, no hang', _scenario_failing_task_with_queue),
             ('clean exit', _scenario_clean_exit),
             ('join_tasks returns only after the results are deposited', _scenario_result_visible_after_join)]

HANG = ('HANG', )


def run_scenario(fn, make_worker, deadline_s=None):
    """run one fixed scenario; with a deadline it runs in a daemon helper thread and ``HANG`` is returned if it does not
    come back in time (a hang of the real Worker is an observation, not a stuck check)"""
    if deadline_s is None:
        return fn(make_worker)
    import threading
    box = []

    def target():
        try:
            box.append(fn(make_worker))
        except BaseException as e:  # noqa
            box.append([('scenario raised', type(e).__name__, str(e)[:100])])

    t = threading.Thread(target=target, name='verif-worker-scenario', daemon=True)
    t.start()
    t.join(deadline_s)
    if t.is_alive() or not box:
        return HANG
    return box[0]
