"""Concrete twin of the symbolic context: the *same* harness function is executed on ordinary
float64 / complex128 / int64 values taken from a solver model.  Used (a) to replay every
counterexample against the real code (compiled extension, real BLAS/LAPACK/h5py) before it is
reported and (b) to validate the symbolic embedding on models of explored paths.

No z3 import here: runs under /venv/bin/python.
"""
import hashlib
import traceback
from fractions import Fraction

import numpy as np


class AssumptionViolated(Exception):
    pass


def _default_value(name, seed=0):
    h = hashlib.sha256(f"{seed}:{name}".encode()).digest()
    return (int.from_bytes(h[:4], 'big') % 2000 - 1000) / 257.0


class ConcreteCtx:
    symbolic = False

    def __init__(self, model=None, opts=None):
        self.model = dict(model or {})
        self.opts = dict(opts or {})
        self.failures = []  # (label, detail)
        self.obligations = 0
        self.notes = {}
        self.observed = []
        self.tol = float(self.opts.get('tol', 1e-8))

    # -- inputs
    def _get(self, name, default=None):
        s = self.model.get(name)
        if s is None:
            return default
        if isinstance(s, (int, float)):
            return s
        try:
            return Fraction(s)
        except (ValueError, ZeroDivisionError):
            return float(s)

    def real(self, name, pos=False, nonneg=False):
        v = self._get(name)
        if v is None:
            v = _default_value(name)
            if pos or nonneg:
                v = abs(v) + 0.125
        return float(v)

    def cplx(self, name):
        return complex(self.real(name + '.re'), self.real(name + '.im'))

    def num(self, name, cplx=False):
        return self.cplx(name) if cplx else self.real(name)

    def int(self, name, lo=None, hi=None):
        v = self._get(name)
        if v is None:
            v = lo if lo is not None else 0
        return int(v)

    def choice(self, name, n):
        if n <= 1:
            return 0
        v = self.int(name, 0, n - 1)
        return min(max(v, 0), n - 1)

    def flag(self, name):
        return self.choice(name, 2) == 1

    def array(self, name, shape, cplx=False, pos=False):
        a = np.empty(shape, dtype=complex if cplx else float)
        for idx in np.ndindex(*a.shape):
            nm = name + '_' + '_'.join(map(str, idx)) if idx else name
            a[idx] = self.cplx(nm) if cplx else self.real(nm, pos=pos)
        return a

    def int_array(self, name, shape, lo=None, hi=None):
        a = np.empty(shape, dtype=np.int64)
        for idx in np.ndindex(*a.shape):
            a[idx] = self.int(name + '_' + '_'.join(map(str, idx)), lo, hi)
        return a

    def fresh(self, base, cplx=False, pos=False):
        raise RuntimeError("fresh symbols only exist in symbolic mode (stubs are not installed in concrete mode)")

    fresh_array = fresh

    # -- control
    def assume(self, cond):
        if not bool(cond):
            raise AssumptionViolated()

    def assume_side(self, cond, poly=None):
        pass

    def assume_zero(self, r):
        pass

    def branch(self, cond):
        return bool(cond)

    def reachable(self):
        return True

    def Not(self, a):
        return not bool(a)

    def And(self, *xs):
        return all(bool(x) for x in xs)

    def Or(self, *xs):
        return any(bool(x) for x in xs)

    def Implies(self, a, b):
        return (not bool(a)) or bool(b)

    def note(self, key, value=1):
        self.notes[key] = self.notes.get(key, 0) + value

    def observe(self, label, value):
        self.observed.append((label, value))

    # -- obligations
    def fail(self, label, detail=''):
        self.obligations += 1
        self.failures.append((label, detail))

    def prove(self, cond, label):
        self.obligations += 1
        ok = bool(cond)
        if not ok:
            self.failures.append((label, 'false'))
        return ok

    def prove_eq(self, X, Y, label, tol=None):
        self.obligations += 1
        tol = self.tol if tol is None else tol
        try:
            X = np.asarray(X)
            Y = np.asarray(Y)
            if X.dtype == object:
                X = X.astype(complex)
            if Y.dtype == object:
                Y = Y.astype(complex)
        except Exception as e:
            self.failures.append((label, f'not comparable: {e}'))
            return False
        if X.shape != Y.shape:
            self.failures.append((label, f'shape {X.shape} != {Y.shape}'))
            return False
        self.observed.append((label, [[float(np.real(v)), float(np.imag(v))] for v in X.reshape(-1)[:32]]))
        if X.size == 0:
            return True
        if X.dtype.kind in 'iub' and Y.dtype.kind in 'iub':
            ok = bool(np.all(X == Y))
            err = 0 if ok else 1
        else:
            scale = max(1.0, float(np.max(np.abs(Y))) if np.all(np.isfinite(Y)) else 1.0)
            with np.errstate(all='ignore'):
                err = np.max(np.abs(X - Y))
            ok = bool(np.isfinite(err) and err <= tol * scale)
        if not ok:
            self.failures.append((label, f'max abs difference {err}'))
        return ok

    def prove_close(self, X, Y, label, tol=1e-9):
        return self.prove_eq(X, Y, label, tol)


def run_concrete(fn, model, opts=None):
    """returns dict(failures=[(label, detail)], error=None|str, observed=[...])"""
    ctx = ConcreteCtx(model, opts)
    out = {'failures': [], 'error': None, 'assumption_violated': False, 'observed': []}
    try:
        fn(ctx)
    except AssumptionViolated:
        out['assumption_violated'] = True
    except Exception as e:  # noqa
        tb = traceback.extract_tb(e.__traceback__)
        where = ' < '.join(f"{fr.filename.split('/')[-1]}:{fr.lineno}:{fr.name}" for fr in reversed(tb[-4:]))
        ctx.failures.append((f'exception:{type(e).__name__}', f"{type(e).__name__}: {str(e)[:200]} @ {where}"))
    out['failures'] = ctx.failures
    out['obligations'] = ctx.obligations
    out['observed'] = ctx.observed
    out['notes'] = ctx.notes
    return out
