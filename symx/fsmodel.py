"""File-system model for the crash-safety harness C18 (part of the trusted base, used in BOTH modes).

State: a dict ``name -> File``; a file is *complete* (``written == total``) or a *partial prefix* (the process died
between truncating / creating it and closing it: ``written`` is a symbolic integer in ``[0, total)``).
Every mutating operation is one *step*; the process may die BEFORE any step (``begin_process(crash_at)``):
the step is not executed, :class:`Crash` is raised and every later operation of the dying process (``finally`` blocks,
``with`` exits) is ignored, as for ``kill -9`` / power loss.

Modelled semantics (compared with the real thing in a temporary directory by ``selftest_script``):
* ``exists``; ``unlink`` (FileNotFoundError if missing); ``rename`` / ``replace`` (atomic, silently replaces an existing
  target as on POSIX; FileNotFoundError if the source is missing)
* ``open(name, 'w'/'wb')`` creates / truncates at once (the old content is gone before the new one is written); the
  content written so far is a prefix; after ``close`` the file is complete
* ``open(name, 'rb')`` of a partial file delivers a truncated stream: ``pickle.load`` raises (contract: no proper prefix of
  a pickle loads; checked for every prefix of a real results pickle in the self test)
* ``h5py.File(name, 'w')`` truncates, the file is complete after close; ``h5py.File(name, 'r')`` of a partial or non-HDF5
  file raises OSError (checked with real h5py on truncated files in the self test); the HDF5 content itself is the
  in-memory tree of ``symx.h5model``.
NOT modelled: directories, permissions, fsync / write-back ordering of the real kernel (a completed ``close`` is durable,
a completed ``rename`` is durable and atomic) - outside the claim.
"""
import io
import pathlib

from . import h5model


class Crash(BaseException):
    """the process died (BaseException: no ``except Exception`` of the code under check may swallow it)"""


class File:
    __slots__ = ('data', 'tree', 'written', 'total', 'text')

    def __init__(self):
        self.data = b''
        self.tree = None
        self.written = 0
        self.total = None  # None while the file is open for writing
        self.text = False


_CUR = [None]


class FS:

    def __init__(self, ctx):
        self.ctx = ctx
        self.files = {}
        self.steps = 0
        self.crash_at = None
        self.dead = False
        self.log = []
        self.n_prefix = 0
        self.process = 0
        _CUR[0] = self

    # ---------------------------------------------------------------- process life cycle
    def begin_process(self, crash_at=None):
        """a new process starts (after a crash: resume); it dies before its step number `crash_at` (None: never)"""
        self.steps = 0
        self.crash_at = crash_at
        self.dead = False
        self.process += 1
        # files that were open for writing when the previous process died stay partial
        for f in self.files.values():
            if f.total is None:
                self._make_partial(f, max(len(f.data), 1))

    def _step(self, what):
        """returns False if the operation must be ignored (process already dead); raises Crash if it dies now"""
        if self.dead:
            return False
        k = self.steps
        self.steps += 1
        if self.crash_at is not None and k == self.crash_at:
            self.dead = True
            self.log.append(f'p{self.process}: CRASH before {what}')
            raise Crash(what)
        self.log.append(f'p{self.process}: {what}')
        return True

    def _make_partial(self, f, total):
        self.n_prefix += 1
        f.total = total
        w = self.ctx.int(f'prefix{self.n_prefix}', 0, total - 1)  # symbolic length of the prefix that reached the disk
        f.written = w

    # ---------------------------------------------------------------- operations
    @staticmethod
    def _n(name):
        return str(name)

    def exists(self, name):
        return self._n(name) in self.files

    def unlink(self, name):
        if not self._step(f'unlink {name}'):
            return
        if self._n(name) not in self.files:
            raise FileNotFoundError(2, 'No such file or directory', self._n(name))
        del self.files[self._n(name)]

    def rename(self, src, dst):
        if not self._step(f'rename {src} -> {dst}'):
            return
        if self._n(src) not in self.files:
            raise FileNotFoundError(2, 'No such file or directory', self._n(src))
        self.files[self._n(dst)] = self.files.pop(self._n(src))

    def _truncate(self, name, text=False):
        if not self._step(f'create/truncate {name}'):
            return None
        f = File()
        f.text = text
        self.files[self._n(name)] = f
        return f

    def _finish(self, name, f, data=b'', tree=None, total=None):
        """close of a file opened for writing"""
        if f is None or self.dead:
            return
        total = len(data) if total is None else total
        try:
            self._step(f'write + close {name}')
        except Crash:
            f.data = data
            self._make_partial(f, max(total, 1))
            raise
        f.data = data
        f.tree = tree
        f.written = f.total = max(total, 1)

    def open(self, name, mode='r', *args, **kwargs):
        name = self._n(name)
        if 'w' in mode:
            return _Writer(self, name, self._truncate(name, 'b' not in mode), 'b' in mode)
        if 'r' in mode:
            if name not in self.files:
                raise FileNotFoundError(2, 'No such file or directory', name)
            f = self.files[name]
            if not self.is_complete_now(f):
                return _TruncatedReader()
            return io.BytesIO(f.data) if 'b' in mode else io.StringIO(f.data.decode())
        raise ValueError(f'fsmodel: mode {mode!r} not modelled')

    def h5file(self, name, mode='r', **kwargs):
        name = self._n(name)
        if mode in ('w', 'w-', 'x'):
            if mode != 'w' and name in self.files:
                raise FileExistsError(f'Unable to create file (file exists): {name}')
            return _H5Writer(self, name, self._truncate(name))
        if mode == 'r':
            if name not in self.files:
                raise FileNotFoundError(2, f"Unable to open file (unable to open file: name = '{name}')")
            f = self.files[name]
            if f.tree is None or not self.is_complete_now(f):
                raise OSError('Unable to open file (truncated file / file signature not found)')
            return f.tree
        raise ValueError(f'fsmodel: h5 mode {mode!r} not modelled')

    # ---------------------------------------------------------------- inspection (harness side, never a step)
    def is_complete_now(self, f):
        """Python bool: decided structurally (a file is partial iff its writer did not close)"""
        return f.total is not None and isinstance(f.written, int) and f.written == f.total

    def complete_formula(self, f):
        """the same as a formula over the symbolic prefix length (decided by the solver for all prefix lengths)"""
        if f.total is None:
            return False
        return f.written == f.total

    def snapshot(self):
        return {n: ('complete' if self.is_complete_now(f) else 'partial') + (' text' if f.text else '') for n, f in sorted(self.files.items())}


class _Writer:

    def __init__(self, fs, name, f, binary):
        self.fs, self.name, self.f, self.binary = fs, name, f, binary
        self.buf = []
        self.closed = False

    def write(self, b):
        self.buf.append(b if self.binary else b.encode())
        return len(b)

    def flush(self):
        pass

    def close(self):
        if self.closed:
            return
        self.closed = True
        self.fs._finish(self.name, self.f, b''.join(bytes(x) for x in self.buf))

    def __enter__(self):
        return self

    def __exit__(self, *exc):
        self.close()
        return False


class _TruncatedReader:
    """stream of a partial file: whatever is read, the pickle is cut off"""

    def read(self, n=-1):
        return b''

    def readline(self):
        return b''

    def readinto(self, b):
        return 0

    def close(self):
        pass

    def __enter__(self):
        return self

    def __exit__(self, *exc):
        return False


class _H5Writer(h5model.File):

    def __init__(self, fs, name, f):
        super().__init__(name, 'w')
        self._fs, self._fname, self._f = fs, name, f
        self._closed = False

    def close(self):
        if self._closed:
            return
        self._closed = True
        super().close()
        self._fs._finish(self._fname, self._f, b'', tree=self, total=4096)

    def __exit__(self, *exc):
        self.close()
        return False


class ModelPath(pathlib.PurePosixPath):
    """stands in for ``pathlib.Path`` in tenpy.simulations.simulation (pure path algebra + the modelled file system)"""

    def exists(self):
        return _CUR[0].exists(self)

    def is_file(self):
        return _CUR[0].exists(self)

    def unlink(self, missing_ok=False):
        if missing_ok and not _CUR[0].exists(self):
            return
        _CUR[0].unlink(self)

    def rename(self, target):
        _CUR[0].rename(self, target)
        return type(self)(target)

    replace = rename

    def open(self, mode='r', *args, **kwargs):
        return _CUR[0].open(self, mode)


class _H5Proxy:
    """module-like object replacing ``hdf5_io.h5py``: File goes to the modelled file system, the rest to h5model"""

    def __init__(self, fs):
        self.File = fs.h5file

    def __getattr__(self, k):
        return getattr(h5model, k)


def install(fs):
    """patch what Simulation.save_results / fix_output_filenames / hdf5_io.save / load use; returns restore()"""
    from tenpy.simulations import simulation
    from tenpy.tools import hdf5_io
    saved = [(simulation, 'Path', simulation.Path), (hdf5_io, 'h5py', getattr(hdf5_io, 'h5py', None)),
             (hdf5_io, 'open', hdf5_io.__dict__.get('open', _MISSING)), (simulation, 'os', simulation.os)]
    simulation.Path = ModelPath
    hdf5_io.h5py = _H5Proxy(fs)
    hdf5_io.open = fs.open
    simulation.os = _OsProxy(fs)
    _CUR[0] = fs

    def restore():
        for mod, name, val in saved:
            if val is _MISSING:
                mod.__dict__.pop(name, None)
            else:
                setattr(mod, name, val)

    return restore


_MISSING = object()


class _OsProxy:
    """``os`` of tenpy.simulations.simulation: os.replace / os.rename / os.remove on modelled names, the rest real"""

    def __init__(self, fs):
        self._fs = fs

    def __getattr__(self, k):
        import os
        return getattr(os, k)

    def replace(self, src, dst):
        self._fs.rename(src, dst)

    rename = replace

    def remove(self, name):
        self._fs.unlink(name)

    unlink = remove


# ------------------------------------------------------------------------------------------ self test
def selftest_script(api):
    """file-system facts the model claims; `api` = dict of callables working on names, realised once by the model
    (no crash) and once by the real os / pathlib in a temporary directory"""
    out = []

    def attempt(f):
        try:
            f()
            return 'ok'
        except Exception as e:  # noqa
            return 'raises ' + type(e).__name__

    ex, unlink, rename, write, partial, read = (api[k] for k in ('exists', 'unlink', 'rename', 'write', 'partial', 'read'))
    out.append(('fresh', ex('a'), ex('b')))
    write('a', b'AAAA')
    out.append(('after write', ex('a'), read('a')))
    out.append(('rename a->b', attempt(lambda: rename('a', 'b')), ex('a'), ex('b'), read('b')))
    write('a', b'A2')
    out.append(('rename replaces target', attempt(lambda: rename('a', 'b')), ex('a'), read('b')))
    out.append(('rename missing', attempt(lambda: rename('zz', 'b')), read('b')))
    out.append(('unlink', attempt(lambda: unlink('b')), ex('b')))
    out.append(('unlink missing', attempt(lambda: unlink('b'))))
    write('c', b'OLDOLDOLD')
    partial('c', b'NEW')  # open for writing, write, do NOT close: what is on disk is not the old content any more
    out.append(('open(w) truncates at once', ex('c'), read('c') == b'OLDOLDOLD'))
    out.append(('read missing', attempt(lambda: read('zz'))))
    return out
