"""symx: symbolic execution of the real tenpy code on numpy object arrays (see DESIGN.md section 2)"""
