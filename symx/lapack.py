"""LAPACK / scipy contract stubs for symbolic mode (part of the trusted base of C05 and of every check that
lets tenpy factorise a matrix with symbolic entries).  Nothing here is installed in concrete mode.

A stub replaces one FFI call (`svd_flat`, `np.linalg.qr`, `qr_li`, `np.linalg.eigh/eig/eigvalsh/eigvals`,
`scipy.linalg.expm`) by *fresh symbols* that are constrained by nothing but the documented contract:

    svd      U diag(S) V = A,  U^dagger U = 1 (U U^dagger = 1 if square), V V^dagger = 1 (V^dagger V = 1 if square),
             S real, S >= 0, descending;  consequences given to the branch context: S[k] = 0 for k >= generic rank of the
             block (`generic_rank`), S[0] = 0 iff A = 0; with the case option `generic_rank_exact` also S[k] > 0 below it
    qr       Q R = A, Q^dagger Q = 1 (Q Q^dagger = 1 if square), R upper triangular (literal zeros below the
             diagonal) with real diagonal (LAPACK geqrf);  R[:, j] = 0 for a literally zero column j of A
             (consequence of R = Q^dagger A);  r_jj == 0  <=>  column j of A is zero (see `qr`)
    qr_li    keeps k = generic rank of the block columns (an input of the harness: blocks built as X.Y), Q R = A exactly,
             R in row echelon form on the generic pivot columns
    eigh     H V = V diag(W), V unitary, W real ascending   (H: hermitian matrix read from the UPLO triangle)
    eig      A V = V diag(W), columns of V normalised
    eigvals(h)  the W of eig(h)   (functional consistency)
    expm     unconstrained, but functional (same block -> same symbols) and expm(0) = 1
    speigs   min(k, d) eigenpairs of the given block: A V = V diag(W), columns normalised (tools.math.speigs / ARPACK)

Equalities are registered with ``ctx.assume_zero`` (kept out of the branch-feasibility context, used as hypotheses
by ``prove`` / ``prove_eq``), order / sign constraints on the fresh real symbols go to the branch context.
Every stub is *functional per path*: calling it twice with the same entries returns the same symbols (LAPACK is
deterministic), which lets a harness compare e.g. ``svd(a, cutoff=c)`` with ``svd(a)``.

Model search only (never hypotheses): every stub proposes a simple solution of its contract (isometries = rectangular
identity or signed permutation, well separated spectra) through ``ctx.side_hints / side_hint_values / side_hint_domains``;
``engine.prove_eq`` tries them as solver assumptions when it looks for a counterexample of a failing obligation.

Use: ``symx.lapack.install()`` in ``setup_symbolic`` (after / instead of ``stubs.install_blas()``): patches the module
globals ``svd_flat, qr_li, anynan, scipy, np`` of ``tenpy.linalg.np_conserved`` (numpy facade with widening).
"""
import numpy as np

from . import engine as E
from . import scalars as S

_key_of = E._key_of


def _ctx():
    return E.cur()


def is_obj(a):
    return isinstance(a, np.ndarray) and a.dtype == object


def _lift(a):
    a = np.asarray(a)
    out = np.empty(a.shape, dtype=object)
    for idx in np.ndindex(*a.shape):
        v = a[idx]
        out[idx] = S.R.lift(v if not isinstance(v, np.generic) else v.item())
    return out


def _is_cplx(a):
    return any(not v.is_real() for v in a.reshape(-1))


def _all_zero(vals):
    return all((not v.n) and not v.poison for v in vals)


def _akey(a, *opts):
    return (a.shape, tuple(_key_of(v) for v in a.reshape(-1))) + tuple(opts)


def _memo(ctx):
    m = ctx.__dict__.get('_lapack_memo')
    if m is None:
        m = ctx.__dict__['_lapack_memo'] = {}
    return m


def _zero():
    return S.R({})


def _one():
    return S.R(S._pconst(1))


def fresh_real(ctx, base, nonneg=False):
    """fresh real stub output; nonneg: constrained >= 0 in the branch context (division by it still forks)"""
    ctx._fresh += 1
    nm = f"{base}#{ctx._fresh}"
    r = S.R.var(nm, 'n' if nonneg else 'f')
    if nonneg:
        ctx.solver.add(S.REG.z3v[S.REG.by_name[nm]] >= 0)
    return r


def fresh_matrix(ctx, base, shape, cplx):
    a = np.empty(shape, dtype=object)
    for idx in np.ndindex(*shape):
        a[idx] = ctx.fresh(base + '_' + '_'.join(map(str, idx)), cplx)
    return a


def _dag(a):
    out = np.empty(a.shape[::-1], dtype=object)
    for i, j in np.ndindex(*a.shape):
        out[j, i] = a[i, j].conjugate()
    return out


def _mm(a, b):
    """matrix product of object matrices of R (no numpy dispatch surprises with empty shapes)"""
    n, k = a.shape
    k2, m = b.shape
    assert k == k2
    out = np.empty((n, m), dtype=object)
    for i in range(n):
        for j in range(m):
            t = _zero()
            for l in range(k):
                t = t + a[i, l] * b[l, j]
            out[i, j] = t
    return out


def _assume_zero_matrix(ctx, m):
    for v in m.reshape(-1):
        ctx.assume_zero(v)


def _assume_isometry(ctx, q, both=True):
    """columns of q orthonormal; if q is square (and both) also the rows"""
    n, k = q.shape
    g = _mm(_dag(q), q)
    for i in range(k):
        g[i, i] = g[i, i] - 1
    _assume_zero_matrix(ctx, g)
    if both and n == k:
        g = _mm(q, _dag(q))
        for i in range(n):
            g[i, i] = g[i, i] - 1
        _assume_zero_matrix(ctx, g)


def _hint_identity(ctx, m):
    """model-search hint (never a hypothesis): the rectangular identity solves the isometry contract"""
    hints = ctx.__dict__.setdefault('side_hints', [])
    for (i, j), v in np.ndenumerate(m):
        re, im = v.z3()
        hints.append(re == (1 if i == j else 0))
        if not v.is_real():
            hints.append(im == 0)
    import z3
    doms = ctx.__dict__.setdefault('side_hint_domains', [])
    for v in m.reshape(-1):
        re, im = v.z3()
        doms.append(z3.Or(re == 0, re == 1, re == -1))
        if not v.is_real():
            doms.append(im == 0)


def _hint_values(ctx, vec, vals):
    """model-search hint (never a hypothesis): well separated values for spectra, so that counterexample models are
    robust against floating point when they are replayed"""
    import z3
    hints = ctx.__dict__.setdefault('side_hint_values', [])
    for v, (x, y) in zip(vec, vals):
        re, im = v.z3()
        hints.append(re == z3.RealVal(str(x)))
        if not v.is_real():
            hints.append(im == z3.RealVal(str(y)))


def _zt(r):
    """z3 formula  r == 0  for a polynomial R"""
    import z3
    re, im = r.z3()
    return re == 0 if r.is_real() else z3.And(re == 0, im == 0)


# ----------------------------------------------------------------------------------------------
def make_svd(orig):
    """stub for tenpy.linalg.svd_robust.svd (= np_conserved.svd_flat)"""

    def svd_flat(a, full_matrices=True, compute_uv=True, overwrite_a=False, check_finite=True, lapack_driver='gesdd',
                 warn=True):
        if not is_obj(a):
            return orig(a, full_matrices, compute_uv, overwrite_a, check_finite, lapack_driver, warn)
        ctx = _ctx()
        A = _lift(a)
        M, N = A.shape
        K = min(M, N)
        memo = _memo(ctx)
        ks = _akey(A, 'svd.S')
        Sv = memo.get(ks)
        if Sv is None:
            Sv = np.empty((K, ), dtype=object)
            for k in range(K):
                Sv[k] = fresh_real(ctx, f'svdS_{k}', nonneg=True)
            for k in range(K - 1):
                ctx.solver.add((Sv[k] >= Sv[k + 1]).t if isinstance(Sv[k] >= Sv[k + 1], S.B) else True)
            memo[ks] = Sv
            _hint_values(ctx, Sv, [(f"{2 * (K - k) + 1}/2", 0) for k in range(K)])
            # linear consequences of the contract, given to the branch context so that structurally impossible spectra are
            # not explored:  rank(A) <= number of rows / columns that are not literally zero;  S[0] = ||A||_2 = 0 iff A = 0
            import z3
            grank = generic_rank(A)[0]  # rank(A) <= generic rank at every point
            for k in range(grank, K):
                ctx.solver.add(_zt(Sv[k]))
            if K and grank > 0:
                ctx.solver.add(_zt(Sv[0]) == z3.And([_zt(v) for v in A.reshape(-1) if v.n]))
            if ctx.opts.get('generic_rank_exact'):
                # opt-in (cases whose blocks are built with a chosen rank): the block has exactly its generic rank
                for k in range(grank):
                    ctx.solver.add(z3.Not(_zt(Sv[k])))
                ctx.note(f'svd_rank_{grank}_of_{K}')
        if not compute_uv:
            return Sv.copy()
        ku = _akey(A, 'svd.UV', bool(full_matrices))
        UV = memo.get(ku)
        if UV is None:
            cplx = _is_cplx(A)
            U = fresh_matrix(ctx, 'svdU', (M, M if full_matrices else K), cplx)
            V = fresh_matrix(ctx, 'svdV', (N if full_matrices else K, N), cplx)
            Us = U[:, :K] * Sv[np.newaxis, :] if K else U[:, :K]
            _assume_zero_matrix(ctx, _mm(Us, V[:K, :]) - A if K else A.copy())
            _assume_isometry(ctx, U)
            _assume_isometry(ctx, _dag(V))
            _hint_identity(ctx, U)
            _hint_identity(ctx, V)
            UV = memo[ku] = (U, V)
        U, V = UV
        return U.copy(), Sv.copy(), V.copy()

    return svd_flat


# ----------------------------------------------------------------------------------------------
def _qr_contract(ctx, A, Q, R, tie_zero_columns=True):
    import z3
    M, N = A.shape
    K = R.shape[0]
    _assume_zero_matrix(ctx, _mm(Q, R) - A)
    _assume_isometry(ctx, Q)
    _hint_identity(ctx, Q)
    if not tie_zero_columns:
        return
    for j in range(min(K, N)):
        col0 = z3.And([_zt(A[i, j]) for i in range(M)]) if M else z3.BoolVal(True)
        # exact for j == 0 (|r_00| = norm of the first column).  For j > 0 "<=" is exact (R = Q^dagger A), "=>" restricts the
        # claim to blocks whose exact rank deficiency is a zero column (listed in ASSUMPTIONS of C05): in floating point
        # LAPACK returns an exactly vanishing r_jj essentially only then
        ctx.solver.add(_zt(R[j, j]) == col0)


def make_qr(orig):
    """stub for np.linalg.qr(a, mode) with mode in ('reduced', 'complete')"""

    def qr(a, mode='reduced'):
        if not is_obj(a):
            return orig(a, mode)
        if mode not in ('reduced', 'complete'):
            raise S.SymLeak(f"qr stub: mode {mode!r} not modelled")
        ctx = _ctx()
        A = _lift(a)
        M, N = A.shape
        memo = _memo(ctx)
        key = _akey(A, 'qr', mode)
        QR = memo.get(key)
        if QR is None:
            K = M if mode == 'complete' else min(M, N)
            cplx = _is_cplx(A)
            Q = fresh_matrix(ctx, 'qrQ', (M, K), cplx)
            R = np.empty((K, N), dtype=object)
            for i in range(K):
                for j in range(N):
                    if i > j or _all_zero(A[:, j]):
                        R[i, j] = _zero()
                    elif i == j:
                        R[i, j] = fresh_real(ctx, f'qrR_{i}_{j}')  # LAPACK geqrf: real diagonal
                    else:
                        R[i, j] = ctx.fresh(f'qrR_{i}_{j}', cplx)
            _qr_contract(ctx, A, Q, R)
            QR = memo[key] = (Q, R)
        return QR[0].copy(), QR[1].copy()

    return qr


def _cq_mul(a, b):
    return (a[0] * b[0] - a[1] * b[1], a[0] * b[1] + a[1] * b[0])


def _cq_div(a, b):
    n = b[0] * b[0] + b[1] * b[1]
    return ((a[0] * b[0] + a[1] * b[1]) / n, (a[1] * b[0] - a[0] * b[1]) / n)


def generic_rank(A, tries=2, seed=20260925):
    """(rank, pivot columns) of a matrix of polynomials at a generic point: exact Gaussian elimination over Q(i) at random
    rational values of all variables (the maximum over `tries` points).  The rank at *every* point is <= this rank; it is
    equal for all values outside a proper algebraic subset (e.g. for a block built as a product X.Y with inner dimension
    r it is r, also after tenpy permuted / merged blocks)."""
    import random
    from fractions import Fraction
    M, N = A.shape
    vs = set()
    for v in A.reshape(-1):
        v.vars(vs)
    best = (0, [])
    rnd = random.Random(seed)
    for _ in range(tries):
        val = {v: Fraction(rnd.randint(1, 997), rnd.choice([7, 11, 13, 17, 19])) * rnd.choice([1, -1] if S.REG.kind[v] not in 'pn' else [1])
               for v in sorted(vs)}
        rows = [[tuple(Fraction(x) for x in A[i, j].evalf(val)) for j in range(N)] for i in range(M)]
        piv = []
        r = 0
        for j in range(N):
            p = next((i for i in range(r, M) if rows[i][j] != (0, 0)), None)
            if p is None:
                continue
            rows[r], rows[p] = rows[p], rows[r]
            for i in range(r + 1, M):
                if rows[i][j] != (0, 0):
                    f = _cq_div(rows[i][j], rows[r][j])
                    rows[i] = [(x[0] - _cq_mul(f, y)[0], x[1] - _cq_mul(f, y)[1]) for x, y in zip(rows[i], rows[r])]
            piv.append(j)
            r += 1
            if r == M:
                break
        if r > best[0]:
            best = (r, piv)
    return best


def make_qr_li(orig):
    """stub for tenpy.tools.math.qr_li(A, cutoff): rank revealing QR.

    The number k of kept columns is the *generic rank* of the block (see `generic_rank`): the rank is an input of the
    harness (blocks built as products X.Y), not a fork on stub output, so that the symbolic path and the concrete replay with
    the real qr_li (cutoff well above rounding) keep the same number of columns.  Contract: Q (M,k) isometry, Q R = A,
    R (k,N) in row echelon form with the generic pivot columns p_0 < p_1 < ... of A (R[i,j] = 0 for j < p_i, which is
    R = Q^dagger A for the Gram-Schmidt basis of the pivot columns); where the pivots are the leading columns (p_i = i,
    "upper right") the diagonal is real (LAPACK) with |r_ii| > cutoff (documented)."""

    def qr_li(A_, cutoff=1.e-15):
        if not is_obj(A_):
            return orig(A_, cutoff)
        ctx = _ctx()
        A = _lift(A_)
        M, N = A.shape
        memo = _memo(ctx)
        key = _akey(A, 'qr_li')
        QR = memo.get(key)
        if QR is None:
            k, piv = generic_rank(A)
            cplx = _is_cplx(A)
            Q = fresh_matrix(ctx, 'qrliQ', (M, k), cplx)
            R = np.empty((k, N), dtype=object)
            import z3
            c = S.R.lift(cutoff).z3()[0]
            leading = True
            for i in range(k):
                leading = leading and piv[i] == i
                for j in range(N):
                    if j < piv[i]:
                        R[i, j] = _zero()
                    elif j == piv[i] and leading:
                        R[i, j] = fresh_real(ctx, f'qrliR_{i}_{j}')
                        r = R[i, j].z3()[0]
                        ctx.solver.add(z3.Or(r > c, r < -c))
                    else:
                        R[i, j] = ctx.fresh(f'qrliR_{i}_{j}', cplx)
            if k:
                _qr_contract(ctx, A, Q, R, tie_zero_columns=False)
            ctx.note(f'qr_li_rank_{k}_of_{min(M, N)}')
            QR = memo[key] = (Q, R)
        return QR[0].copy(), QR[1].copy()

    return qr_li


# ----------------------------------------------------------------------------------------------
def _herm_from(A, UPLO):
    n = A.shape[0]
    H = np.empty((n, n), dtype=object)
    low = str(UPLO).upper() == 'L'
    for i in range(n):
        for j in range(n):
            if i == j:
                H[i, j] = A[i, i].real
            elif (i > j) == low:
                H[i, j] = A[i, j]
            else:
                H[i, j] = A[j, i].conjugate()
    return H


def _eigh_w(ctx, H):
    import z3
    memo = _memo(ctx)
    key = _akey(H, 'eigh.W')
    W = memo.get(key)
    if W is None:
        n = H.shape[0]
        W = np.empty((n, ), dtype=object)
        for k in range(n):
            W[k] = fresh_real(ctx, f'eighW_{k}')
        for k in range(n - 1):
            c = W[k] <= W[k + 1]
            ctx.solver.add(c.t if isinstance(c, S.B) else z3.BoolVal(bool(c)))
        _hint_values(ctx, W, [(f"{2 * k - 1}/2", 0) for k in range(n)])
        memo[key] = W
    return W


def make_eigh(orig):

    def eigh(a, UPLO='L'):
        if not is_obj(a):
            return orig(a, UPLO)
        ctx = _ctx()
        A = _lift(a)
        if A.ndim != 2 or A.shape[0] != A.shape[1]:
            raise np.linalg.LinAlgError("Last 2 dimensions of the array must be square")
        H = _herm_from(A, UPLO)
        W = _eigh_w(ctx, H)
        memo = _memo(ctx)
        key = _akey(H, 'eigh.V')
        V = memo.get(key)
        if V is None:
            n = H.shape[0]
            V = fresh_matrix(ctx, 'eighV', (n, n), _is_cplx(H))
            _assume_zero_matrix(ctx, _mm(H, V) - V * W[np.newaxis, :])
            _assume_isometry(ctx, V)
            _hint_identity(ctx, V)
            memo[key] = V
        return W.copy(), V.copy()

    return eigh


def make_eigvalsh(orig):

    def eigvalsh(a, UPLO='L'):
        if not is_obj(a):
            return orig(a, UPLO)
        A = _lift(a)
        return _eigh_w(_ctx(), _herm_from(A, UPLO)).copy()

    return eigvalsh


def _eig_w(ctx, A):
    memo = _memo(ctx)
    key = _akey(A, 'eig.W')
    W = memo.get(key)
    if W is None:
        n = A.shape[0]
        W = np.empty((n, ), dtype=object)
        for k in range(n):
            W[k] = ctx.fresh(f'eigW_{k}', True)
        _hint_values(ctx, W, [(f"{2 * k - 1}/2", f"{k + 1}/3") for k in range(n)])
        memo[key] = W
    return W


def make_eig(orig):

    def eig(a):
        if not is_obj(a):
            return orig(a)
        ctx = _ctx()
        A = _lift(a)
        if A.ndim != 2 or A.shape[0] != A.shape[1]:
            raise np.linalg.LinAlgError("Last 2 dimensions of the array must be square")
        W = _eig_w(ctx, A)
        memo = _memo(ctx)
        key = _akey(A, 'eig.V')
        V = memo.get(key)
        if V is None:
            n = A.shape[0]
            V = fresh_matrix(ctx, 'eigV', (n, n), True)
            _assume_zero_matrix(ctx, _mm(A, V) - V * W[np.newaxis, :])
            for k in range(n):  # normalised columns
                t = _zero()
                for i in range(n):
                    t = t + V[i, k].abs2()
                ctx.assume_zero(t - 1)
            _hint_identity(ctx, V)
            memo[key] = V
        return W.copy(), V.copy()

    return eig


def make_eigvals(orig):

    def eigvals(a):
        if not is_obj(a):
            return orig(a)
        return _eig_w(_ctx(), _lift(a)).copy()

    return eigvals


# ----------------------------------------------------------------------------------------------
def make_expm(orig):
    """scipy.linalg.expm: unconstrained but functional; expm(0) = 1"""

    def expm(a):
        if not is_obj(a):
            return orig(a)
        ctx = _ctx()
        A = _lift(a)
        n = A.shape[0]
        if _all_zero(A.reshape(-1)):
            out = np.empty((n, n), dtype=object)
            for i, j in np.ndindex(n, n):
                out[i, j] = _one() if i == j else _zero()
            return out
        memo = _memo(ctx)
        key = _akey(A, 'expm')
        Ex = memo.get(key)
        if Ex is None:
            Ex = memo[key] = fresh_matrix(ctx, 'expm', (n, n), _is_cplx(A))
        return Ex.copy()

    return expm


def make_speigs(orig):
    """stub for tenpy.tools.math.speigs (= np_conserved._sp_speigs; ARPACK or dense eig for small blocks): min(k, d) fresh
    eigenpairs of the block it is GIVEN: A V = V diag(W), columns of V normalised; no ordering (`which` is not modelled).
    The blocks handed over are recorded in ctx._speigs_blocks."""

    def speigs(A_, k, *args, **kwargs):
        if not is_obj(A_):
            return orig(A_, k, *args, **kwargs)
        ctx = _ctx()
        A = _lift(A_)
        d = A.shape[0]
        if A.shape != (d, d):
            raise ValueError('A.shape not a square matrix: ' + str(A.shape))
        ctx.__dict__.setdefault('_speigs_blocks', []).append(A)
        kk = min(int(k), d)
        ret_eigv = kwargs.get('return_eigenvectors', args[7] if len(args) > 7 else True)
        memo = _memo(ctx)
        key = _akey(A, 'speigs', kk)
        WV = memo.get(key)
        if WV is None:
            W = np.empty((kk, ), dtype=object)
            for i in range(kk):
                W[i] = ctx.fresh(f'speigsW_{i}', True)
            V = fresh_matrix(ctx, 'speigsV', (d, kk), True)
            if kk:
                _assume_zero_matrix(ctx, _mm(A, V) - V * W[np.newaxis, :])
            for i in range(kk):
                t = _zero()
                for j in range(d):
                    t = t + V[j, i].abs2()
                ctx.assume_zero(t - 1)
            _hint_identity(ctx, V)
            _hint_values(ctx, W, [(f"{2 * i + 1}/2", f"{i + 1}/3") for i in range(kk)])
            WV = memo[key] = (W, V)
        if ret_eigv:
            return WV[0].copy(), WV[1].copy()
        return WV[0].copy()

    return speigs


class _ScipyLinalgFacade:

    def __init__(self, orig, overrides):
        self._orig = orig
        self._ov = overrides

    def __getattr__(self, k):
        ov = self.__dict__['_ov'].get(k)
        return ov if ov is not None else getattr(self.__dict__['_orig'], k)


class _ScipyFacade:

    def __init__(self, orig, linalg):
        self._orig = orig
        self.linalg = linalg

    def __getattr__(self, k):
        return getattr(self.__dict__['_orig'], k)


_installed = {}


def install(npc=None):
    """install every stub on tenpy.linalg.np_conserved (symbolic mode only; call after stubs.install_blas())"""
    import scipy
    import scipy.linalg
    from . import stubs
    if npc is None:
        import tenpy.linalg.np_conserved as npc
    if 'lapack' in _installed:
        return _installed['lapack']
    stubs.install_blas()
    fns = dict(
        svd_flat=make_svd(npc.svd_flat),
        qr=make_qr(np.linalg.qr),
        qr_li=make_qr_li(npc.qr_li),
        eigh=make_eigh(np.linalg.eigh),
        eig=make_eig(np.linalg.eig),
        eigvalsh=make_eigvalsh(np.linalg.eigvalsh),
        eigvals=make_eigvals(np.linalg.eigvals),
        expm=make_expm(scipy.linalg.expm),
        speigs=make_speigs(npc._sp_speigs),
    )
    npc.svd_flat = fns['svd_flat']
    npc.qr_li = fns['qr_li']
    npc._sp_speigs = fns['speigs']
    npc.anynan = lambda a: False if is_obj(a) else bool(np.isnan(np.sum(a)))
    npc.scipy = _ScipyFacade(scipy, _ScipyLinalgFacade(scipy.linalg, {'expm': fns['expm']}))
    npc.np = stubs.NumpyFacade(widen=True, linalg_overrides={k: fns[k] for k in ('qr', 'eigh', 'eig', 'eigvalsh', 'eigvals')})
    _installed['lapack'] = fns
    return fns
