"""In-memory model of the subset of h5py that tenpy's Hdf5Saver / Hdf5Loader (and Hdf5Storage) use.

h5py is I/O behind FFI.  The model keeps groups, datasets, attributes and hard links (one node, many
names, one ``id``) as Python objects, follows h5py 3.x's observable conventions (names iterate in
sorted order, scalars come back as numpy scalars, ``str`` data as ``bytes`` unless read through
``asstr()``, attribute ints/bools as ``np.int64``/``np.bool_``, re-creating an existing link raises)
and deliberately deviates in one point: ``dtype=object`` arrays and scalars that wrap *symbolic*
values are stored as they are (real h5py raises ``TypeError``: no native HDF5 equivalent) - this is
what lets the real tenpy export code run on symbolic charges / entries.  Python ints outside the
64-bit range still raise that ``TypeError`` (tenpy's ``REPR_INT_AS_STR`` fallback depends on it).
The model is validated against the real h5py once per run (props/c17_hdf5.py: ``model_vs_real_h5py``).
No z3 import: usable under /venv/bin/python as well.
"""
import numbers
import types

import numpy as np

version = types.SimpleNamespace(version_tuple=(3, 16, 0, None, None, None), version='3.16.0-model')
_NO_NATIVE = "Object dtype dtype('O') has no native HDF5 equivalent"


class Empty:
    """h5py.Empty (null dataspace); tenpy never creates one, present for isinstance checks"""

    def __init__(self, dtype):
        self.dtype = np.dtype(dtype)


def string_dtype(encoding='utf-8', length=None):
    return np.dtype(object)


def _plain_number(x):
    return isinstance(x, (bool, int, float, complex, np.generic))


def _convert(value, attr=False):
    """value as HDF5 would hold it -> (kind, payload); kind in {'str', 'bytes', 'array'}"""
    if isinstance(value, str):
        return 'str', value
    if isinstance(value, (bytes, np.bytes_)):
        return ('str', bytes(value).decode()) if attr else ('bytes', bytes(value))
    if isinstance(value, np.ndarray):
        a = np.array(value)  # copy: later changes of the caller's array do not reach the "file"
    elif isinstance(value, (list, tuple)):
        a = np.asarray(value, dtype=object) if any(isinstance(v, str) for v in value) else np.asarray(value)
        if a.size == 0:
            a = np.asarray(value, dtype=np.float64)
    elif _plain_number(value):
        a = np.asarray(value)
    elif isinstance(value, numbers.Number):  # symbolic scalar (symx.scalars.R / I): kept as is
        a = np.empty((), dtype=object)
        a[()] = value
    else:
        raise TypeError(f"{_NO_NATIVE} (h5model: {type(value).__name__})")
    if a.dtype == object:
        for v in a.reshape(-1):
            if isinstance(v, int) and not -2**63 <= v < 2**64:
                raise TypeError(_NO_NATIVE)  # Python int beyond 64 bit
            if not isinstance(v, (numbers.Number, str)):
                raise TypeError(_NO_NATIVE)
    return 'array', a


def _read(kind, payload, as_str=False):
    if kind == 'str':
        return payload if as_str else payload.encode()
    if kind == 'bytes':
        return payload.decode() if as_str else payload
    if payload.ndim == 0:
        return payload[()]  # numpy scalar (or the symbolic object)
    return payload.copy()


class _Id:
    """identity of an HDF5 object: shared by all hard links to it"""
    __slots__ = ('node', )

    def __init__(self, node):
        self.node = node

    def __eq__(self, other):
        return isinstance(other, _Id) and other.node is self.node

    def __hash__(self):
        return id(self.node)


class AttributeManager:

    def __init__(self):
        self._d = {}

    def __setitem__(self, name, value):
        self._d[name] = _convert(value, attr=True)

    def __getitem__(self, name):
        if name not in self._d:
            raise KeyError(f"Unable to synchronously open attribute (can't locate attribute: {name!r})")
        return _read(*self._d[name], as_str=True)

    def get(self, name, default=None):
        return self[name] if name in self._d else default

    def __contains__(self, name):
        return name in self._d

    def keys(self):
        return sorted(self._d)

    __iter__ = lambda self: iter(self.keys())

    def items(self):
        return [(k, self[k]) for k in self.keys()]

    def __len__(self):
        return len(self._d)


class _Node:

    def __init__(self, file, name):
        self.file = file if file is not None else self
        self.name = name  # the name under which the object was created (h5py reports the access path instead)
        self.attrs = AttributeManager()
        self.id = _Id(self)

    def __eq__(self, other):
        return isinstance(other, _Node) and other.id == self.id

    def __hash__(self):
        return hash(self.id)


class Dataset(_Node):

    def __init__(self, file, name, data):
        super().__init__(file, name)
        self._kind, self._payload = _convert(data)

    @property
    def dtype(self):
        return self._payload.dtype if self._kind == 'array' else np.dtype(object)

    @property
    def shape(self):
        return self._payload.shape if self._kind == 'array' else ()

    def __getitem__(self, key):
        if key is Ellipsis or (isinstance(key, tuple) and key == ()):
            v = _read(self._kind, self._payload)
            if key is Ellipsis and self._kind == 'array' and not isinstance(v, np.ndarray):
                return self._payload.copy()  # [...] of a scalar dataset: 0-d array
            return v
        return self._payload[key].copy() if isinstance(self._payload[key], np.ndarray) else self._payload[key]

    def asstr(self, encoding=None, errors='strict'):
        if self._kind == 'array':
            raise TypeError('dset.asstr() can only be used on datasets with an HDF5 string datatype')
        return _AsStr(self)

    def __len__(self):
        return self.shape[0]


class _AsStr:

    def __init__(self, ds):
        self._ds = ds

    def __getitem__(self, key):
        return _read(self._ds._kind, self._ds._payload, as_str=True)


class Group(_Node):

    def __init__(self, file, name):
        super().__init__(file, name)
        self._links = {}

    # -- path handling: absolute paths start at the file root, intermediate groups are created on demand
    def _walk(self, path, create=False):
        """-> (parent group, last component); last component '' means the group itself"""
        if isinstance(path, bytes):
            path = path.decode()
        if not isinstance(path, str):
            raise TypeError(f"Accessing a group is done with bytes or str, not {type(path)}")
        gr = self.file if path.startswith('/') else self
        parts = [p for p in path.split('/') if p not in ('', '.')]
        if not parts:
            return gr, ''
        for p in parts[:-1]:
            nxt = gr._links.get(p)
            if nxt is None:
                if not create:
                    raise KeyError(f"Unable to synchronously open object (component not found: {p!r})")
                nxt = Group(self.file, (gr.name.rstrip('/') + '/' + p))
                gr._links[p] = nxt
            if not isinstance(nxt, Group):
                raise KeyError(f"Unable to synchronously open object ({p!r} is not a group)")
            gr = nxt
        return gr, parts[-1]

    def create_group(self, name):
        gr, last = self._walk(name, create=True)
        if last == '' or last in gr._links:
            raise ValueError("Unable to synchronously create group (name already exists)")
        new = Group(self.file, gr.name.rstrip('/') + '/' + last)
        gr._links[last] = new
        return new

    def create_dataset(self, name, shape=None, dtype=None, data=None):
        ds = Dataset(self.file, None, data if dtype is None else np.asarray(data, dtype=dtype))
        if name is not None:
            self[name] = ds
        return ds

    def __setitem__(self, name, obj):
        gr, last = self._walk(name, create=True)
        if last == '' or last in gr._links:
            raise OSError("Unable to create link (name already exists)")
        if isinstance(obj, _Node):
            gr._links[last] = obj  # hard link: same node, same id
        else:
            gr._links[last] = Dataset(self.file, gr.name.rstrip('/') + '/' + last, obj)

    def __getitem__(self, name):
        gr, last = self._walk(name)
        if last == '':
            return gr
        if last not in gr._links:
            raise KeyError(f"Unable to synchronously open object (object {last!r} doesn't exist)")
        return gr._links[last]

    def __delitem__(self, name):
        gr, last = self._walk(name)
        if last not in gr._links:
            raise KeyError(f"Couldn't delete link (name doesn't exist: {last!r})")
        del gr._links[last]

    def __contains__(self, name):
        try:
            self[name]
            return True
        except (KeyError, TypeError):
            return False

    def get(self, name, default=None):
        return self[name] if name in self else default

    def keys(self):
        return sorted(self._links)

    def __iter__(self):
        return iter(self.keys())

    def values(self):
        return [self._links[k] for k in self.keys()]

    def items(self):
        return [(k, self._links[k]) for k in self.keys()]

    def __len__(self):
        return len(self._links)

    @property
    def parent(self):
        return self.file[self.name.rsplit('/', 1)[0] or '/']


class File(Group):
    """``File()`` (no name) or ``File(name, mode)``: an in-memory tree; ``with`` works, close() is a no-op so that
    the same object can be handed to the loader afterwards (= re-opening the written file)"""

    def __init__(self, filename=None, mode='r', **kwargs):
        super().__init__(None, '/')
        self.filename = filename
        self.mode = mode
        self._open = True

    def __enter__(self):
        return self

    def __exit__(self, *exc):
        self.close()

    def close(self):
        self._open = False

    def flush(self):
        pass

    def __bool__(self):
        return self._open


def install():
    """make tenpy use the model: as module ``h5py`` (so that hdf5_io's import-time version switches see an
    h5py >= 3) and as the module-global ``h5py`` of tenpy.tools.hdf5_io if that was imported before"""
    import sys
    me = sys.modules[__name__]
    sys.modules['h5py'] = me
    from tenpy.tools import hdf5_io
    hdf5_io.h5py = me
    hdf5_io.h5py_version = version.version_tuple
    hdf5_io.Hdf5Loader.dispatch_load[hdf5_io.REPR_STR] = (hdf5_io.Hdf5Loader.load_str, str)
    return me
