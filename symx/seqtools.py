"""Helpers for the sequence / history harnesses (C14, C18, C20).  No z3 import: usable in both modes."""
import os
import tempfile


def choice(ctx, name, n):
    """same meaning as ``ctx.choice(name, n)`` (bounded symbolic selector, every value is a path, the value is
    recorded under `name` in the model).  For selectors that are independent of all other inputs (operation,
    key, crash point, worker progress ...) the engine enumerates the values by bisection decisions
    (``SymCtx.free_choice``), which avoids one solver query per candidate value each time a path is re-executed."""
    if n <= 1:
        return 0
    if ctx.symbolic and hasattr(ctx, 'free_choice'):
        return ctx.free_choice(name, n)
    return ctx.choice(name, n)


class StopPath(Exception):
    """raised by a harness after the first divergence on a path (later steps would only repeat it)"""


def scratch_base():
    """directory for the short-lived per-path temporary directories: tmpfs if there is one (a path of a cache
    harness creates and removes a directory; on the overlay file system that alone costs ~3 ms per path)"""
    b = os.environ.get('VERIF_TMP')
    if b and os.path.isdir(b):
        return b
    if os.path.isdir('/dev/shm') and os.access('/dev/shm', os.W_OK):
        return '/dev/shm'
    return None


def tempdir(prefix):
    return tempfile.TemporaryDirectory(prefix=prefix, dir=scratch_base())
