import argparse
import glob
import os
import sys


def main():
    ap = argparse.ArgumentParser()
    ap.add_argument('prop')
    ap.add_argument('--tier', default=os.environ.get('VERIF_TIER', 'quick'))
    ap.add_argument('--replay')
    ap.add_argument('--only', nargs='*')
    ap.add_argument('--nproc', type=int, default=int(os.environ.get('VERIF_NPROC', '16')))
    a = ap.parse_args()
    seed = int(os.environ.get('VERIF_SEED', '0') or 0)
    from symx import runner
    if a.replay:
        sys.exit(runner.replay_file(a.replay))
    here = os.path.dirname(os.path.dirname(os.path.abspath(__file__)))
    cands = glob.glob(os.path.join(here, 'props', a.prop.lower() + '_*.py')) + glob.glob(
        os.path.join(here, 'props', a.prop.lower() + '.py'))
    if not cands:
        print(f"no harness module for {a.prop}")
        sys.exit(3)
    modname = 'props.' + os.path.basename(cands[0])[:-3]
    tier = a.tier if a.tier in ('quick', 'thorough') else 'quick'
    sys.exit(runner.run_property(modname, tier, seed, a.nproc, a.only))


if __name__ == '__main__':
    main()
