"""Contract reasoning for polynomial obligations: is the canonical difference ``d`` of an obligation a combination
``sum_g  c_g * m_g * h_g``  of contract hypotheses ``h_g == 0`` (registered with ``ctx.assume_zero``) with monomial
multipliers ``m_g`` and rational (complex rational) coefficients ``c_g``?

Such a combination is a *certificate* that ``d == 0`` follows from the hypotheses.  The search is a bounded
Macaulay-matrix construction (multipliers = quotients of monomials of ``d`` by monomials of a hypothesis, at most
``rounds`` closure rounds); the coefficients are found by z3 (linear real arithmetic), and the certificate is then
re-checked in exact rational arithmetic (``sum - d`` must be the zero polynomial), so a wrong answer of the search
cannot turn into a wrong ``proved``.

To keep products of complex matrices compact the polynomials are rewritten over formal variables ``z, zbar`` for
every complex symbol ``name.re + i name.im``  (x = (z+zbar)/2, y = (z-zbar)/(2i)); this is a ring isomorphism, so
membership is unaffected.
"""
import time
from fractions import Fraction

import z3

from . import scalars as S


def _pairs(reg):
    """varid -> ('z', base_id, other_id) for .re/.im pairs, else None"""
    cache = getattr(reg, '_ideal_pairs', None)
    if cache is not None and cache[0] == len(reg.names):
        return cache[1]
    m = {}
    for i, nm in enumerate(reg.names):
        if nm.endswith('.re'):
            j = reg.by_name.get(nm[:-3] + '.im')
            if j is not None:
                m[i] = ('re', i)
                m[j] = ('im', i)
    reg._ideal_pairs = (len(reg.names), m)
    return m


def _mul(a, b):
    return S._pmul_raw(a, b)


def _powp(p, e):
    r = {(): (1, 0)}
    for _ in range(e):
        r = _mul(r, p)
    return r


_HALF = Fraction(1, 2)


def to_formal(poly, reg):
    """dict monomial->(re,im) over real vars  ->  same over formal vars (3*v: real var / z, 3*v+1: zbar)"""
    pairs = _pairs(reg)
    out = {}
    cache = {}
    for m, c in poly.items():
        term = {(): c}
        plain = []
        for v, e in m:
            pr = pairs.get(v)
            if pr is None or e < 0:
                # (a negative power of one half of a complex pair stays a separate formal variable 3v+2 -> value of var v)
                plain.append((3 * v if pr is None else 3 * v + 2, e))
                continue
            key = (v, e)
            f = cache.get(key)
            if f is None:
                z = ((3 * pr[1], 1), )
                zb = ((3 * pr[1] + 1, 1), )
                if pr[0] == 're':
                    base = {z: (_HALF, 0), zb: (_HALF, 0)}
                else:  # y = (z - zbar)/(2i) = -i/2 z + i/2 zbar
                    base = {z: (0, -_HALF), zb: (0, _HALF)}
                f = cache[key] = _powp(base, e)
            term = _mul(term, f)
        if plain:
            pm = tuple(sorted(plain))
            term = {S._mmul(mm, pm): cc for mm, cc in term.items()}
        out = S._padd(out, term)
    return out


def _deg(m):
    return sum(abs(e) for _, e in m)


def _divides(u, t):
    """u | t for monomials with positive exponents in u; returns quotient or None"""
    if not u:
        return t
    td = dict(t)
    for v, e in u:
        te = td.get(v, 0)
        if e <= 0 or te < e:
            return None
        if te == e:
            del td[v]
        else:
            td[v] = te - e
    return tuple(sorted(td.items()))


def _shift(h, m):
    if not m:
        return h
    return {S._mmul(mm, m): c for mm, c in h.items()}


def certificate(d, hyps, max_gens=6000, rounds=3, timeout_ms=8000, slack=2):
    """d, hyps: formal polynomials.  Returns list of (hyp index, multiplier, (cre, cim)) or None"""
    if not d:
        return []
    maxdeg = max(_deg(m) for m in d) + slack
    T = set(d)
    gens = {}
    frontier = set(T)
    # index hypotheses by variable for quick candidate look-up
    for rnd in range(rounds):
        new_monos = set()
        for t in frontier:
            tv = {v for v, _ in t}
            for hi, h in enumerate(hyps):
                for u in h:
                    if not u or not all(v in tv for v, _ in u):
                        continue  # (constant terms are never used as divisors: they only produce unrelated multiples)
                    m = _divides(u, t)
                    if m is None or (hi, m) in gens:
                        continue
                    g = _shift(h, m)
                    if max(_deg(x) for x in g) > maxdeg:
                        continue
                    gens[(hi, m)] = g
                    for x in g:
                        if x not in T:
                            new_monos.add(x)
                    if len(gens) > max_gens:
                        break
                if len(gens) > max_gens:
                    break
            if len(gens) > max_gens:
                break
        sol = _solve(d, gens, timeout_ms)
        if sol is not None:
            return sol
        if not new_monos or len(gens) > max_gens:
            return None
        T |= new_monos
        frontier = new_monos
    return None


def _zq(x):
    if isinstance(x, int):
        return z3.RealVal(x)
    x = Fraction(x)
    return z3.RealVal(f"{x.numerator}/{x.denominator}")


def _solve(d, gens, timeout_ms):
    if not gens:
        return None
    keys = list(gens)
    # only generators all of whose monomials can be cancelled matter; keep all (z3 handles it)
    cplx = any(c[1] != 0 for c in d.values()) or any(c[1] != 0 for g in gens.values() for c in g.values())
    rows = {}
    for gi, k in enumerate(keys):
        for m, c in gens[k].items():
            rows.setdefault(m, []).append((gi, c))
    for m in d:
        if m not in rows:
            return None  # a monomial of d that no generator can produce
    lr = [z3.Real(f"l{gi}r") for gi in range(len(keys))]
    li = [z3.Real(f"l{gi}i") for gi in range(len(keys))] if cplx else None
    s = z3.SolverFor('QF_LRA')
    s.set('timeout', int(timeout_ms))
    for m, lst in rows.items():
        dr, di = d.get(m, (0, 0))
        re_terms = []
        im_terms = []
        for gi, (cr, ci) in lst:
            if cr != 0:
                re_terms.append(_zq(cr) * lr[gi])
                if cplx:
                    im_terms.append(_zq(cr) * li[gi])
            if ci != 0:
                re_terms.append(_zq(-ci) * li[gi])
                im_terms.append(_zq(ci) * lr[gi])
        s.add(z3.Sum(re_terms) == _zq(dr) if re_terms else z3.BoolVal(dr == 0))
        if cplx:
            s.add(z3.Sum(im_terms) == _zq(di) if im_terms else z3.BoolVal(di == 0))
    if s.check() != z3.sat:
        return None
    mdl = s.model()

    def val(v):
        x = mdl.eval(v, model_completion=True)
        return Fraction(x.numerator_as_long(), x.denominator_as_long())

    cert = []
    for gi, k in enumerate(keys):
        cr = val(lr[gi])
        ci = val(li[gi]) if cplx else Fraction(0)
        if cr != 0 or ci != 0:
            cert.append((k[0], k[1], (cr, ci)))
    # exact re-check of the certificate
    acc = {}
    for hi, m, (cr, ci) in cert:
        acc = S._padd(acc, S._pscale(gens[(hi, m)], cr, ci))
    rest = S._padd(acc, d, -1)
    if rest:
        return None
    return cert


def prepare(ctx):
    """formal versions of the hypotheses registered on this path (cached incrementally on the context)"""
    reg = S.REG
    st = ctx.__dict__.get('_ideal_state')
    if st is None:
        st = ctx.__dict__['_ideal_state'] = {'n': 0, 'hyps': [], 'seen': set()}
    side_R = ctx.__dict__.get('side_R', [])
    # definitions of sqrt variables:  w*w - radicand == 0
    for v, rad in list(reg.sqrt_def.items()):
        if v not in st.setdefault('sqrt', set()):
            st['sqrt'].add(v)
            w2 = {((v, 2), ): (1, 0)}
            g = to_formal(S._padd(w2, rad, -1), reg)
            if g:
                st['hyps'].append(g)
    while st['n'] < len(side_R):
        r = side_R[st['n']]
        st['n'] += 1
        if r.d is not None or r.poison:
            continue
        f = to_formal(r.n, reg)
        for g in (f, _conj(f)):
            k = tuple(sorted(g.items()))
            if g and k not in st['seen']:
                st['seen'].add(k)
                st['hyps'].append(g)
    return st['hyps']


def _conj(p):
    """formal complex conjugate: z <-> zbar for paired variables, coefficients conjugated"""
    reg = S.REG
    pairs = _pairs(reg)
    zs = {3 * pr[1] for pr in pairs.values()}
    out = {}
    for m, (x, y) in p.items():
        mm = []
        for v, e in m:
            if v % 3 == 0 and v in zs:
                mm.append((v + 1, e))
            elif v % 3 == 1:
                mm.append((v - 1, e))
            else:
                mm.append((v, e))
        out[tuple(sorted(mm))] = (x, -y)
    return out


def follows(ctx, d, stats=None):
    """True if the polynomial R ``d`` (no denominator) is certified to vanish under the contract hypotheses"""
    hyps = prepare(ctx)
    if not hyps:
        return False
    if S.REG.sqrt_def:
        d = S.R(S._clear_neg_sqrt(d.n)) if hasattr(S, '_clear_neg_sqrt') else d
    t0 = time.time()
    f = to_formal(d.n, S.REG)
    cert = certificate(f, hyps, max_gens=ctx.opts.get('ideal_max_gens', 6000), rounds=ctx.opts.get('ideal_rounds', 3), slack=ctx.opts.get('ideal_slack', 2),
                       timeout_ms=ctx.opts.get('ideal_timeout_ms', 8000))
    ctx.tq += time.time() - t0
    ctx.nq += 1
    return cert is not None
