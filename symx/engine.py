"""Path-exploring symbolic engine: depth-first over decision vectors, the harness is re-executed
from scratch for every path (as CrossHair does); every ``bool()`` of a symbolic Boolean asks z3
which sides are feasible under the path condition.

Only imported in symbolic mode (needs z3).  The concrete twin is ``symx.concrete``.
"""
import hashlib
import random
import sys
import time
import traceback
from fractions import Fraction

import numpy as np
import z3

REG_HOOK = [None]
_CUR = [None]


def cur():
    c = _CUR[0]
    if c is None:
        raise RuntimeError("no symbolic context active")
    return c


class PathBudget(BaseException):
    pass


class InfeasiblePath(BaseException):
    """raised by assume() when the assumption contradicts the path condition"""


class Failure:
    __slots__ = ('label', 'kind', 'model', 'detail')

    def __init__(self, label, kind, model, detail=''):
        self.label = label
        self.kind = kind  # 'violation' | 'inconclusive' | 'harness'
        self.model = model
        self.detail = detail


def _consts_of(e):
    """names of the uninterpreted constants occurring in a z3 expression (iterative, shared sub-terms visited once)"""
    out, seen, stack = set(), set(), [e]
    while stack:
        x = stack.pop()
        i = x.get_id()
        if i in seen:
            continue
        seen.add(i)
        if z3.is_const(x):
            if x.decl().kind() == z3.Z3_OP_UNINTERPRETED:
                out.add(x.decl().name())
        else:
            stack.extend(x.children())
    return out


def _key_of(r):
    return (tuple(sorted(r.n.items())), None if r.d is None else tuple(sorted(r.d.items())))


class SymCtx:
    symbolic = True

    def __init__(self, decisions, opts, stats):
        from . import scalars as S
        self.S = S
        self.decisions = decisions
        self.pos = 0
        self.opts = opts
        self.stats = stats
        self.solver = z3.Solver()
        self.solver.set('timeout', int(opts.get('branch_timeout_ms', 10000)))
        self.side = []  # nonlinear contract hypotheses, kept out of the branch context
        self.side_polys = []  # canonical polynomials known to be == 0 (from contracts)
        self.side_R = []  # the same hypotheses as R objects (symx.ideal: combinations of hypotheses)
        self.side_hints = []  # z3 equalities proposed by stubs: a simple solution of their contract (model search only)
        self.nq = 0
        self.tq = 0.0
        self.obligations = 0
        self.discharged = 0
        self.failures = []
        self.notes = {}
        self.observed = []
        self.approx_branches = 0
        self._declared = set()
        self._sqrt = {}
        self._uf = {}
        self._fresh = 0
        self._intreal = {}
        self._known = {}
        self.int_inputs = {}
        self.pc = []  # path condition as list of z3 formulas (for samples)
        S.REG.sqrt_def.clear()
        self.seed = int(opts.get('seed', 0))

    # ---------------------------------------------------------------- solver plumbing
    def _check(self, *assumptions, solver=None, timeout_ms=None):
        s = self.solver if solver is None else solver
        if timeout_ms is not None:
            s.set('timeout', int(timeout_ms))
        t = time.time()
        r = s.check(*assumptions)
        self.tq += time.time() - t
        self.nq += 1
        if timeout_ms is not None and solver is None:
            s.set('timeout', int(self.opts.get('branch_timeout_ms', 10000)))
        return r

    def branch(self, cond):
        cond = z3.simplify(cond)
        if z3.is_true(cond):
            return True
        if z3.is_false(cond):
            return False
        kid = cond.get_id()
        kn = self._known.get(kid)
        if kn is not None:
            return kn
        r = self._branch(cond)
        self._known[kid] = r
        return r

    def _branch(self, cond):
        if self.pos < len(self.decisions):
            d = self.decisions[self.pos][0]
            self.pos += 1
            c = cond if d else z3.Not(cond)
            self.solver.add(c)
            self.pc.append(c)
            return d
        if len(self.decisions) >= self.opts.get('max_depth', 100000):
            raise PathBudget("depth")
        rt = self._check(cond)
        rf = self._check(z3.Not(cond))
        t = rt != z3.unsat
        f = rf != z3.unsat
        if rt == z3.unknown or rf == z3.unknown:
            self.approx_branches += 1
        if not t and not f:
            raise InfeasiblePath()
        if t and f:
            first = True
            if self.opts.get('false_first'):
                first = False
            self.decisions.append([first, False])
            self.pos += 1
            c = cond if first else z3.Not(cond)
            self.solver.add(c)
            self.pc.append(c)
            return first
        d = t
        self.decisions.append([d, True])
        self.pos += 1
        c = cond if d else z3.Not(cond)
        self.solver.add(c)
        self.pc.append(c)
        return d

    def _bt(self, cond):
        S = self.S
        if isinstance(cond, S.B):
            return cond.t
        if isinstance(cond, z3.BoolRef):
            return cond
        if isinstance(cond, S.R) or isinstance(cond, S.I):
            return (cond != 0).t if isinstance(cond != 0, S.B) else z3.BoolVal(bool(cond != 0))
        return z3.BoolVal(bool(cond))

    def assume(self, cond):
        """restrict the inputs (documented precondition); placed before the code it constrains"""
        t = z3.simplify(self._bt(cond))
        if z3.is_true(t):
            return
        self.solver.add(t)
        self.pc.append(t)
        if z3.is_false(t) or self._check() == z3.unsat:
            raise InfeasiblePath()

    def assume_side(self, cond, poly=None):
        """contract hypothesis (may be non-linear): used for obligations, not for branch feasibility"""
        self.side.append(self._bt(cond))

    def assume_zero(self, r):
        """hypothesis r == 0 for a canonical polynomial r (stub contract)"""
        S = self.S
        r = S.R.lift(r)
        if r.is_const():
            if r.const() != 0:
                raise InfeasiblePath()
            return
        self.side_polys.append(_key_of(r))
        self.side_polys.append(_key_of(-r))
        self.side_R.append(r)
        re, im = r.z3()
        self.side.append(z3.And(re == 0, im == 0))

    # ---------------------------------------------------------------- inputs
    def real(self, name, pos=False, nonneg=False):
        S = self.S
        kind = 'p' if pos else ('n' if nonneg else 'r')
        r = S.R.var(name, kind, True)
        if (pos or nonneg) and name not in self._declared:
            self._declared.add(name)
            v = S.REG.z3v[S.REG.by_name[name]]
            c = v > 0 if pos else v >= 0
            self.solver.add(c)
        return r

    def cplx(self, name):
        return self.real(name + '.re') + self.real(name + '.im') * 1j

    def num(self, name, cplx=False):
        return self.cplx(name) if cplx else self.real(name)

    def int(self, name, lo=None, hi=None):
        S = self.S
        v = z3.Int(name)
        if name not in self._declared:
            self._declared.add(name)
            self.int_inputs[name] = v
            if lo is not None:
                self.solver.add(v >= int(lo))
            if hi is not None:
                self.solver.add(v <= int(hi))
        return S.I(v)

    def choice(self, name, n):
        """bounded symbolic selector; every feasible value is a path"""
        if n <= 1:
            return 0
        return self.int(name, 0, n - 1).__index__()

    def flag(self, name):
        return self.choice(name, 2) == 1

    def free_choice(self, name, n):
        """like ``choice`` for a FRESH selector (first use of `name` on this path): the selector is independent of
        every other input, so each value in range(n) is feasible by construction and the values are enumerated by
        bisection decisions without feasibility queries; the path condition records ``name == value`` as usual."""
        if n <= 1:
            return 0
        if name in self._declared:
            raise RuntimeError(f"free_choice: selector {name!r} was used before on this path")
        self._declared.add(name)
        v = z3.Int(name)
        self.int_inputs[name] = v
        lo, hi = 0, n - 1
        while lo < hi:
            mid = (lo + hi) // 2
            if self.pos < len(self.decisions):
                d = self.decisions[self.pos][0]
            else:
                if len(self.decisions) >= self.opts.get('max_depth', 100000):
                    raise PathBudget("depth")
                d = True
                self.decisions.append([d, False])
            self.pos += 1
            if d:
                hi = mid
            else:
                lo = mid + 1
        c = v == lo
        self.solver.add(c)
        self.pc.append(c)
        return lo

    def array(self, name, shape, cplx=False, pos=False):
        a = np.empty(shape, dtype=object)
        for idx in np.ndindex(*a.shape):
            nm = name + '_' + '_'.join(map(str, idx)) if idx else name
            a[idx] = self.cplx(nm) if cplx else self.real(nm, pos=pos)
        return a

    def int_array(self, name, shape, lo=None, hi=None):
        a = np.empty(shape, dtype=object)
        for idx in np.ndindex(*a.shape):
            a[idx] = self.int(name + '_' + '_'.join(map(str, idx)), lo, hi)
        return a

    def fresh(self, base, cplx=False, pos=False, nonneg=False):
        """fresh symbol (stub output), deterministic name per path"""
        S = self.S
        self._fresh += 1
        nm = f"{base}#{self._fresh}"
        if cplx:
            return S.R.var(nm + '.re', 'f') + S.R.var(nm + '.im', 'f') * 1j
        r = S.R.var(nm, 'p' if pos else ('n' if nonneg else 'f'))
        i = S.REG.by_name[nm]
        S.REG.kind[i] = 'p' if pos else ('n' if nonneg else 'f')
        if pos:
            self.solver.add(S.REG.z3v[i] > 0)
        elif nonneg:
            self.solver.add(S.REG.z3v[i] >= 0)
        return r

    def fresh_array(self, base, shape, cplx=False, pos=False, nonneg=False):
        a = np.empty(shape, dtype=object)
        for idx in np.ndindex(*a.shape):
            a[idx] = self.fresh(base + '_' + '_'.join(map(str, idx)), cplx, pos, nonneg)
        return a

    # ---------------------------------------------------------------- scalar support
    def sqrt_var(self, x):
        S = self.S
        k = _key_of(x)
        w = self._sqrt.get(k)
        if w is None:
            nm = f"sqrt#{len(self._sqrt)}"
            i = S.REG.var(nm, 's')
            S.REG.kind[i] = 's'
            if x.d is None:
                S.REG.sqrt_def[i] = x.n
            w = S.R({((i, 1), ): (1, 0)})
            self._sqrt[k] = w
            zv = S.REG.z3v[i]
            c = z3.And(zv >= 0, zv * zv == x.z3()[0])
            self.side.append(c)
            self._sqrt_defs = getattr(self, '_sqrt_defs', {})
            self._sqrt_defs[i] = (x, c, False)
        return w

    def const_sqrt(self, fr):
        S = self.S
        return self.sqrt_var(S.R(S._pconst(fr)))

    def named_zero(self, r):
        """opt-in (opts['named_zero_tests']): the test `r == 0` of a large polynomial denominator as `z == 0` for a fresh
        variable z whose definition z == r is a side hypothesis, i.e. kept out of the branch context exactly like the
        definitions of sqrt variables (over-approximates the feasible paths; obligations see the definition)"""
        S = self.S
        named = self.__dict__.setdefault('_named_zero', {})
        k = _key_of(S.R(r.n))
        b = named.get(k)
        if b is None:
            re, im = S.R(r.n).z3()
            i = S.REG.var(f"den#{len(named)}.re", 'f')
            zs = [(S.REG.z3v[i], re)]
            if not S._is_real(r.n):
                j = S.REG.var(f"den#{len(named)}.im", 'f')
                zs.append((S.REG.z3v[j], im))
            for zv, t in zs:
                self.side.append(zv == t)
            b = S._mkB(z3.And([zv == 0 for zv, _ in zs]))
            named[k] = b
        return b

    def note_norm_parts(self, w, parts):
        """remember the entries x_i under the square root of a 2-norm w = sqrt(sum |x_i|^2) (used by lazy_cmp for `w > 0`)"""
        if getattr(w, 'poison', False) or w.d is not None or len(w.n) != 1 or any(p.poison for p in parts):
            return
        (m, c), = w.n.items()
        if len(m) == 1 and m[0][1] == 1 and m[0][0] in getattr(self, '_sqrt_defs', {}):
            self.__dict__.setdefault('_norm_parts', {})[m[0][0]] = list(parts)

    def _need_defs(self, r):
        """make sure definitional constraints of sqrt variables used in a branch formula are in the branch context"""
        defs = getattr(self, '_sqrt_defs', None)
        if not defs:
            return
        for v in r.vars():
            ent = defs.get(v)
            if ent is not None and not ent[2]:
                defs[v] = (ent[0], ent[1], True)
                self.solver.add(ent[1])
                self._need_defs(ent[0])

    def _log_cmp(self, a, b, op):
        """`sum_i c_i log(x_i)  op  0` with integer c_i (no other terms) is decided exactly as
        `prod_{c_i>0} x_i^c_i  op  prod_{c_i<0} x_i^-c_i` (x_i > 0): no uninterpreted function is left in the query"""
        S = self.S
        if not self._uf:
            return None
        d = a - b
        if d.d is not None or not d.n:
            return None
        rev = getattr(self, '_uf_rev', None)
        if rev is None or len(rev) != len(self._uf):
            rev = {}
            for (fn, _k), (x, v) in self._uf.items():
                if fn == 'log':
                    (m, _c), = v.n.items()
                    rev[m[0][0]] = x
            self._uf_rev = rev
        pos, neg = S.R(S._pconst(1)), S.R(S._pconst(1))
        for m, (cr, ci) in d.n.items():
            if ci != 0 or len(m) != 1 or m[0][1] != 1 or m[0][0] not in rev:
                return None
            if cr != int(cr) or abs(cr) > 4:
                return None
            x = rev[m[0][0]]
            for _ in range(abs(int(cr))):
                if cr > 0:
                    pos = pos * x
                else:
                    neg = neg * x
        return self._cmp_terms(pos, neg, op)

    def lazy_cmp(self, a, b, op):
        """comparisons involving a pure sqrt variable and a constant are rewritten on the radicand"""
        S = self.S
        lg = self._log_cmp(a, b, op)
        if lg is not None:
            return lg
        defs = getattr(self, '_sqrt_defs', None)
        if not defs:
            return None

        def pure(r):
            if r.d is None and len(r.n) == 1:
                (m, c), = r.n.items()
                if len(m) == 1 and m[0][1] == 1 and m[0][0] in defs and c[1] == 0 and c[0] > 0:
                    return m[0][0], c[0]
            return None

        pa, pb = pure(a), pure(b)
        if pa is not None and b.is_const():
            c = S._const_val(b.n)[0]
            rad = defs[pa[0]][0]
            if c < 0:
                return op(1, 0)
            parts = getattr(self, '_norm_parts', {}).get(pa[0]) if c == 0 else None
            if parts is not None:
                # norm(x) vs 0 (DESIGN 2(v)): norm > 0 <=> some entry != 0 (no polynomial sum of squares in the query)
                pos, zer = bool(op(1, 0)), bool(op(0, 0))
                if pos == zer:
                    return pos
                nz = []
                for p in parts:
                    if p.is_const():
                        if p.const() != 0:
                            nz = None
                            break
                        continue
                    self._need_defs(p)
                    re, im = p.z3()
                    nz.append(re != 0 if p.is_real() else z3.Or(re != 0, im != 0))
                f = z3.BoolVal(True) if nz is None else (z3.Or(nz) if nz else z3.BoolVal(False))
                return S._mkB(f if pos else z3.Not(f))
            return self._cmp_terms(rad * (pa[1] * pa[1]), S.R(S._pconst(c * c)), op)
        if pb is not None and a.is_const():
            c = S._const_val(a.n)[0]
            rad = defs[pb[0]][0]
            if c < 0:
                return op(0, 1)
            return self._cmp_terms(S.R(S._pconst(c * c)), rad * (pb[1] * pb[1]), op)
        if pa is not None and pb is not None:
            return self._cmp_terms(defs[pa[0]][0] * (pa[1] * pa[1]), defs[pb[0]][0] * (pb[1] * pb[1]), op)
        self._need_defs(a)
        self._need_defs(b)
        return None

    def _cmp_terms(self, x, y, op):
        S = self.S
        d = x - y
        if d.d is None and S.REG.sqrt_def and any(e < 0 and v in S.REG.sqrt_def for m in d.n for v, e in m):
            d = S.R(S._clear_neg_sqrt(d.n))  # sqrt variables in denominators are positive: sign preserved
        if d.is_const():
            return op(S._const_val(d.n)[0], 0)
        self._need_defs(d)
        return S._mkB(op(d.z3()[0], z3.RealVal(0)))

    def uf_apply(self, fn, x):
        """uninterpreted but monotone function (log, exp) with functional consistency"""
        S = self.S
        if not x.is_real():
            raise S.SymLeak(f"{fn} of complex")
        k = (fn, _key_of(x))
        ent = self._uf.get(k)
        if ent is not None:
            return ent[1]
        tab = [e for (f, _), e in self._uf.items() if f == fn]
        nm = f"{fn}#{len(tab)}"
        i = S.REG.var(nm, 'u')
        v = S.R({((i, 1), ): (1, 0)})
        zv = S.REG.z3v[i]
        zx = x.z3()[0]
        self._need_defs(x)
        cons = []
        for (ox, ov) in tab:
            ozx = ox.z3()[0]
            ozv = ov.z3()[0]
            cons.append(z3.And(z3.Implies(ozx < zx, ozv < zv), z3.Implies(ozx > zx, ozv > zv),
                               z3.Implies(ozx == zx, ozv == zv)))
        if fn == 'log':
            cons.append(z3.And(z3.Implies(zx < 1, zv < 0), z3.Implies(zx > 1, zv > 0), z3.Implies(zx == 1, zv == 0)))
        if fn == 'exp':
            cons.append(z3.And(zv > 0, z3.Implies(zx < 0, zv < 1), z3.Implies(zx > 0, zv > 1),
                               z3.Implies(zx == 0, zv == 1)))
        for c in cons:
            self.solver.add(c)
        self._uf[k] = (x, v)
        return v

    def int_as_real(self, o):
        S = self.S
        k = str(o.t)
        r = self._intreal.get(k)
        if r is None:
            nm = f"i2r#{len(self._intreal)}"
            i = S.REG.var(nm, 'f')
            self.solver.add(S.REG.z3v[i] == z3.ToReal(o.t))
            r = S.R({((i, 1), ): (1, 0)})
            self._intreal[k] = r
        return r

    def enumerate_int(self, t):
        for _ in range(self.opts.get('max_enum', 4096)):
            r = self._check()
            if r == z3.unknown:  # time-out under load: retry once with a long time-out before giving up
                r = self._check(timeout_ms=120000)
            if r == z3.unknown:
                # (numpy swallows exceptions raised inside __index__ and raises IndexError instead: remember why)
                self._steering = 'budget'
                raise PathBudget("solver unknown while enumerating an index")
            if r != z3.sat:
                self._steering = 'infeasible'
                raise InfeasiblePath()
            v = self.solver.model().eval(t, model_completion=True).as_long()
            if self.branch(t == v):
                return v
        raise self.S.SymLeak("unbounded integer used as index")

    # ---------------------------------------------------------------- models
    def _model_dict(self, m):
        S = self.S
        out = {}
        for i in S.REG.inputs:
            v = m.eval(S.REG.z3v[i], model_completion=True)
            out[S.REG.names[i]] = _num_str(v)
        for name, v in self.int_inputs.items():
            out[name] = str(m.eval(v, model_completion=True))
        return out

    def path_model(self, generic=True):
        """a model of the path condition (inputs only); tries a generic (random) one first"""
        S = self.S
        if generic:
            rnd = random.Random(self.seed * 7919 + self.stats.get('paths', 0))
            for attempt in range(3):
                asm = []
                for i in S.REG.inputs:
                    k = S.REG.kind[i]
                    val = Fraction(rnd.randint(1, 97), rnd.choice([7, 8, 9, 11, 13]))
                    if k == 'r' and rnd.random() < 0.5:
                        val = -val
                    asm.append(S.REG.z3v[i] == z3.RealVal(f"{val.numerator}/{val.denominator}"))
                if self._check(*asm, timeout_ms=2000) == z3.sat:
                    return self._model_dict(self.solver.model())
        if self._check(timeout_ms=5000) == z3.sat:
            return self._model_dict(self.solver.model())
        return None

    # ---------------------------------------------------------------- obligations
    def note(self, key, value=1):
        self.notes[key] = self.notes.get(key, 0) + value

    def observe(self, label, value):
        self.observed.append((label, value))

    def _fail(self, label, kind, model, detail=''):
        self.failures.append(Failure(label, kind, model, detail))
        if kind == 'violation' and model is not None:
            self.stats.setdefault('violated', set()).add(label)

    def fail(self, label, detail=''):
        """the harness observed a violation directly (e.g. an exception that must not happen)"""
        self.obligations += 1
        self._fail(label, 'violation', self.path_model(generic=True), detail)

    def prove(self, cond, label):
        S = self.S
        self.obligations += 1
        if isinstance(cond, (bool, np.bool_)):
            if cond:
                self.discharged += 1
            else:
                self._fail(label, 'violation', self.path_model(), 'concretely false on this path')
            return bool(cond)
        t = z3.simplify(self._bt(cond))
        if z3.is_true(t):
            self.discharged += 1
            return True
        kn = self._known.get(t.get_id())
        if kn is True:
            self.discharged += 1  # literally a conjunct of the path condition
            return True
        if self.side:
            # first without the (non-linear) contract hypotheses: sound, and integer / sign obligations rarely need them
            self.solver.push()
            try:
                self.solver.add(z3.Not(t))
                r0 = self._check(timeout_ms=self.opts.get('prove_timeout_ms', 10000))
            finally:
                self.solver.pop()
            if r0 == z3.unsat:
                self.discharged += 1
                return True
        if not self.side:
            self.solver.push()
            try:
                self.solver.add(z3.Not(t))
                r = self._check(timeout_ms=self.opts.get('prove_timeout_ms', 10000))
                model = self._model_dict(self.solver.model()) if r == z3.sat else None
            finally:
                self.solver.pop()
        else:
            s = z3.Solver()
            s.add(self.solver.assertions())
            for c in self.side:
                s.add(c)
            s.add(z3.Not(t))
            r = self._check(solver=s, timeout_ms=self.opts.get('prove_timeout_ms', 10000))
            model = self._model_dict(s.model()) if r == z3.sat else None
        if r == z3.unsat:
            self.discharged += 1
            return True
        if r == z3.sat:
            self._fail(label, 'violation', model, str(t)[:300])
        else:
            self._fail(label, 'inconclusive', None, 'solver returned unknown: ' + str(t)[:200])
        return False

    def prove_eq(self, X, Y, label, tol=None):
        """every entry of X equals the corresponding entry of Y (polynomial identity / integer equality)"""
        S = self.S
        self.obligations += 1
        X = np.asarray(X, dtype=object) if not isinstance(X, np.ndarray) else X
        Y = np.asarray(Y, dtype=object) if not isinstance(Y, np.ndarray) else Y
        if X.shape != Y.shape:
            self._fail(label, 'violation', self.path_model(), f'shape {X.shape} != {Y.shape}')
            return False
        nz = []
        zero = 0
        for idx in np.ndindex(*X.shape):
            x, y = X[idx], Y[idx]
            if isinstance(x, S.I) or isinstance(y, S.I):
                if not (isinstance(x, (S.I, int, np.integer)) and isinstance(y, (S.I, int, np.integer))):
                    x, y = S.R.lift(x), S.R.lift(y)
                else:
                    e = (S.I.l(x) == S.I.l(y))
                    e = z3.simplify(e)
                    if z3.is_true(e):
                        zero += 1
                    else:
                        nz.append((idx, None, z3.Not(e)))
                    continue
            if isinstance(x, S.B) or isinstance(y, S.B):
                e = z3.simplify(S._bt(x) == S._bt(y))
                if z3.is_true(e):
                    zero += 1
                else:
                    nz.append((idx, None, z3.Not(e)))
                continue
            x, y = S.R.lift(x), S.R.lift(y)
            if x is None or y is None:
                if X[idx] == Y[idx]:
                    zero += 1
                    continue
                self._fail(label, 'violation', self.path_model(), f'entry {idx}: {X[idx]!r} != {Y[idx]!r}')
                return False
            if x.poison or y.poison:
                self._fail(label, 'violation', self.path_model(generic=False),
                           f'entry {idx}: division by zero (nan/inf) on this path')
                return False
            d = x - y
            if d.d is not None:
                d = S.R(d.n)
            if d.n and S.REG.sqrt_def:
                d = S.R(S._clear_neg_sqrt(d.n))
            if d.n and self.pc:
                zv = self._zero_vars()
                if zv:  # inputs the path condition fixes to 0 (`x == 0` conjuncts): their monomials vanish
                    d = S.R({m: c for m, c in d.n.items() if not any(v in zv for v, _ in m)})
            if not d.n:
                zero += 1
                continue
            if d.is_const():
                self._fail(label, 'violation', self.path_model(), f'entry {idx} differs by constant {d.const()}')
                return False
            nz.append((idx, d, None))
        self.observed.append((label, [_obs(X[idx]) for idx in list(np.ndindex(*X.shape))[:32]]))
        if not nz:
            # canonical forms coincide: the query handed to the solver is `0 != 0`
            s = z3.Solver()
            s.add(z3.RealVal(0) != z3.RealVal(0))
            r = self._check(solver=s)
            assert r == z3.unsat
            self.discharged += 1
            return True
        # hypotheses (stub contracts) in canonical form
        rest = []
        for idx, d, f in nz:
            if d is not None and self.side_polys and _key_of(d) in self.side_polys:
                continue
            rest.append((idx, d, f))
        if rest and self.side_R and self.opts.get('ideal', True):
            # certified combinations  sum c * monomial * hypothesis  of the contract hypotheses (symx.ideal)
            from . import ideal
            rest = [(idx, d, f) for idx, d, f in rest if d is None or not ideal.follows(self, d)]
        if not rest:
            self.discharged += 1
            return True
        if self.opts.get('skip_repeated_violation') and label in self.stats.get('violated', ()):
            # opt-in: this obligation already has a solver-confirmed counterexample on an earlier path of this case; the
            # (possibly expensive, possibly `unknown`) model search is not repeated.  Counted as not discharged; recorded as a
            # duplicate of the earlier failure (explore() drops duplicates) so that the path is not taken for a clean one.
            self.failures.append(Failure(label, 'violation', None, 'repeated: counterexample found on an earlier path'))
            return False
        # (a) guided ground models: proposals confirmed by the solver
        free = not self.side
        forms = []
        for idx, d, f in rest:
            if f is not None:
                forms.append(f)
            else:
                re, im = d.z3()
                forms.append(re != 0 if S._is_real(d.n) else z3.Or(re != 0, im != 0))
                for v in d.vars():
                    if S.REG.kind[v] in 'fsu':
                        free = False
        goal = z3.Or(forms) if len(forms) > 1 else forms[0]
        s = z3.Solver()
        s.add(self.solver.assertions())
        for c in self.side:
            s.add(c)
        s.add(goal)
        if self.opts.get('guided_with_side') and not free:
            # opt-in (cases whose only side constraints are *definitions* of auxiliary variables: sqrt variables, named
            # denominators): the proposed rational inputs are substituted into path condition, definitions and goal, so
            # that what the solver has to confirm is a small triangular system in the auxiliary variables only
            rnd = random.Random(self.seed + 12345)
            core = z3.And([a for a in self.solver.assertions()] + [goal])
            for attempt in range(self.opts.get('guided_tries', 12)):
                subs, prop = [], {}
                for i in S.REG.inputs:
                    k = S.REG.kind[i]
                    val = Fraction(rnd.randint(1, 40), rnd.choice([3, 4, 5, 7]))
                    if k == 'r' and rnd.random() < 0.4:
                        val = -val
                    subs.append((S.REG.z3v[i], z3.RealVal(f"{val.numerator}/{val.denominator}")))
                    prop[S.REG.names[i]] = f"{val.numerator}/{val.denominator}"
                s2 = z3.Solver()
                g0 = z3.simplify(z3.substitute(core, *subs))
                if z3.is_false(g0):
                    continue
                s2.add(g0)
                # only the definitions of auxiliary variables that the (substituted) goal / path condition still mentions,
                # transitively; a definition of an unused auxiliary variable is always solvable and is left out
                need = _consts_of(g0)
                pend = [z3.simplify(z3.substitute(c, *subs)) for c in self.side]
                pend = [(c, _consts_of(c)) for c in pend]
                grew = True
                while grew:
                    grew = False
                    for ent in list(pend):
                        if not ent[1] or (ent[1] & need):
                            s2.add(ent[0])
                            need |= ent[1]
                            pend.remove(ent)
                            grew = True
                r = self._check(solver=s2, timeout_ms=5000)
                if r == z3.sat:
                    m2 = s2.model()
                    for name, v in self.int_inputs.items():
                        prop[name] = str(m2.eval(v, model_completion=True))
                    self._fail(label, 'violation', prop, f'{len(rest)} entries differ, e.g. {rest[0][0]}')
                    return False
        if free:
            rnd = random.Random(self.seed + 12345)
            for attempt in range(self.opts.get('guided_tries', 12)):
                asm = []
                for i in S.REG.inputs:
                    k = S.REG.kind[i]
                    val = Fraction(rnd.randint(1, 40), rnd.choice([3, 4, 5, 7]))
                    if k == 'r' and rnd.random() < 0.4:
                        val = -val
                    asm.append(S.REG.z3v[i] == z3.RealVal(f"{val.numerator}/{val.denominator}"))
                r = self._check(*asm, solver=s, timeout_ms=3000)
                if r == z3.sat:
                    self._fail(label, 'violation', self._model_dict(s.model()),
                               f'{len(rest)} entries differ, e.g. {rest[0][0]}')
                    return False
        if self.side_hints:
            # model search only: try the simple solution of the stub contracts proposed by the stubs (e.g. U = V = 1)
            vals = self.__dict__.get('side_hint_values') or []
            doms = self.__dict__.get('side_hint_domains') or []
            stages = [self.side_hints + vals, self.side_hints] if vals else [self.side_hints]
            if doms:  # weaker proposal: isometry entries in {0, 1, -1} (signed permutations)
                stages += [doms + vals, doms] if vals else [doms]
            for hs in stages:
                r = self._check(*hs, solver=s, timeout_ms=self.opts.get('hint_timeout_ms', 4000))
                if r == z3.sat:
                    self._fail(label, 'violation', self._model_dict(s.model()),
                               f'{len(rest)} entries differ, e.g. {rest[0][0]}')
                    return False
        r = self._check(solver=s, timeout_ms=self.opts.get('prove_timeout_ms', 10000))
        if r == z3.unsat:
            self.discharged += 1
            return True
        if r == z3.sat:
            self._fail(label, 'violation', self._model_dict(s.model()), f'{len(rest)} entries differ, e.g. {rest[0][0]}')
        else:
            self._fail(label, 'inconclusive', None, f'{len(rest)} entries with non-zero canonical difference; solver unknown')
        return False

    def prove_close(self, X, Y, label, tol=1e-9):
        return self.prove_eq(X, Y, label)

    # logical connectives that work in both modes
    def Not(self, a):
        t = self._bt(a)
        return self.S._mkB(z3.Not(t))

    def And(self, *xs):
        return self.S._mkB(z3.And([self._bt(x) for x in xs])) if xs else True

    def Or(self, *xs):
        return self.S._mkB(z3.Or([self._bt(x) for x in xs])) if xs else False

    def Implies(self, a, b):
        return self.S._mkB(z3.Implies(self._bt(a), self._bt(b)))

    def _zero_vars(self):
        """ids of real symbols that a conjunct of the path condition literally fixes to 0 (`x == 0`, also inside
        And(...) / Not(Or(Not ...))); used to normalise differences in prove_eq before they go to the solver"""
        S = self.S
        cache = getattr(self, '_zv_cache', None)
        start, zv = (cache[0], cache[1]) if cache else (0, set())
        if start == len(self.pc):
            return zv

        def is_zero(t):
            return z3.is_rational_value(t) and t.numerator_as_long() == 0

        def visit(f, neg):
            k = f.decl().kind()
            if k == z3.Z3_OP_NOT:
                visit(f.arg(0), not neg)
            elif (k == z3.Z3_OP_AND and not neg) or (k == z3.Z3_OP_OR and neg):
                for a in f.children():
                    visit(a, neg)
            elif k == z3.Z3_OP_EQ and not neg:
                a, b = f.arg(0), f.arg(1)
                if is_zero(a):
                    a, b = b, a
                if is_zero(b) and z3.is_const(a) and a.decl().kind() == z3.Z3_OP_UNINTERPRETED:
                    i = S.REG.by_name.get(a.decl().name())
                    if i is not None:
                        zv.add(i)

        for f in self.pc[start:]:
            if z3.is_bool(f):
                visit(f, False)
        self._zv_cache = (len(self.pc), zv)
        return zv

    def reachable(self):
        """vacuity guard: the path condition at this point must be satisfiable"""
        r = self._check()
        return r == z3.sat


def _num_str(v):
    if z3.is_rational_value(v):
        return f"{v.numerator_as_long()}/{v.denominator_as_long()}"
    if z3.is_algebraic_value(v):
        return v.approx(20).as_string().rstrip('?')
    return str(v)


def _obs(x):
    return x


# ----------------------------------------------------------------------------------------------
class CaseResult:

    def __init__(self, name):
        self.name = name
        self.paths = 0
        self.queries = 0
        self.solver_s = 0.0
        self.obligations = 0
        self.discharged = 0
        self.failures = []  # (label, kind, model, detail)
        self.notes = {}
        self.complete = True
        self.approx_branches = 0
        self.path_models = []  # sampled models of path conditions (for validation against the implementation)
        self.samples = []
        self.functions = set()
        self.wall_s = 0.0
        self.infeasible = 0

    def to_dict(self):
        return self.__dict__


def explore(fn, name='case', opts=None):
    """run ``fn(ctx)`` on every feasible path.  Returns CaseResult."""
    from . import scalars as S
    opts = dict(opts or {})
    max_paths = opts.get('max_paths', 20000)
    max_wall = opts.get('max_wall_s', 600)
    n_models = opts.get('validate_paths', 4)
    res = CaseResult(name)
    S.reset_registry()
    decisions = []
    t0 = time.time()
    stats = {'paths': 0}
    seen_labels = set()
    while True:
        ctx = SymCtx(decisions, opts, stats)
        _CUR[0] = ctx
        prof = None
        if res.paths == 0 and opts.get('profile', True):
            funcs = res.functions

            def prof(frame, event, arg, funcs=funcs):
                if event == 'call':
                    fnm = frame.f_code.co_filename
                    if '/tenpy/' in fnm and '/verif/' not in fnm:
                        funcs.add(fnm.split('/tenpy/', 1)[1][:-3].replace('/', '.') + '.' + frame.f_code.co_qualname)

            sys.setprofile(prof)
        aborted = False
        try:
            fn(ctx)
        except InfeasiblePath:
            aborted = True
            res.infeasible += 1
        except PathBudget:
            res.complete = False
            aborted = True
        except S.SymLeak as e:
            ctx._fail('harness:symleak', 'harness', None, ''.join(traceback.format_exception_only(type(e), e))[-300:] +
                      _tb_tail(e))
        except RecursionError as e:
            ctx._fail('harness:recursion', 'harness', None, str(e)[:200])
        except Exception as e:  # noqa
            if getattr(ctx, '_steering', None) is not None:
                # a path-steering exception raised inside __index__ was converted by numpy into an ordinary
                # IndexError: this is not an exception of the code under check
                aborted = True
                if ctx._steering == 'budget':
                    res.complete = False
                else:
                    res.infeasible += 1
            else:
                # an exception of the code under check on a feasible path: reported as a violation candidate,
                # confirmed (or rejected as harness error) by the concrete replay
                ctx.obligations += 1
                ctx._fail(f'exception:{type(e).__name__}', 'violation', ctx.path_model(), _tb_tail(e))
        finally:
            if prof is not None:
                sys.setprofile(None)
            _CUR[0] = None
        res.queries += ctx.nq
        res.solver_s += ctx.tq
        res.approx_branches += ctx.approx_branches
        if not aborted:
            res.paths += 1
            stats['paths'] = res.paths
            res.obligations += ctx.obligations
            res.discharged += ctx.discharged
            for k, v in ctx.notes.items():
                res.notes[k] = res.notes.get(k, 0) + v
            for f in ctx.failures:
                key = (f.label, f.kind)
                if key in seen_labels:
                    continue
                seen_labels.add(key)
                res.failures.append((f.label, f.kind, f.model, f.detail))
            if len(res.path_models) < n_models and not ctx.failures:
                _CUR[0] = ctx
                try:
                    m = ctx.path_model(generic=True)
                finally:
                    _CUR[0] = None
                if m is not None:
                    obs = []
                    # with uninterpreted functions / stub outputs the concrete run may legitimately take
                    # another branch: then only the obligations are compared, not intermediate values
                    for lab, vals in ([] if (ctx._uf or ctx._fresh) else ctx.observed):
                        obs.append((lab, _eval_obs(vals, m, S)))
                    res.path_models.append({'model': m, 'observed': obs})
            if len(res.samples) < 2:
                res.samples.append({
                    'path_condition': [str(c)[:160] for c in ctx.pc[:8]],
                    'decisions': len(ctx.pc),
                    'obligations': ctx.obligations
                })
        decisions = ctx.decisions
        while decisions and decisions[-1][1]:
            decisions.pop()
        if not decisions:
            break
        if res.paths >= max_paths or time.time() - t0 > max_wall:
            res.complete = False
            break
        decisions[-1] = [not decisions[-1][0], True]
    res.wall_s = time.time() - t0
    res.functions = sorted(res.functions)
    return res


def _tb_tail(e):
    tb = traceback.extract_tb(e.__traceback__)
    out = []
    for fr in tb[-4:]:
        out.append(f"{fr.filename.split('/')[-1]}:{fr.lineno}:{fr.name}")
    return f"{type(e).__name__}: {str(e)[:200]} @ " + ' < '.join(reversed(out))


def _eval_obs(vals, model, S):
    """evaluate observed symbolic values at the model -> list of [re, im] floats (None if not evaluable)"""
    val = {}
    for name, s in model.items():
        i = S.REG.by_name.get(name)
        if i is not None:
            try:
                val[i] = Fraction(s)
            except (ValueError, ZeroDivisionError):
                return None
    out = []
    for x in vals:
        try:
            if isinstance(x, S.R):
                if any(v not in val for v in x.vars()):
                    return None
                re, im = x.evalf(val)
                out.append([float(re), float(im)])
            elif isinstance(x, (int, float, np.integer, np.floating)):
                out.append([float(x), 0.0])
            elif isinstance(x, (complex, np.complexfloating)):
                out.append([float(x.real), float(x.imag)])
            else:
                return None
        except Exception:
            return None
    return out
