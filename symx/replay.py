"""concrete replay of harness functions (runs under /venv/bin/python, no z3)"""
import importlib
import json
import logging
import sys
import warnings


def main(inp, outp):
    warnings.simplefilter('ignore')
    logging.disable(logging.CRITICAL)
    from symx.concrete import run_concrete
    with open(inp) as f:
        items = json.load(f)
    out = []
    for it in items:
        try:
            mod = importlib.import_module(it['module'])
            fn = getattr(mod, it['fn'])
            params = it.get('params', {})
            if hasattr(mod, 'setup_concrete'):
                mod.setup_concrete(it)
            r = run_concrete(lambda ctx: fn(ctx, **params), it.get('model') or {}, it.get('opts'))
            r['observed'] = _clean(r.get('observed', []))
            out.append(r)
        except BaseException as e:  # noqa
            out.append({'error': f"{type(e).__name__}: {e}", 'failures': []})
    with open(outp, 'w') as f:
        json.dump(out, f, default=str)


def _clean(obs):
    res = []
    for lab, vals in obs:
        if isinstance(vals, list):
            res.append([lab, vals])
    return res


if __name__ == '__main__':
    main(sys.argv[1], sys.argv[2])
