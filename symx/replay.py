"""concrete replay of harness functions (runs under /venv/bin/python, no z3)"""
import importlib
import json
import logging
import os
import signal
import sys
import warnings


class ItemTimeout(BaseException):
    """one concrete run exceeded its deadline (VERIF_ITEM_TIMEOUT seconds, default 300): reported for that item only"""


def _alarm(signum, frame):
    raise ItemTimeout()


def main(inp, outp):
    warnings.simplefilter('ignore')
    logging.disable(logging.CRITICAL)
    from symx.concrete import run_concrete
    with open(inp) as f:
        items = json.load(f)
    out = []
    deadline = int(os.environ.get('VERIF_ITEM_TIMEOUT', '300'))
    try:
        signal.signal(signal.SIGALRM, _alarm)
    except (ValueError, AttributeError):  # not the main thread / no SIGALRM: no per-item deadline
        deadline = 0
    for it in items:
        try:
            if deadline:
                signal.alarm(int((it.get('opts') or {}).get('replay_timeout_s', deadline)))
            mod = importlib.import_module(it['module'])
            fn = getattr(mod, it['fn'])
            params = it.get('params', {})
            if hasattr(mod, 'setup_concrete'):
                mod.setup_concrete(it)
            r = run_concrete(lambda ctx: fn(ctx, **params), it.get('model') or {}, it.get('opts'))
            r['observed'] = _clean(r.get('observed', []))
            out.append(r)
        except ItemTimeout:
            out.append({'error': 'replay item timeout (hang?)', 'failures': []})
        except BaseException as e:  # noqa
            out.append({'error': f"{type(e).__name__}: {e}", 'failures': []})
        finally:
            if deadline:
                signal.alarm(0)
    with open(outp, 'w') as f:
        json.dump(out, f, default=str)
        f.flush()
    sys.stdout.flush()
    os._exit(0)  # threads left behind by a hanging scenario must not keep the replay process alive


def _clean(obs):
    res = []
    for lab, vals in obs:
        if isinstance(vals, list):
            res.append([lab, vals])
    return res


if __name__ == '__main__':
    main(sys.argv[1], sys.argv[2])
