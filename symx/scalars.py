"""Symbolic scalars that live inside numpy ``dtype=object`` arrays.

R  complex rational function over real symbols, kept as a *canonical sparse (Laurent) polynomial*
   numerator and an optional polynomial denominator; z3 terms are emitted from that form.
I  integer z3 term (Python semantics for % and // by positive constants).
B  z3 Bool; ``bool(B)`` asks the engine to branch.

No ``__array_priority__`` on purpose (numpy would defer in-place array ops to the scalar).
This module is only imported in symbolic mode (python3-vt, needs z3).
"""
import numbers
from fractions import Fraction

import numpy as np
import z3

from . import engine as _eng


class SymLeak(TypeError):
    """a symbolic value reached a place that needs a concrete number (C buffer, float(), ...)"""


# ------------------------------------------------------------------------------------------
# variable registry (per case; reset by engine.reset_registry())
class Registry:
    def __init__(self):
        self.names = []  # id -> name
        self.by_name = {}
        self.kind = []  # 'r' real, 'p' positive, 'n' non-negative, 's' sqrt-defined, 'u' uninterpreted, 'f' fresh (stub output)
        self.z3v = []
        self.sqrt_def = {}  # id -> (numerator dict) radicand
        self.inputs = []  # ids that are harness inputs

    def var(self, name, kind='r', is_input=False):
        i = self.by_name.get(name)
        if i is None:
            i = len(self.names)
            self.names.append(name)
            self.by_name[name] = i
            self.kind.append(kind)
            self.z3v.append(z3.Real(name))
            if is_input:
                self.inputs.append(i)
        return i


REG = Registry()


def reset_registry():
    global REG
    REG = Registry()
    _eng.REG_HOOK[0] = REG
    return REG


# ------------------------------------------------------------------------------------------
# polynomial helpers on dicts  {monomial: (re, im)}, monomial = tuple of (varid, exp) sorted
_ONE = ()


def _frac(x):
    if isinstance(x, (int, Fraction)):
        return x
    if isinstance(x, (bool, np.bool_)):
        return int(x)
    if isinstance(x, np.integer):
        return int(x)
    f = float(x)
    if f != f or f in (float('inf'), float('-inf')):
        raise SymLeak("nan/inf constant")
    if f == int(f) and abs(f) < 2**53:
        return int(f)
    return Fraction(f)  # exact binary value


def _pconst(c):
    if isinstance(c, (complex, np.complexfloating)):
        re, im = _frac(c.real), _frac(c.imag)
    else:
        re, im = _frac(c), 0
    if re == 0 and im == 0:
        return {}
    return {_ONE: (re, im)}


def _padd(a, b, sign=1):
    if not b:
        return a
    d = dict(a)
    for m, (x, y) in b.items():
        if sign < 0:
            x, y = -x, -y
        c = d.get(m)
        if c is None:
            d[m] = (x, y)
        else:
            r = (c[0] + x, c[1] + y)
            if r[0] == 0 and r[1] == 0:
                del d[m]
            else:
                d[m] = r
    return d


def _mmul(m1, m2):
    if not m1:
        return m2
    if not m2:
        return m1
    mm = dict(m1)
    for v, e in m2:
        s = mm.get(v, 0) + e
        if s:
            mm[v] = s
        else:
            del mm[v]
    return tuple(sorted(mm.items()))


def _pmul(a, b):
    if not a or not b:
        return {}
    if len(a) > len(b):
        a, b = b, a
    d = {}
    for m1, (a1, b1) in a.items():
        for m2, (a2, b2) in b.items():
            m = _mmul(m1, m2)
            if b1 == 0 and b2 == 0:
                re, im = a1 * a2, 0
            else:
                re = a1 * a2 - b1 * b2
                im = a1 * b2 + b1 * a2
            c = d.get(m)
            if c is None:
                d[m] = (re, im)
            else:
                d[m] = (c[0] + re, c[1] + im)
    d = {m: c for m, c in d.items() if c[0] != 0 or c[1] != 0}
    if REG.sqrt_def:
        d = _reduce_sqrt(d)
    return d


def _reduce_sqrt(d):
    """rewrite w**2 -> radicand for sqrt-defined variables (canonical form modulo w^2 = x)"""
    sd = REG.sqrt_def
    again = True
    while again:
        again = False
        for m in d:
            hit = None
            for v, e in m:
                if e >= 2 and v in sd:
                    hit = (v, e)
                    break
            if hit is not None:
                again = True
                break
        if not again:
            break
        v, e = hit
        c = d.pop(m)
        rest = tuple((vv, ee) for vv, ee in m if vv != v)
        if e % 2:
            rest = _mmul(rest, ((v, 1), ))
        term = {rest: c}
        rad = sd[v]
        for _ in range(e // 2):
            term = _pmul_raw(term, rad)
        d = _padd(d, term)
    return d


def _clear_neg_sqrt(d):
    """multiply a Laurent polynomial by powers of (non-zero) sqrt variables until none of them has a negative
    exponent, reducing w**2 -> radicand on the way: the result is zero iff the input is zero"""
    if not REG.sqrt_def:
        return d
    for _ in range(12):
        worst = None
        for m in d:
            for v, e in m:
                if e < 0 and v in REG.sqrt_def and (worst is None or e < worst[1]):
                    worst = (v, e)
        if worst is None:
            return d
        v, e = worst
        d = _reduce_sqrt({_mmul(m, ((v, -e), )): c for m, c in d.items()})
    return d


def _pmul_raw(a, b):
    d = {}
    for m1, (a1, b1) in a.items():
        for m2, (a2, b2) in b.items():
            m = _mmul(m1, m2)
            re = a1 * a2 - b1 * b2
            im = a1 * b2 + b1 * a2
            c = d.get(m)
            d[m] = (re, im) if c is None else (c[0] + re, c[1] + im)
    return {m: c for m, c in d.items() if c[0] != 0 or c[1] != 0}


def _pneg(a):
    return {m: (-x, -y) for m, (x, y) in a.items()}


def _pconj(a):
    return {m: (x, -y) for m, (x, y) in a.items()}


def _pscale(a, re, im=0):
    if im == 0:
        if re == 1:
            return a
        if re == 0:
            return {}
        return {m: (x * re, y * re) for m, (x, y) in a.items()}
    return {m: (x * re - y * im, x * im + y * re) for m, (x, y) in a.items()}


def _is_const(a):
    return not a or (len(a) == 1 and _ONE in a)


def _const_val(a):
    if not a:
        return (0, 0)
    return a[_ONE]


def _is_real(a):
    return all(y == 0 for (_, y) in a.values())


def _z3num(x):
    if isinstance(x, int):
        return z3.RealVal(x)
    return z3.RealVal(f"{x.numerator}/{x.denominator}")


def _mono_z3(m):
    t = None
    den = None
    for v, e in m:
        zv = REG.z3v[v]
        for _ in range(abs(e)):
            if e > 0:
                t = zv if t is None else t * zv
            else:
                den = zv if den is None else den * zv
    if t is None:
        t = z3.RealVal(1)
    if den is not None:
        t = t / den
    return t


def _poly_z3(a, part):
    """z3 Real term of the real (part=0) or imaginary (part=1) part, canonical order"""
    terms = []
    for m in sorted(a):
        c = a[m][part]
        if c == 0:
            continue
        if not m:
            terms.append(_z3num(c))
        elif c == 1:
            terms.append(_mono_z3(m))
        else:
            terms.append(_z3num(c) * _mono_z3(m))
    if not terms:
        return z3.RealVal(0)
    if len(terms) == 1:
        return terms[0]
    return z3.Sum(terms)


def _poly_eval(a, val):
    """exact evaluation with Fractions; val: varid -> Fraction"""
    re = Fraction(0)
    im = Fraction(0)
    for m, (x, y) in a.items():
        p = Fraction(1)
        for v, e in m:
            p *= Fraction(val[v])**e
        re += x * p
        im += y * p
    return re, im


def _vars_of(a, out):
    for m in a:
        for v, _ in m:
            out.add(v)


def _obviously_positive(a, depth=0):
    """polynomial that is > 0 for all admissible values by inspection: real positive coefficients, every variable
    positive / non-negative / a sqrt variable / with an even exponent, and at least one strictly positive monomial"""
    if not a or depth > 4:
        return False
    strict = False
    for m, (x, y) in a.items():
        if y != 0 or x <= 0:
            return False
        mono_strict = True
        for v, e in m:
            k = REG.kind[v]
            if k == 'p':
                continue
            if k == 's':
                rad = REG.sqrt_def.get(v)
                if rad is not None and _obviously_positive(rad, depth + 1):
                    continue
                mono_strict = False
                continue  # sqrt variables are >= 0
            if k == 'n' or e % 2 == 0:
                mono_strict = False
                continue
            return False
        strict = strict or mono_strict
    return strict


def _conj_pair(a, b):
    """b is the complex conjugate polynomial of a (then a*b = |a|^2 >= 0); cheap early exit on the first mismatch"""
    if len(a) != len(b) or not a:
        return False
    for m, (x, y) in a.items():
        c = b.get(m)
        if c is None or c[0] != x or c[1] != -y:
            return False
    return True


def _even_common_factor(a):
    """largest monomial g with even exponents of sign-definite variables (positive / non-negative / sqrt variables;
    negative exponents only occur for variables that were divided by, i.e. non-zero on this path) dividing every
    monomial of the Laurent polynomial a;  sqrt(a) = sqrt(g) * sqrt(a / g).  Returns {} if trivial."""
    g = None
    for m in a:
        d = {v: e for v, e in m if REG.kind[v] in 'pns'}
        if g is None:
            g = d
        else:
            g = {v: min(e, d[v]) for v, e in g.items() if v in d}
        if not g:
            return {}
    # only negative powers are pulled out (normalised intermediate states theta / norm): positive common factors stay
    # under the root so that a norm remains a *pure* sqrt variable for lazy_cmp / note_norm_parts
    g = {v: (e - (e % 2)) for v, e in g.items() if e < 0}
    return {v: e for v, e in g.items() if e != 0}


def _positive_monomial(a):
    """single monomial, positive real coefficient, all variables positive"""
    if len(a) != 1:
        return False
    (m, (x, y)), = a.items()
    if y != 0 or x <= 0:
        return False
    return all(REG.kind[v] == 'p' for v, _ in m)


# ------------------------------------------------------------------------------------------
class B:
    __slots__ = ('t', )

    def __init__(self, t):
        self.t = t

    def __bool__(self):
        return _eng.cur().branch(self.t)

    def __index__(self):
        return int(bool(self))

    def __and__(self, o):
        return B(z3.And(self.t, _bt(o)))

    __rand__ = __and__

    def __or__(self, o):
        return B(z3.Or(self.t, _bt(o)))

    __ror__ = __or__

    def __invert__(self):
        return B(z3.Not(self.t))

    def __xor__(self, o):
        return B(z3.Xor(self.t, _bt(o)))

    __rxor__ = __xor__

    def __repr__(self):
        return f"B({self.t})"


class BZ(B):
    """the comparison ``poly == 0``.  Opt-in (case option ``path_eq_hyps``): when a path takes its true side, the polynomial
    is also recorded as a hypothesis for ``symx.ideal`` (obligations that hold modulo a polynomial equality of the path)"""
    __slots__ = ('poly', )

    def __init__(self, t, poly):
        self.t = t
        self.poly = poly

    def __bool__(self):
        ctx = _eng.cur()
        r = ctx.branch(self.t)
        if r and ctx.opts.get('path_eq_hyps') and not self.poly.poison:
            ctx.side_R.append(self.poly)
        return r


class BP(B):
    """an order comparison of a value with a constant c >= 0 whose outcome `when` implies that the value is > 0; the
    engine context then remembers the value (canonical key) as non-zero for later divisions on the same path"""
    __slots__ = ('key', 'when')

    def __init__(self, t, key, when):
        self.t = t
        self.key = key
        self.when = when

    def __bool__(self):
        ctx = _eng.cur()
        r = ctx.branch(self.t)
        if r == self.when:
            ctx.__dict__.setdefault('_nonzero_keys', set()).add(self.key)
        return r


def _bt(o):
    if isinstance(o, B):
        return o.t
    if isinstance(o, z3.BoolRef):
        return o
    return z3.BoolVal(bool(o))


def _mkB(t):
    """concrete Python bool if the formula is trivially decided, else B"""
    t = z3.simplify(t)
    if z3.is_true(t):
        return True
    if z3.is_false(t):
        return False
    return B(t)


# ------------------------------------------------------------------------------------------
class R:
    """complex rational function n/d with canonical sparse numerator / denominator"""
    __slots__ = ('n', 'd', 'poison', '_z', 'nn')

    def __init__(self, n, d=None, poison=False, nn=False):
        self.n = n
        self.d = d
        self.poison = poison
        self._z = None
        self.nn = nn  # syntactically known to be real and >= 0 (sum / product of |x|^2, sqrt, positive symbols, constants >= 0)

    # -- construction
    @staticmethod
    def lift(o):
        if isinstance(o, R):
            return o
        if isinstance(o, (bool, np.bool_, int, float, complex, Fraction, np.number)):
            n = _pconst(o)
            return R(n, nn=(not n) or (n[_ONE][1] == 0 and n[_ONE][0] > 0))
        if isinstance(o, I):
            t = z3.simplify(o.t)
            if z3.is_int_value(t):
                return R(_pconst(t.as_long()))
            # integer term as a real variable tied to it
            return _int_as_real(o)
        return None

    @staticmethod
    def var(name, kind='r', is_input=False):
        i = REG.var(name, kind, is_input)
        return R({((i, 1), ): (1, 0)}, nn=kind in ('p', 'n'))

    # -- predicates
    def is_const(self):
        return self.d is None and _is_const(self.n) and not self.poison

    def const(self):
        re, im = _const_val(self.n)
        return complex(float(re), float(im)) if im != 0 else float(re)

    def is_real(self):
        return _is_real(self.n) and (self.d is None or _is_real(self.d))

    # -- z3
    def z3(self):
        """(re, im) z3 Real terms"""
        if self._z is None:
            if self.poison:
                raise SymLeak("poison value (division by zero) used in a formula")
            re, im = _poly_z3(self.n, 0), _poly_z3(self.n, 1)
            if self.d is not None:
                dre, dim = _poly_z3(self.d, 0), _poly_z3(self.d, 1)
                if _is_real(self.d):
                    re, im = re / dre, im / dre
                else:
                    nn = dre * dre + dim * dim
                    re, im = (re * dre + im * dim) / nn, (im * dre - re * dim) / nn
            self._z = (re, im)
        return self._z

    def zre(self):
        if not self.is_real():
            raise SymLeak("real part of complex value needed as real: use .real")
        return self.z3()[0]

    # -- arithmetic
    def __add__(self, o, sign=1):
        o = R.lift(o)
        if o is None:
            return NotImplemented
        if self.poison or o.poison:
            return POISON
        if self.d is None and o.d is None:
            return R(_padd(self.n, o.n, sign), nn=sign > 0 and self.nn and o.nn)
        if self.d is not None and o.d is not None and self.d == o.d:
            return R(_padd(self.n, o.n, sign), self.d)._norm()
        sd = self.d if self.d is not None else {_ONE: (1, 0)}
        od = o.d if o.d is not None else {_ONE: (1, 0)}
        return R(_padd(_pmul(self.n, od), _pmul(o.n, sd), sign), _pmul(sd, od))._norm()

    __radd__ = __add__

    def __sub__(self, o):
        return self.__add__(o, -1)

    def __rsub__(self, o):
        o = R.lift(o)
        if o is None:
            return NotImplemented
        return o.__add__(self, -1)

    def __neg__(self):
        if self.poison:
            return POISON
        return R(_pneg(self.n), self.d)

    def __pos__(self):
        return self

    def __mul__(self, o):
        o = R.lift(o)
        if o is None:
            return NotImplemented
        if self.poison or o.poison:
            return POISON
        n = _pmul(self.n, o.n)
        if self.d is None and o.d is None:
            return R(n, nn=(self.nn and o.nn) or _conj_pair(self.n, o.n))
        if self.d is None:
            d = o.d
        elif o.d is None:
            d = self.d
        else:
            d = _pmul(self.d, o.d)
        return R(n, d)._norm()

    __rmul__ = __mul__

    def _norm(self):
        if self.d is None:
            return self
        if not self.n:
            return R({})
        if self.d == self.n:
            return R({_ONE: (1, 0)})
        if len(self.d) == 1:
            (m, (x, y)), = self.d.items()
            inv = tuple((v, -e) for v, e in m)
            nn = x * x + y * y
            n = {_mmul(mm, inv): c for mm, c in self.n.items()}
            n = _pscale(n, Fraction(x, 1) / nn, Fraction(-y, 1) / nn)
            n = {mm: (_simp(a), _simp(b)) for mm, (a, b) in n.items()}
            return R(n)
        return self

    def inv(self):
        if self.poison:
            return POISON
        if not self.n:
            return POISON
        num = self.d if self.d is not None else {_ONE: (1, 0)}
        nz = False
        if _is_const(self.n) or _positive_monomial(self.n) or _obviously_positive(self.n):
            nz = True
        elif len(self.n) == 1:
            # single monomial: zero iff one of its variables is zero
            nz = None
        if nz is not True and self.d is None and _eng._key_of(self) in _eng.cur().__dict__.get('_nonzero_keys', ()):
            nz = True  # `self > c >= 0` was decided on this path (BP)
        if nz is not True:
            # fork on denominator == 0 (numpy would give inf/nan there)
            cur = _eng.cur()
            if nz is False and len(self.n) > 1 and cur.opts.get('named_zero_tests') and hasattr(cur, 'named_zero'):
                iszero = cur.named_zero(self)  # opt-in: `z == 0` with z := denominator defined aside (linear branch context)
            else:
                iszero = (self == 0)
            if bool(iszero):
                return POISON
        r = R(num, self.n)._norm()
        if self.nn and self.d is None:
            r.nn = True  # 1/x for x >= 0, x != 0 on this path
        return r

    def __truediv__(self, o):
        o = R.lift(o)
        if o is None:
            return NotImplemented
        if self.poison or o.poison:
            return POISON
        return self * o.inv()

    def __rtruediv__(self, o):
        o = R.lift(o)
        if o is None:
            return NotImplemented
        return o * self.inv()

    def __pow__(self, k):
        if isinstance(k, R):
            if not k.is_const():
                raise SymLeak("symbolic exponent")
            k = k.const()
        if isinstance(k, I):
            k = int(k)
        kf = Fraction(k).limit_denominator(64) if not isinstance(k, (int, np.integer)) else Fraction(int(k))
        if abs(float(kf) - float(k)) > 1e-12:
            raise SymLeak(f"unsupported exponent {k}")
        if self.poison:
            return POISON
        if kf.denominator == 1:
            k = int(kf)
            if k == 0:
                return R(_pconst(1))
            base = self if k > 0 else self.inv()
            r = base
            for _ in range(abs(k) - 1):
                r = r * base
            return r
        if kf.denominator == 2:
            s = self.sqrt()
            return s**int(kf.numerator)
        raise SymLeak(f"unsupported exponent {k}")

    def __rpow__(self, o):
        if self.is_const():
            return R.lift(o)**self.const()
        raise SymLeak("symbolic exponent")

    def conjugate(self):
        if self.poison:
            return POISON
        if self.is_real():
            return self
        return R(_pconj(self.n), None if self.d is None else _pconj(self.d))

    conj = conjugate

    @property
    def real(self):
        if self.poison:
            return POISON
        if self.is_real():
            return self
        if self.d is None:
            return R({m: (x, 0) for m, (x, y) in self.n.items() if x != 0})
        c = self.conjugate()
        return (self + c) * R(_pconst(Fraction(1, 2)))

    @property
    def imag(self):
        if self.poison:
            return POISON
        if self.is_real():
            return R({})
        if self.d is None:
            return R({m: (y, 0) for m, (x, y) in self.n.items() if y != 0})
        c = self.conjugate()
        return (self - c) * R({_ONE: (0, Fraction(-1, 2))})

    def abs2(self):
        r = (self * self.conjugate()).real
        if not r.poison:
            r.nn = True
        return r

    def __abs__(self):
        if self.poison:
            return POISON
        if self.is_const():
            return R(_pconst(abs(self.const())))
        if self.is_real():
            if self.nn or (self.d is None and _positive_monomial(self.n)):
                return self
            if _eng.cur().opts.get('lazy_abs'):
                # opt-in per case: |x| = sqrt(x*x) as a sqrt variable instead of a fork on the sign (keeps a
                # non-linear sign condition out of the path condition when only `|x| > tol` is asked afterwards)
                return (self * self).sqrt()
            # fork on the sign keeps polynomials canonical
            if bool(self >= 0):
                return self
            return -self
        return self.abs2().sqrt()

    def sqrt(self):
        if self.poison:
            return POISON
        if not self.is_real():
            raise SymLeak("sqrt of complex")
        if self.d is not None and _obviously_positive(self.d):
            # sqrt(n/d) = sqrt(n)/sqrt(d) for d > 0
            return R(self.n).sqrt() * R(self.d).sqrt().inv()
        if self.d is None and REG.sqrt_def and len(self.n) > 1:
            # radicand with negative powers of a sqrt variable w (w != 0 was forked at the division that produced them):
            # sqrt(x) = sqrt(x * w**(2k)) / w**k  keeps radicands free of Laurent terms (w*w is rewritten to its radicand)
            worst = None
            for m in self.n:
                for v, e in m:
                    if e < 0 and v in REG.sqrt_def and (worst is None or e < worst[1]):
                        worst = (v, e)
            if worst is not None:
                v, e = worst
                k = (-e + 1) // 2
                xw = self * R({((v, 2 * k), ): (1, 0)})
                return xw.sqrt() * R({((v, -k), ): (1, 0)}, nn=True)  # (nn: a power of a sqrt variable is >= 0)
        if self.is_const():
            c = self.const()
            if c < 0:
                return POISON
            fr = _const_val(self.n)[0]
            fr = Fraction(fr)
            import math
            a, b = math.isqrt(fr.numerator), math.isqrt(fr.denominator)
            if a * a == fr.numerator and b * b == fr.denominator:
                return R(_pconst(Fraction(a, b)))
            return _eng.cur().const_sqrt(fr)
        # monomial with even exponents and square coefficient of positive vars
        if self.d is None and len(self.n) == 1:
            (m, (x, y)), = self.n.items()
            if x > 0 and all(e % 2 == 0 and REG.kind[v] in 'pns' for v, e in m):
                import math
                fr = Fraction(x)
                a, b = math.isqrt(fr.numerator), math.isqrt(fr.denominator)
                if a * a == fr.numerator and b * b == fr.denominator:
                    return R({tuple((v, e // 2) for v, e in m): (Fraction(a, b) if b != 1 else a, 0)}, nn=True)
        if self.d is None and len(self.n) > 1:
            # sqrt(w**-2 * q) = w**-1 * sqrt(q) for a non-zero sqrt / positive variable w (norms of normalised states)
            g = _even_common_factor(self.n)
            if g:
                ginv = tuple(sorted((v, -e) for v, e in g.items()))
                q = R({_mmul(m, ginv): c for m, c in self.n.items()}, nn=self.nn)
                r = q.sqrt() * R({tuple(sorted((v, e // 2) for v, e in g.items())): (1, 0)}, nn=True)
                if not r.poison:
                    r.nn = True
                return r
        w = _eng.cur().sqrt_var(self)
        w.nn = True  # a square root is >= 0 by definition
        return w

    def log(self):
        return _eng.cur().uf_apply('log', self)

    def exp(self):
        if self.is_const() and self.const() == 0:
            return R(_pconst(1))
        return _eng.cur().uf_apply('exp', self)

    # -- comparisons
    def _diff(self, o):
        o = R.lift(o)
        if o is None:
            raise TypeError(f"cannot compare R with {type(o)}")
        return self - o

    def _cmp(self, o, op):
        if isinstance(o, I):
            o = R.lift(o)
        if isinstance(o, (float, np.floating)) and o in (float('inf'), float('-inf')):
            return False if self.poison else bool(op(0, 1 if o > 0 else -1))  # every real value is < +inf and > -inf
        if self.nn and not self.poison and isinstance(o, (int, float, np.integer, np.floating)) and o == 0:
            ge, gt = bool(op(1, 0)), bool(op(0, 0))  # (op(positive, 0), op(0, 0)): '>=' -> (T, T), '<' -> (F, F)
            if ge == gt:
                return ge  # a syntactically non-negative value: `>= 0` holds, `< 0` does not (no solver query)
        d = self._diff(o)
        if d.poison:
            return False  # numpy: comparisons with nan are False
        if d.is_const():
            c = _const_val(d.n)
            if c[1] != 0:
                raise SymLeak("order comparison of complex numbers")
            return op(c[0], 0)
        if not d.is_real():
            raise SymLeak("order comparison of complex numbers")
        lz = _eng.cur().lazy_cmp(self, R.lift(o), op)
        if lz is None and d.d is None and REG.sqrt_def and any(e < 0 and v in REG.sqrt_def for m in d.n for v, e in m):
            # a sqrt variable in a denominator is positive (the division forked on it being zero): multiplying the
            # difference by its powers keeps the sign and removes the division from the query
            d = R(_clear_neg_sqrt(d.n))
            if d.is_const():
                return op(_const_val(d.n)[0], 0)
        res = lz if lz is not None else _mkB(op(d.z3()[0], z3.RealVal(0)))
        o2 = R.lift(o)
        if isinstance(res, B) and o2 is not None and o2.is_const() and self.d is None:
            # `x > c` (c >= 0) taken on a path makes x a known non-zero value: a later `1/x` does not fork again (BP below)
            c = _const_val(o2.n)[0]
            gt, eq, lt = bool(op(1, 0)), bool(op(0, 0)), bool(op(0, 1))
            if c >= 0 and gt and not lt and (not eq or c > 0):
                return BP(res.t, _eng._key_of(self), True)
            if c >= 0 and lt and not gt and (eq or c > 0):
                return BP(res.t, _eng._key_of(self), False)
        return res

    def __lt__(self, o):
        return self._cmp(o, lambda a, b: a < b)

    def __le__(self, o):
        return self._cmp(o, lambda a, b: a <= b)

    def __gt__(self, o):
        return self._cmp(o, lambda a, b: a > b)

    def __ge__(self, o):
        return self._cmp(o, lambda a, b: a >= b)

    def __eq__(self, o):
        if isinstance(o, np.ndarray):
            return NotImplemented
        o2 = R.lift(o)
        if o2 is None:
            return False
        d = self - o2
        if d.poison:
            return False
        if d.is_const():
            c = _const_val(d.n)
            return c[0] == 0 and c[1] == 0
        if d.d is not None:
            d = R(d.n)  # n/d == 0 <=> n == 0 (d != 0 was forked at division)
        if REG.sqrt_def:
            d = R(_clear_neg_sqrt(d.n))
            if d.is_const():
                c = _const_val(d.n)
                return c[0] == 0 and c[1] == 0
            if len(d.n) == 1:
                # c * w == 0 for a single sqrt variable w  <=>  radicand == 0 (the definition of w is not in the branch context)
                (m, _c), = d.n.items()
                if len(m) == 1 and m[0][1] == 1 and m[0][0] in REG.sqrt_def and not (
                        _eng._CUR[0] is not None and _eng._CUR[0].opts.get('named_zero_tests')):
                    # (with the opt-in 'named_zero_tests' the linear test `w == 0` is kept: over-approximates the paths)
                    # (same z3 term as the radicand in engine.lazy_cmp, so that `w > c` on the path refutes it linearly)
                    rad = R(REG.sqrt_def[m[0][0]])
                    if any(e < 0 for mm in rad.n for _, e in mm):
                        return rad == 0
                    b = _mkB(rad.z3()[0] == 0)
                    return BZ(b.t, rad) if isinstance(b, B) else b
        if len(d.n) == 1 and not REG.sqrt_def:
            (m, _c), = d.n.items()
            if all(REG.kind[v] == 'p' for v, _ in m):
                return False
        re, im = d.z3()
        b = _mkB(re == 0) if _is_real(d.n) else _mkB(z3.And(re == 0, im == 0))
        return BZ(b.t, d) if isinstance(b, B) else b

    def __ne__(self, o):
        if isinstance(o, np.ndarray):
            return NotImplemented
        e = self.__eq__(o)
        if isinstance(e, B):
            return B(z3.Not(e.t))
        return not e

    __hash__ = None

    def __bool__(self):
        return bool(self != 0)

    def __float__(self):
        if self.is_const():
            c = self.const()
            if isinstance(c, complex):
                raise TypeError("float() of complex")
            return c
        raise SymLeak("float() of a symbolic value")

    def __complex__(self):
        if self.is_const():
            return complex(self.const())
        raise SymLeak("complex() of a symbolic value")

    def __int__(self):
        if self.is_const():
            return int(self.const())
        raise SymLeak("int() of a symbolic value")

    def __round__(self, n=None):
        if self.is_const():
            return round(self.const(), n)
        raise SymLeak("round() of a symbolic value")

    def __repr__(self):
        if self.poison:
            return "R(POISON)"
        if self.is_const():
            return f"R({self.const()})"
        return f"R(<{len(self.n)} monomials{'/den' if self.d is not None else ''}>)"

    def __format__(self, spec):
        return repr(self)

    def evalf(self, val):
        """exact value at an assignment varid->Fraction (complex as pair)"""
        if self.poison:
            return (float('nan'), float('nan'))
        re, im = _poly_eval(self.n, val)
        if self.d is not None:
            dre, dim = _poly_eval(self.d, val)
            nn = dre * dre + dim * dim
            if nn == 0:
                return (float('nan'), float('nan'))
            re, im = (re * dre + im * dim) / nn, (im * dre - re * dim) / nn
        return re, im

    def vars(self, out=None):
        out = set() if out is None else out
        _vars_of(self.n, out)
        if self.d is not None:
            _vars_of(self.d, out)
        return out


def _simp(x):
    if isinstance(x, Fraction) and x.denominator == 1:
        return x.numerator
    return x


POISON = R({}, None, True)

numbers.Complex.register(R)


def _int_as_real(o):
    return _eng.cur().int_as_real(o)


# ------------------------------------------------------------------------------------------
class I:
    """symbolic integer (z3 Int term)"""
    __slots__ = ('t', )

    def __init__(self, t):
        self.t = t if isinstance(t, z3.ExprRef) else z3.IntVal(int(t))

    @staticmethod
    def l(o):
        if isinstance(o, I):
            return o.t
        if isinstance(o, (int, np.integer, bool, np.bool_)):
            return z3.IntVal(int(o))
        if isinstance(o, B):
            return z3.If(o.t, z3.IntVal(1), z3.IntVal(0))
        raise TypeError(type(o))

    @staticmethod
    def _ok(o):
        return isinstance(o, (I, int, np.integer, bool, np.bool_, B))

    def concrete(self):
        t = z3.simplify(self.t)
        if z3.is_int_value(t):
            return t.as_long()
        return None

    def __add__(self, o):
        return I(self.t + I.l(o)) if I._ok(o) else NotImplemented

    __radd__ = __add__

    def __sub__(self, o):
        return I(self.t - I.l(o)) if I._ok(o) else NotImplemented

    def __rsub__(self, o):
        return I(I.l(o) - self.t) if I._ok(o) else NotImplemented

    def __mul__(self, o):
        if I._ok(o):
            return I(self.t * I.l(o))
        if isinstance(o, (R, float, complex, np.floating, np.complexfloating)):
            return R.lift(self) * o
        return NotImplemented

    __rmul__ = __mul__

    def __neg__(self):
        return I(-self.t)

    def __pos__(self):
        return self

    def __abs__(self):
        return I(z3.If(self.t >= 0, self.t, -self.t))

    def _posdiv(self, o):
        d = I.l(o)
        ds = z3.simplify(d)
        if not z3.is_int_value(ds):
            # symbolic divisor: python floor semantics only coincide with z3 for positive divisors
            if not _eng.cur().branch(ds > 0):
                raise SymLeak("division / modulo by a symbolic integer that may be non-positive")
        elif ds.as_long() <= 0:
            raise SymLeak("division / modulo by non-positive constant")
        return d

    def __mod__(self, o):
        if not I._ok(o):
            return NotImplemented
        return I(self.t % self._posdiv(o))

    def __rmod__(self, o):
        if not I._ok(o):
            return NotImplemented
        return I(o) % self

    def __floordiv__(self, o):
        if not I._ok(o):
            return NotImplemented
        return I(self.t / self._posdiv(o))

    def __rfloordiv__(self, o):
        if not I._ok(o):
            return NotImplemented
        return I(o) // self

    def __divmod__(self, o):
        return (self // o, self % o)

    def __truediv__(self, o):
        return R.lift(self) / o

    def __rtruediv__(self, o):
        return R.lift(o) / R.lift(self)

    def _c(self, o, op):
        if isinstance(o, R):
            return op(R.lift(self), o)
        if not I._ok(o):
            if isinstance(o, (float, np.floating)):
                return op(R.lift(self), o)
            return NotImplemented
        return _mkB(op(self.t, I.l(o)))

    def __lt__(self, o):
        return self._c(o, lambda a, b: a < b)

    def __le__(self, o):
        return self._c(o, lambda a, b: a <= b)

    def __gt__(self, o):
        return self._c(o, lambda a, b: a > b)

    def __ge__(self, o):
        return self._c(o, lambda a, b: a >= b)

    def __eq__(self, o):
        if isinstance(o, np.ndarray):
            return NotImplemented
        if not I._ok(o):
            if isinstance(o, (float, np.floating, R)):
                return R.lift(self) == o
            return False
        return _mkB(self.t == I.l(o))

    def __ne__(self, o):
        if isinstance(o, np.ndarray):
            return NotImplemented
        e = self.__eq__(o)
        if isinstance(e, B):
            return B(z3.Not(e.t))
        return not e

    def __hash__(self):
        return 0  # dict / set look-ups then probe candidates with == (which forks)

    def __bool__(self):
        return bool(self != 0)

    def __index__(self):
        c = self.concrete()
        if c is not None:
            return c
        return _eng.cur().enumerate_int(self.t)

    __int__ = __index__

    def __float__(self):
        c = self.concrete()
        if c is not None:
            return float(c)
        raise SymLeak("float() of symbolic integer")

    def conjugate(self):
        return self

    @property
    def real(self):
        return self

    @property
    def imag(self):
        return I(0)

    def __repr__(self):
        return f"I({z3.simplify(self.t)})"

    def __format__(self, spec):
        return repr(self)


numbers.Integral.register(I)


def is_sym(x):
    return isinstance(x, (R, I, B))


def has_sym(x):
    if isinstance(x, (R, I, B)):
        return True
    if isinstance(x, np.ndarray):
        return x.dtype == object and any(isinstance(v, (R, I, B)) for v in x.reshape(-1))
    if isinstance(x, (list, tuple)):
        return any(has_sym(v) for v in x)
    return False
