"""Runs the cases of one property in parallel, replays counterexamples against the real code,
validates sampled path models against the implementation, applies the known-findings file and
writes the evidence.  Runs under python3-vt (symbolic mode)."""
import hashlib
import importlib
import json
import multiprocessing as mp
import os
import subprocess
import sys
import time
import traceback

VERIF = os.path.dirname(os.path.dirname(os.path.abspath(__file__)))
REPO = os.environ.get('VERIF_REPO', '/repo')
VENV_PY = os.environ.get('VERIF_VENV_PY', '/venv/bin/python')
# VERIF_OUT redirects evidence / replays (used when the checks are run against a seeded scratch tree)
OUT = os.environ.get('VERIF_OUT', VERIF)

EXIT_OK, EXIT_VIOLATION, EXIT_HARNESS = 0, 1, 3


def _case_worker(modname, case, conn):
    try:
        os.environ['TENPY_NO_CYTHON'] = '1'
        os.environ['TENPY_VERIF_SYMBOLIC'] = '1'
        import warnings
        import logging
        warnings.simplefilter('ignore')
        logging.disable(logging.CRITICAL)
        from symx import engine
        mod = importlib.import_module(modname)
        if case.get('module'):  # a case may live in another module (shared case families, e.g. MPS/MPO-level aliasing)
            mod = importlib.import_module(case['module'])
        fn = getattr(mod, case['fn'])
        params = case.get('params', {})
        if hasattr(mod, 'setup_symbolic'):
            mod.setup_symbolic(case)
        res = engine.explore(lambda ctx: fn(ctx, **params), case['name'], case.get('opts', {}))
        if hasattr(mod, 'finish_case'):  # optional: work on the collected path witnesses in the (parallel) case worker (C04)
            mod.finish_case(case, res)
        d = res.to_dict()
        conn.send(('ok', d))
    except BaseException as e:  # noqa
        conn.send(('error', ''.join(traceback.format_exception(type(e), e, e.__traceback__))[-3000:]))
    finally:
        conn.close()


def run_cases(modname, cases, nproc=16, hard_timeout_s=900, progress=True):
    """each case in its own forked process (isolation of monkey patches, killable on solver hangs)"""
    ctx = mp.get_context('fork')
    pending = list(enumerate(cases))
    running = {}
    results = [None] * len(cases)
    t0 = time.time()
    while pending or running:
        while pending and len(running) < nproc:
            i, case = pending.pop(0)
            pc, cc = ctx.Pipe(duplex=False)
            p = ctx.Process(target=_case_worker, args=(modname, case, cc))
            p.start()
            cc.close()
            running[i] = (p, pc, time.time(), case)
        done = []
        for i, (p, pc, ts, case) in running.items():
            lim = case.get('opts', {}).get('hard_timeout_s', hard_timeout_s)
            if pc.poll(0.02):
                try:
                    status, payload = pc.recv()
                except EOFError:
                    status, payload = 'error', 'worker died without result'
                p.join(5)
                results[i] = (status, payload)
                done.append(i)
            elif not p.is_alive():
                p.join()
                if pc.poll(0.5):  # the worker sent its result and exited between the two checks above
                    try:
                        results[i] = pc.recv()
                    except EOFError:
                        results[i] = ('error', 'worker died without result')
                else:
                    results[i] = ('error', f'worker exited with code {p.exitcode} without result')
                done.append(i)
            elif time.time() - ts > lim:
                p.kill()
                p.join()
                results[i] = ('timeout', f'case exceeded hard time limit {lim}s (solver hang?)')
                done.append(i)
        for i in done:
            running.pop(i)
            if progress:
                st = results[i][0]
                nm = cases[i]['name']
                if st == 'ok':
                    d = results[i][1]
                    print(f"  [{time.time()-t0:6.1f}s] {nm}: paths={d['paths']} obligations={d['obligations']} "
                          f"discharged={d['discharged']} failures={len(d['failures'])} wall={d['wall_s']:.1f}s"
                          f"{'' if d['complete'] else ' INCOMPLETE'}",
                          flush=True)
                else:
                    print(f"  [{time.time()-t0:6.1f}s] {nm}: {st}: {str(results[i][1])[-400:]}", flush=True)
        if not done:
            time.sleep(0.02)
    return results


def concrete_batch(items, no_cython=True, timeout=900):
    """run harness functions concretely under /venv/bin/python; items: list of dict(module, fn, params, model)"""
    if not items:
        return []
    import tempfile
    with tempfile.TemporaryDirectory(prefix='verif_replay_') as td:
        inp = os.path.join(td, 'in.json')
        outp = os.path.join(td, 'out.json')
        with open(inp, 'w') as f:
            json.dump(items, f)
        env = dict(os.environ)
        env['PYTHONPATH'] = f"{VERIF}:{REPO}"
        env.pop('TENPY_VERIF_SYMBOLIC', None)
        if no_cython:
            env['TENPY_NO_CYTHON'] = '1'
        else:
            env.pop('TENPY_NO_CYTHON', None)
        env['OMP_NUM_THREADS'] = '1'
        try:
            r = subprocess.run([VENV_PY, '-m', 'symx.replay', inp, outp], env=env, cwd=VERIF, capture_output=True,
                               text=True, timeout=timeout)
        except subprocess.TimeoutExpired:
            return [{'error': 'replay timeout', 'failures': []} for _ in items]
        if not os.path.exists(outp):
            return [{'error': 'replay crashed: ' + (r.stderr or '')[-800:], 'failures': []} for _ in items]
        with open(outp) as f:
            return json.load(f)


def load_known(prop):
    """known findings: /verif/known_findings/<prop>.json (committed by hand, never written at run time)"""
    out = []
    for p in (os.path.join(VERIF, 'known_findings', f'{prop}.json'), ):
        if os.path.exists(p):
            with open(p) as f:
                data = json.load(f)
            out += [e for e in data.get('findings', []) if e.get('property', prop) == prop]
    return out


def match_known(known, key):
    import re
    for e in known:
        if e.get('status') == 'known' and re.search(e['match'], key):
            return e
    return None


def run_property(modname, tier, seed, nproc=16, only=None):
    t0 = time.time()
    mod = importlib.import_module(modname)
    prop = mod.PROPERTY
    cases = mod.CASES(tier, seed)
    if only:
        cases = [c for c in cases if any(o in c['name'] for o in only)]
    for c in cases:
        c.setdefault('opts', {})
        c['opts'].setdefault('seed', seed)
    print(f"== {prop} tier={tier} seed={seed}: {len(cases)} cases on {nproc} processes", flush=True)
    if hasattr(mod, 'setup_run'):  # optional per-run preparation in the parent (C04: rebuild of the extension in the background)
        mod.setup_run(tier)
    results = run_cases(modname, cases, nproc)

    tot = dict(paths=0, queries=0, obligations=0, discharged=0, solver_s=0.0, infeasible=0, approx=0)
    functions = set()
    samples = []
    notes = {}
    harness_errors = []
    inconclusive = []
    candidates = []  # violations to replay
    incomplete = []
    validate_items = []
    validate_meta = []
    for case, (status, payload) in zip(cases, results):
        if status != 'ok':
            if status == 'timeout':
                incomplete.append(case['name'] + ' (hard timeout)')
            else:
                harness_errors.append(f"{case['name']}: {status}: {payload[-600:]}")
            continue
        d = payload
        tot['paths'] += d['paths']
        tot['queries'] += d['queries']
        tot['obligations'] += d['obligations']
        tot['discharged'] += d['discharged']
        tot['solver_s'] += d['solver_s']
        tot['infeasible'] += d['infeasible']
        tot['approx'] += d['approx_branches']
        functions.update(d['functions'])
        for k, v in d['notes'].items():
            notes[k] = notes.get(k, 0) + v
        if not d['complete']:
            incomplete.append(case['name'])
        if d['paths'] == 0 or d['obligations'] == 0:
            if not case['opts'].get('allow_vacuous'):
                harness_errors.append(f"{case['name']}: vacuous (paths={d['paths']}, obligations={d['obligations']})")
        if len(samples) < 6 and d['samples']:
            s = dict(d['samples'][0])
            s['case'] = case['name']
            s['params'] = _jsonable(case.get('params', {}))
            samples.append(s)
        for (label, kind, model, detail) in d['failures']:
            if kind == 'harness':
                harness_errors.append(f"{case['name']}: {label}: {detail}")
            elif kind == 'inconclusive':
                inconclusive.append(f"{case['name']}: {label}: {detail}")
            else:
                candidates.append((case, label, model, detail))
        for pm in d['path_models']:
            validate_items.append(dict(module=case.get('module', modname), fn=case['fn'], params=case.get('params', {}), model=pm['model']))
            validate_meta.append((case['name'], pm['observed']))

    # ---- replay every counterexample on the real code before reporting
    known = load_known(prop)
    violations = []
    known_hits = []
    os.makedirs(os.path.join(OUT, 'replays', prop), exist_ok=True)
    items = [dict(module=c.get('module', modname), fn=c['fn'], params=c.get('params', {}), model=m or {}) for (c, l, m, d) in candidates]
    rep_py = concrete_batch(items, no_cython=True)
    rep_cy = concrete_batch(items, no_cython=False)
    for (case, label, model, detail), r1, r2 in zip(candidates, rep_py, rep_cy):
        key = f"{case['name']}:{label}"
        reproduced = bool(r1.get('failures')) or bool(r2.get('failures'))
        if model is None:
            harness_errors.append(f"{key}: violation without a model ({detail})")
            continue
        if not reproduced:
            if r1.get('assumption_violated'):
                harness_errors.append(f"{key}: counterexample violates an assumption in the concrete run ({detail})")
            else:
                harness_errors.append(f"{key}: counterexample did NOT reproduce on the real code "
                                      f"({detail}; replay: {r1.get('error')})")
            continue
        h = hashlib.sha1(json.dumps([key, model], sort_keys=True).encode()).hexdigest()[:12]
        path = os.path.join(OUT, 'replays', prop, f"{h}.json")
        with open(path, 'w') as f:
            json.dump(dict(property=prop, key=key, module=case.get('module', modname), fn=case['fn'], params=_jsonable(case.get('params', {})),
                           model=model, symbolic_detail=detail, concrete_failures_pure_python=r1.get('failures'),
                           concrete_failures_compiled=r2.get('failures')), f, indent=1)
        kf = match_known(known, key)
        if kf is not None:
            known_hits.append((kf, key))
        else:
            violations.append((key, path, detail, r1.get('failures') or r2.get('failures')))

    # ---- validate the embedding: models of explored paths, run on the real implementation
    validated = 0
    val_fail = []
    exploration = getattr(mod, 'LEVEL', 'model_checking') == 'exploration'
    cnotes = {}  # notes of the concrete runs (level 'exploration': evaluations, nontrivial:<program>:<signature>)
    if validate_items:
        vres = concrete_batch(validate_items, no_cython=False, timeout=3000 if exploration else 900)
        for it, (cname, obs), r in zip(validate_items, validate_meta, vres):
            if r.get('error'):
                val_fail.append(f"{cname}: {r['error']}")
                continue
            if r.get('assumption_violated'):
                continue
            for k, v in (r.get('notes') or {}).items():
                cnotes[k] = cnotes.get(k, 0) + v
            if r.get('failures') and exploration:
                # level 'exploration': the concrete run on the solver's witness IS the deciding comparison
                # (two real builds); a failure is a violation, not an embedding problem
                seen_lab = set()
                for lab, det in r['failures']:
                    key = f"{cname}:{lab}"
                    if lab in seen_lab:
                        continue
                    seen_lab.add(lab)
                    h = hashlib.sha1(json.dumps([key, it['model']], sort_keys=True).encode()).hexdigest()[:12]
                    path = os.path.join(OUT, 'replays', prop, f"{h}.json")
                    with open(path, 'w') as f:
                        json.dump(dict(property=prop, key=key, module=modname, fn=it['fn'], params=_jsonable(it['params']),
                                       model=it['model'], symbolic_detail='witness of a feasible path of the Python kernel',
                                       concrete_failures_pure_python=r['failures'], concrete_failures_compiled=r['failures']), f, indent=1)
                    kf = match_known(known, key)
                    if kf is not None:
                        known_hits.append((kf, key))
                    elif not any(v[0] == key for v in violations):
                        violations.append((key, path, str(det)[:200], r['failures']))
                continue
            if r.get('failures'):
                # the symbolic run discharged everything on this path, the implementation fails on its model
                val_fail.append(f"{cname}: obligations fail concretely on a path model: {r['failures'][:2]}")
                continue
            if not _obs_agree(obs, r.get('observed', [])):
                val_fail.append(f"{cname}: observed values differ between symbolic and concrete run")
                continue
            validated += 1
    for v in val_fail:
        harness_errors.append("embedding validation: " + v)

    wall = time.time() - t0
    ev = {
        'property_id': prop,
        'tier': tier,
        'seed': int(seed),
        'level': getattr(mod, 'LEVEL', 'model_checking'),
        'wall_s': round(wall, 2),
        'violations': len(violations),
        'coverage': {
            'states': tot['paths'],
            'transitions': tot['queries'],
            'traces_validated_against_impl': validated,
            'samples': samples or [{'note': 'no sample recorded'}],
            'obligations': tot['obligations'],
            'discharged': tot['discharged'],
            'inconclusive': inconclusive[:40],
            'inconclusive_count': len(inconclusive),
            'infeasible_paths_pruned': tot['infeasible'],
            'branches_with_unknown_feasibility': tot['approx'],
            'solver_s': round(tot['solver_s'], 2),
            'cases': len(cases),
            'exhaustive': not incomplete and not harness_errors and not inconclusive,
            'incomplete_cases': incomplete,
            'harness_errors': harness_errors[:40],
            'functions_encoded': sorted(functions),
            'bounds': getattr(mod, 'BOUNDS', {}).get(tier, ''),
            'outside': getattr(mod, 'OUTSIDE', ''),
            'stubs': getattr(mod, 'STUBS', []),
            'notes': notes,
            'known_findings_hit': sorted({k['match'] for k, _ in known_hits}),
            'rule': 'states = feasible paths of the real code explored by the engine; transitions = solver queries; '
                    'every obligation is decided by z3 for all values of the symbolic inputs on that path',
            'checker_cmd': f"./check {prop} --tier {tier}",
        },
        'assumptions': getattr(mod, 'ASSUMPTIONS', []),
    }
    if exploration:
        # additive keys for level 'exploration' (measured in the concrete differential runs on the solver's witnesses)
        # (witnesses may also be compared inside the case workers through the optional finish_case hook: their notes are in `notes`)
        nontriv = sorted({k for k in cnotes if k.startswith('nontrivial:')} | {k for k in notes if k.startswith('nontrivial:')})
        for k in nontriv:
            notes.pop(k, None)
        ev['coverage'].update({
            'evaluations': int(cnotes.get('evaluations', 0)) + int(notes.get('evaluations', 0)),
            'distinct_nontrivial': len(nontriv),
            'witnesses_compared': validated + int(notes.get('witnesses_compared', 0)),
            'programs_nontrivial': sorted({k.split(':')[1] for k in nontriv}),
            'concrete_notes': {k: v for k, v in cnotes.items() if not k.startswith('nontrivial:')},
            'rule': getattr(mod, 'RULE', ev['coverage']['rule']),
        })
        if ev['coverage']['evaluations'] == 0 or len(nontriv) < 2:
            harness_errors.append(f"exploration level: evaluations={ev['coverage']['evaluations']}, distinct_nontrivial={len(nontriv)} (need >0, >=2)")
            ev['coverage']['harness_errors'] = harness_errors[:40]
    # a run restricted with --only is a development aid: its (partial) evidence must not replace the full one
    evdir = 'evidence_partial' if only else 'evidence'
    os.makedirs(os.path.join(OUT, evdir), exist_ok=True)
    with open(os.path.join(OUT, evdir, f"{prop}.json"), 'w') as f:
        json.dump(ev, f, indent=1, default=str)

    seen = set()
    for kf, key in known_hits:
        if kf['match'] in seen:
            continue
        seen.add(kf['match'])
        print(f"KNOWN-FINDING: property={prop} {kf['what']} [{key}]")
    for x in inconclusive[:20]:
        print(f"INCONCLUSIVE: {x}")
    for x in incomplete:
        print(f"INCOMPLETE: {x}")
    for x in harness_errors:
        print(f"HARNESS-ERROR: {x}")
    for key, path, detail, fl in violations:
        print(f"  violation {key}: {detail} | concrete: {fl[:2]}")
        print(f"VIOLATION property={prop} replay={path}")
    print(f"== {prop}: paths={tot['paths']} queries={tot['queries']} obligations={tot['obligations']} "
          f"discharged={tot['discharged']} validated={validated} solver_s={tot['solver_s']:.1f} wall={wall:.1f}s")
    if violations:
        return EXIT_VIOLATION
    if harness_errors:
        return EXIT_HARNESS
    return EXIT_OK


def _obs_agree(sym_obs, con_obs, tol=1e-6):
    """symbolic results evaluated at the model vs. the concrete run (labels in order of occurrence)"""
    con = {}
    for lab, vals in con_obs:
        con.setdefault(lab, []).append(vals)
    idx = {}
    for lab, vals in sym_obs:
        if vals is None:
            continue
        k = idx.get(lab, 0)
        idx[lab] = k + 1
        lst = con.get(lab, [])
        if k >= len(lst):
            continue  # the concrete run took another (equally valid) branch
        cv = lst[k]
        if not isinstance(cv, list) or len(cv) != len(vals):
            continue
        for a, b in zip(vals, cv):
            try:
                if abs(a[0] - b[0]) > tol * (1 + abs(a[0])) or abs(a[1] - b[1]) > tol * (1 + abs(a[1])):
                    return False
            except Exception:
                continue
    return True


def _jsonable(x):
    try:
        json.dumps(x)
        return x
    except TypeError:
        return json.loads(json.dumps(x, default=str))


def replay_file(path):
    with open(path) as f:
        rec = json.load(f)
    item = dict(module=rec['module'], fn=rec['fn'], params=rec['params'], model=rec['model'])
    r1 = concrete_batch([item], no_cython=True)[0]
    r2 = concrete_batch([item], no_cython=False)[0]
    print(json.dumps({'key': rec['key'], 'pure_python': r1.get('failures'), 'compiled': r2.get('failures'),
                      'errors': [r1.get('error'), r2.get('error')]}, indent=1))
    if r1.get('failures') or r2.get('failures'):
        print(f"VIOLATION property={rec['property']} replay={path}")
        return EXIT_VIOLATION
    return EXIT_OK
