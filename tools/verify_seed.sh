#!/bin/bash
# usage: TESTS="tests/test_x.py ..." verify_seed.sh <dir>   -- demo on original/patched tree + named tests on the patched tree (scratch worktree)
d=$(readlink -f "$1")
name=vs_$(basename $(dirname $d))_$(basename $d)_$$
wt=/tmp/seedwt/$name
git -C /repo worktree add --detach "$wt" HEAD >/dev/null 2>&1 || { echo "worktree failed"; exit 2; }
cp /repo/tenpy/linalg/_npc_helper.cpython-312-x86_64-linux-gnu.so "$wt/tenpy/linalg/" 2>/dev/null
trap 'git -C /repo worktree remove --force "$wt" >/dev/null 2>&1' EXIT
git -C "$wt" apply "$d/patch.diff" || { echo "RESULT $d patch does not apply"; exit 2; }
nocy=$(python3 -c "import json;print(1 if json.load(open('$d/meta.json')).get('needs_no_cython') else 0)" 2>/dev/null || echo 0)
envv=""; [ "$nocy" = "1" ] && envv="TENPY_NO_CYTHON=1"
( cd /tmp; env $envv PYTHONPATH=/repo timeout 600 /venv/bin/python "$d/demo.py" >/dev/null 2>&1 ); o=$?
( cd /tmp; env $envv PYTHONPATH="$wt" timeout 600 /venv/bin/python "$d/demo.py" >/dev/null 2>&1 ); m=$?
t="(no tests named)"
if [ -n "$TESTS" ]; then t=$( cd "$wt" && OMP_NUM_THREADS=1 timeout 3000 /venv/bin/python -m pytest -q -p no:cacheprovider $TESTS 2>&1 | tail -1 ); fi
echo "RESULT $d demo_orig=$o demo_patched=$m nocython=$nocy tests: $t"
