#!/bin/bash
# usage: mk_seed_worktree.sh <name>  -> creates /tmp/seedwt/<name> as a detached worktree of /repo HEAD (with the prebuilt extension copied in)
set -e
d=/tmp/seedwt/$1
mkdir -p /tmp/seedwt
git -C /repo worktree add --detach "$d" HEAD >/dev/null 2>&1
cp /repo/tenpy/linalg/_npc_helper.cpython-312-x86_64-linux-gnu.so "$d/tenpy/linalg/" 2>/dev/null || true
echo "$d"
