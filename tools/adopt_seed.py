#!/usr/bin/env python3
"""adopt_seed.py <srcdir> <PROP> <verification line...> : copy a verified seeded change to /verif/seeded/<PROP>-<n>/"""
import json, os, shutil, sys
src, prop = sys.argv[1], sys.argv[2]
ver = ' '.join(sys.argv[3:])
base = '/verif/seeded'
os.makedirs(base, exist_ok=True)
n = 1
while os.path.exists(f'{base}/{prop}-{n}'):
    n += 1
dst = f'{base}/{prop}-{n}'
os.makedirs(dst)
for f in ('patch.diff', 'demo.py'):
    shutil.copy(os.path.join(src, f), dst)
meta = json.load(open(os.path.join(src, 'meta.json')))
meta['property'] = prop
meta['verified_by_lead'] = ver
meta['caught_by'] = None
json.dump(meta, open(os.path.join(dst, 'meta.json'), 'w'), indent=1)
print(dst)
