#!/bin/bash
# runs every registered quick check in sequence against /repo and prints exit code / wall time
mkdir -p /tmp/scratch
for p in C01 C02 C03 C04 C05 C06 C07 C08 C09 C10 C11 C12 C14 C15 C16 C17 C18 C19 C20; do
  s=$(date +%s)
  ./check $p --tier quick > /tmp/scratch/final_$p.log 2>&1; e=$?
  echo "$p exit=$e wall=$(( $(date +%s) - s ))s $(grep -E '^== ' /tmp/scratch/final_$p.log | tail -1 | cut -c1-150)"
  grep -E "^VIOLATION|^HARNESS-ERROR|^INCOMPLETE|^INCONCLUSIVE" /tmp/scratch/final_$p.log | cut -c1-200 | head -5
done
