#!/bin/bash
# usage: try_seed.sh <dir with patch.diff demo.py meta.json> <PROP> [tier] [extra check args]
# Verifies a seeded change in a scratch worktree (never in /repo): demo passes on the original tree and fails on the
# patched one, the named tests pass, and runs ./check PROP against the patched tree (VERIF_REPO / VERIF_OUT).
d=$(readlink -f "$1"); prop=$2; tier=${3:-quick}; shift 3
name=v_$(basename $(dirname $d))_$(basename $d)_$$
wt=/tmp/seedwt/$name
git -C /repo worktree add --detach "$wt" HEAD >/dev/null 2>&1 || { echo "worktree failed"; exit 2; }
cp /repo/tenpy/linalg/_npc_helper.cpython-312-x86_64-linux-gnu.so "$wt/tenpy/linalg/" 2>/dev/null
cleanup() { git -C /repo worktree remove --force "$wt" >/dev/null 2>&1; rm -rf "/tmp/seedwt/out_$name"; }
trap cleanup EXIT
if ! git -C "$wt" apply "$d/patch.diff"; then echo "RESULT patch does not apply"; exit 2; fi
nocy=$(python3 -c "import json;print(1 if json.load(open('$d/meta.json')).get('needs_no_cython') else 0)" 2>/dev/null || echo 0)
envv=""; [ "$nocy" = "1" ] && envv="TENPY_NO_CYTHON=1"
( cd /tmp; env $envv PYTHONPATH=/repo /venv/bin/python "$d/demo.py" >/tmp/seedwt/demo_orig_$$.log 2>&1 ); o=$?
( cd /tmp; env $envv PYTHONPATH="$wt" /venv/bin/python "$d/demo.py" >/tmp/seedwt/demo_mut_$$.log 2>&1 ); m=$?
echo "demo: original exit=$o patched exit=$m (needs_no_cython=$nocy)"
if [ -n "$TESTS" ]; then
  ( cd "$wt" && OMP_NUM_THREADS=1 /venv/bin/python -m pytest -q -p no:cacheprovider -x $TESTS 2>&1 | tail -2 )
fi
mkdir -p "/tmp/seedwt/out_$name"
( cd /verif && VERIF_REPO="$wt" VERIF_OUT="/tmp/seedwt/out_$name" ./check $prop --tier $tier "$@" > "/tmp/seedwt/check_$name.log" 2>&1 ); c=$?
echo "check $prop exit=$c"
grep -E "^VIOLATION|^HARNESS-ERROR|^KNOWN|^INCON|^INCOMP" "/tmp/seedwt/check_$name.log" | cut -c1-300 | head -8
grep -E "^\s+violation" "/tmp/seedwt/check_$name.log" | cut -c1-300 | head -4
echo "RESULT demo_orig=$o demo_mut=$m check=$c log=/tmp/seedwt/check_$name.log"
