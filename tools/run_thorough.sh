#!/bin/bash
# usage: run_thorough.sh ID...   runs the thorough tier of each property in sequence and prints exit code and wall time
for p in "$@"; do
  s=$(date +%s)
  ./check $p --tier thorough > thorough_$p.log 2>&1; e=$?
  echo "$p exit=$e wall=$(( $(date +%s) - s ))s $(grep -E '^== ' thorough_$p.log | tail -1)"
  grep -E "^VIOLATION|^HARNESS-ERROR|^INCOMPLETE|^INCONCLUSIVE" thorough_$p.log | cut -c1-200 | head -5
done
