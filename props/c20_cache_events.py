"""C20 Caches and event dispatch obey their sequential spec under any schedule (partial claim).

(a) EventHandler: the operation at every step (connect / disconnect / emit / emit_until_result), the priority of
    every connected listener (symbolic integer, the real ``sorted`` forks on the comparisons) and the id given
    to ``disconnect`` (symbolic integer among the ids handed out so far and one that never was) are symbolic.
(b) DictCache / CacheFile over Storage (RAM), PickleStorage (real pickle, real files in a temporary directory),
    Hdf5Storage (symbolic mode: in-memory h5py model ``symx.h5model``; concrete mode: real h5py): the operation,
    the key and the cache (main / sub-cache) of every step are symbolic selectors, the stored values symbolic reals;
    reference = a Python dict per cache.
(c) ThreadedStorage against the CONTRACT MODEL ``symx.workermodel.WorkerModel`` of ``tenpy.tools.thread.Worker``:
    the number of queued tasks the worker has completed at every synchronisation point is a symbolic choice,
    so every interleaving at these points is a path; with and without an injected failing disk operation.

The real ``Worker`` (threads, queue.Queue, Event, deadlock freedom of close) is NOT APPLICABLE: the interpreter's
concurrency cannot be encoded; the model's contract is compared with the real class on one deterministic script
in concrete mode (``model_selftest``).
"""
import os

import numpy as np

from symx.seqtools import choice, StopPath, tempdir

PROPERTY = 'C20'
LEVEL = 'model_checking'
BOUNDS = {
    'quick': 'EventHandler: all sequences of 4 operations (connect with priority in [-1,1] / disconnect(any id handed '
             'out so far or one invalid id) / emit / emit_until_result); caches: all sequences of 4 operations '
             '(set, read = get()+[], del, preload, set_short_term_keys({k}) / (), create_subcache, close / __exit__; on '
             'the cache or its sub-cache) over 2 keys (first use of a key canonically "a") for Storage, PickleStorage, '
             'Hdf5Storage, every prefix observed (contains, len, iter, bool); ThreadedStorage over PickleStorage: all '
             'sequences of 3 operations x every worker progress at every synchronisation point, max_queue_size 2; '
             'ThreadedStorage over Hdf5Storage and fault injection (the i-th disk operation raises): 3 operations; '
             'threaded-deep: ThreadedStorage over PickleStorage on a REDUCED alphabet (one key; set, read, del, preload, '
             'set_short_term_keys(k), set_short_term_keys(); no sub-cache, close only at the end): all sequences of 5 operations x '
             'every worker progress; cache-deep: Storage / PickleStorage / Hdf5Storage (non-threaded) on a REDUCED alphabet (2 keys; '
             'set, read, preload, set_short_term_keys(k) per key, set_short_term_keys(), set_short_term_keys(a, b); no del, no '
             'sub-cache, close only at the end): all sequences of 5 operations; models.selftest: fixed scenarios executed on the real Worker under a deadline (plain '
             'execution in both modes validating the Worker contract model, not a solver claim)',
    'thorough': 'EventHandler: 5 operations; caches: 5 operations incl. sub-caches for Storage; PickleStorage / Hdf5Storage: 5 '
                'operations without sub-caches and 4 operations with sub-caches; ThreadedStorage over PickleStorage: 4 operations '
                '(with sub-caches), over Hdf5Storage: 4 operations without and 3 with sub-caches; fault injection: 4 operations; '
                'threaded-deep (reduced one-key alphabet): 6 operations; cache-deep (reduced two-key alphabet): 6 operations for '
                'Storage, 5 for PickleStorage / Hdf5Storage',
}
OUTSIDE = ('the real Worker thread (real threads, queue time-outs, deadlock freedom of close): NOT APPLICABLE to the solver, replaced by '
           'a contract model; the model is validated by executing fixed scenarios (FIFO, failing task while the caller waits in '
           'join_tasks, failing task with queued tasks, clean exit) on the real Worker under a deadline: execution, not a proof; bytes written by the C pickle module / real h5py in symbolic mode (h5py is modelled there); '
           'keys that collide with the sub-cache name; _NumpyStorage / _NpcArrayStorage (private); aliasing of stored '
           'mutable values; more than 2 keys / longer sequences')
STUBS = [
    'symx.workermodel.WorkerModel replaces tenpy.tools.cache.Worker (FIFO, each task exactly once, atomic tasks, '
    'join_tasks completes all, exception in a task => WorkerDied at the next put_task/join_tasks, pending tasks dropped)',
    'symx.workermodel.SharedDict wraps ThreadedStorage._loaded (every main-thread access is a synchronisation point)',
    'symx.h5model replaces h5py in symbolic mode (validated against real h5py in concrete mode: model_selftest)',
    'copyreg reducer for symbolic scalars so that the real pickle module serialises them (canonical polynomial)',
]
ASSUMPTIONS = [
    'worker tasks are atomic with respect to the main thread (the main thread reaches the disk only through tasks)',
    'ties of listener priority are called in connection order (doctest in the EventHandler docstring)',
    'del of an absent key may either raise KeyError or do nothing (not documented)',
]

KEYS = ('a', 'b')
SUB = 's'


def setup_symbolic(case):
    import copyreg
    from symx import scalars as S
    from symx import h5model
    h5model.install()
    copyreg.pickle(S.R, lambda r: (S.R, (r.n, r.d, r.poison)))


# ======================================================================================== (a) EventHandler
def events_case(ctx, n_ops):
    from tenpy.tools.events import EventHandler
    eh = EventHandler('step')
    calls = []
    prio = {}  # tag -> priority (symbolic)
    lid_of = {}  # tag -> listener id
    connected = []  # tags in connection order
    handed_out = []

    def ret(tag):
        return tag if tag % 2 else None

    def shared_cb(arg, tag=None):
        calls.append((tag, arg))
        return ret(tag)

    def before(x, y):
        """listener x has to be called before y"""
        return ctx.Or(prio[x] > prio[y], ctx.And(prio[x] == prio[y], x < y))

    def check_state(what):
        ids = sorted(int(l.listener_id) for l in eh.listeners)
        ok = ctx.prove(ids == sorted(lid_of[t] for t in connected), what)
        if not ok:
            raise StopPath()

    try:
        for t in range(n_ops):
            op = choice(ctx, f'op{t}', 4)
            if op == 0:  # connect
                p = ctx.int(f'prio{t}', -1, 1)
                tag = t
                if t % 2 == 0:
                    r = eh.connect(shared_cb, p, extra_kwargs={'tag': tag})
                    ctx.prove(r is shared_cb, 'connect returns the callback')
                else:

                    @eh.connect(priority=p)
                    def cb(arg, tag=tag):
                        calls.append((tag, arg))
                        return ret(tag)

                lid = eh.id_of_last_connected
                ctx.prove(lid not in handed_out, 'listener ids are unique')
                handed_out.append(lid)
                prio[tag] = p
                lid_of[tag] = lid
                connected.append(tag)
                ctx.note('connects')
                check_state('connect adds exactly one listener')
            elif op == 1:  # disconnect a symbolic id: one of those handed out so far, or the next (never handed out)
                invalid = (max(handed_out) + 1) if handed_out else 0
                lid = ctx.int(f'id{t}', 0, invalid)  # symbolic id handed to the real code
                eh.disconnect(lid)
                hit = [tg for tg in connected if bool(lid_of[tg] == lid)]  # the model resolves the id afterwards
                for tg in hit:
                    connected.remove(tg)
                ctx.note('disconnect_valid' if hit else 'disconnect_invalid')
                check_state('disconnect(id) removes exactly the listener with that id' if hit else
                            'disconnect(id) of an id that is not connected removes nothing')
            else:
                del calls[:]
                if op == 2:
                    res = eh.emit(t)
                else:
                    res = eh.emit_until_result(t)
                called = [c[0] for c in calls]
                ctx.prove(all(c[1] == t for c in calls), 'callbacks receive the emitted arguments')
                ctx.prove(len(set(called)) == len(called) and set(called) <= set(connected),
                          'emit calls connected listeners only, each at most once')
                ok = True
                for x, y in zip(called[:-1], called[1:]):
                    ok = ctx.prove(before(x, y), 'listeners are called in priority order (ties: connection order)') and ok
                if op == 2:
                    ok = ctx.prove(set(called) == set(connected), 'emit calls every connected listener') and ok
                    ctx.prove(list(res) == [ret(x) for x in called], 'emit returns the results in call order')
                    ctx.note('emits_with_%d_listeners' % len(connected))
                else:
                    ctx.prove(all(ret(x) is None for x in called[:-1]), 'emit_until_result stops at the first result')
                    if res is None:
                        ok = ctx.prove(set(called) == set(connected) and all(ret(x) is None for x in called),
                                       'emit_until_result without result called every listener') and ok
                    else:
                        ok = ctx.prove(bool(called) and res == ret(called[-1]), 'emit_until_result returns the first result') and ok
                        for u in connected:
                            if u not in called and called:
                                ok = ctx.prove(before(called[-1], u), 'listeners skipped by emit_until_result come later in order') and ok
                if not ok:
                    raise StopPath()
        # copy() is independent of the original
        cp = eh.copy()
        n = len(eh.listeners)
        cp.connect(shared_cb, 0, extra_kwargs={'tag': 99})
        if cp.listeners:
            cp.disconnect(cp.listeners[0].listener_id)
        ctx.prove(len(eh.listeners) == n, 'copy() is independent of the original')
    except StopPath:
        pass


# ======================================================================================== (b), (c) caches
class _Model:
    """reference semantics of one cache: a dict (+ bookkeeping that is only used to label failures)"""

    def __init__(self):
        self.d = {}
        self.short = set()
        self.deleted = set()


def _value(ctx, t):
    return ctx.array(f'v{t}', (1, ))


class _Driver:

    def __init__(self, ctx, storage, td, threaded=False, fail_at=None):
        from tenpy.tools import cache as C
        from tenpy.tools.thread import WorkerDied
        self.ctx = ctx
        self.C = C
        self.WorkerDied = WorkerDied
        self.storage = storage
        self.td = td
        self.threaded = threaded
        self.worker = None
        self.fault = fail_at is not None
        self.used_keys = []
        self.closed = False
        self.died_seen = False
        kw = {}
        if storage != 'Storage':
            kw['tmpdir'] = td
        if threaded:
            from symx import workermodel as W
            self.W = W
            holder = self
            orig = C.Worker

            def factory(name='tenpy worker', max_queue_size=0, daemon=None):
                holder.worker = W.WorkerModel(ctx, name, max_queue_size)
                return holder.worker

            C.Worker = factory
            try:
                self.cache = C.CacheFile.open(storage_class=storage, use_threading=True, delete=True, max_queue_size=2, **kw)
            finally:
                C.Worker = orig
            st = self.cache.long_term_storage
            st._loaded = W.SharedDict(self.worker)
            if fail_at is not None:
                disk = st.disk_storage
                cnt = [0]

                def wrap(f):

                    def g(*a, **k):
                        cnt[0] += 1
                        if cnt[0] - 1 == fail_at:
                            raise IOError('injected disk fault')
                        return f(*a, **k)

                    return g

                disk.save, disk.load, disk.delete = wrap(disk.save), wrap(disk.load), wrap(disk.delete)
                self.disk_ops = cnt
        else:
            self.cache = C.CacheFile.open(storage_class=storage, use_threading=False, delete=True, **kw)
        self.cache.__enter__()
        self.targets = [('main', self.cache, _Model())]

    # ---------------------------------------------------------------- alphabet of the next step
    def alphabet(self, with_sub, allow_close, n_keys=len(KEYS)):
        keys = list(self.used_keys)
        for k in KEYS[:n_keys]:
            if k not in keys:
                keys.append(k)  # the first unused key only (keys are interchangeable)
                break
        ops = []
        for ti in range(len(self.targets)):
            for k in keys:
                ops += [('set', ti, k), ('read', ti, k), ('del', ti, k), ('preload', ti, k), ('short', ti, k)]
            ops.append(('short', ti, None))
        if with_sub and len(self.targets) == 1:
            ops.append(('subcache', 0, None))
        if allow_close:
            ops += [('close', 0, None), ('exit', 0, None)]
        return ops

    def alphabet_deep2(self):
        """reduced alphabet for longer non-threaded sequences: 2 keys; set, read, preload, set_short_term_keys(k) per key,
        set_short_term_keys(), set_short_term_keys(a, b); no del, no sub-cache, the cache is closed at the end"""
        keys = list(self.used_keys)
        for k in KEYS:
            if k not in keys:
                keys.append(k)
                break
        ops = []
        for k in keys:
            ops += [('set', 0, k), ('read', 0, k), ('preload', 0, k), ('short', 0, k)]
        ops += [('short', 0, None), ('short2', 0, None)]
        return ops

    # ---------------------------------------------------------------- one operation
    def apply(self, op, ti, k, t):
        ctx = self.ctx
        name, cache, M = self.targets[ti]
        if k is not None and k not in self.used_keys:
            self.used_keys.append(k)
        where = '' if name == 'main' else ' in sub-cache'
        if op == 'set':
            v = _value(ctx, t)
            existing = k in M.d
            try:
                cache[k] = v
            except self.WorkerDied:
                raise
            except Exception as e:  # noqa
                ctx.fail(f"set on {'an existing' if existing else 'a new'} key raised{where}", f'{type(e).__name__}: {e}'[:160])
                raise StopPath()
            M.d[k] = v
            ctx.note('set_existing' if existing else 'set_new')
        elif op == 'read':
            sentinel = object()
            present = k in M.d
            state = f"(key deleted earlier={k in M.deleted}, short-term={k in M.short}){where}"
            g = cache.get(k, sentinel)
            if present:
                if g is sentinel:
                    ctx.fail('get(k) returns the value of a present key' + where, 'returned the default')
                    raise StopPath()
                self._same(g, M.d[k], 'get(k) returns the latest value written' + where)
            else:
                if not ctx.prove(g is sentinel, 'get(k, default) returns the default for an absent key ' + state):
                    raise StopPath()
            try:
                v = cache[k]
            except KeyError:
                if not ctx.prove(not present, 'cache[k] does not raise KeyError for a present key' + where):
                    raise StopPath()
            else:
                if present:
                    self._same(v, M.d[k], 'cache[k] returns the latest value written' + where)
                    ctx.note('reads_of_present_key')
                else:
                    ctx.fail('cache[k] of an absent key raises KeyError ' + state, 'a value was returned')
                    raise StopPath()
        elif op == 'del':
            try:
                del cache[k]
            except KeyError:
                if not ctx.prove(k not in M.d, 'del of a present key does not raise' + where):
                    raise StopPath()
            if k in M.d:
                del M.d[k]
                M.deleted.add(k)
                ctx.note('del_present')
        elif op == 'preload':
            cache.preload(k)
            M.short.add(k)
        elif op == 'short':
            if k is None:
                cache.set_short_term_keys()
                M.short = set()
            else:
                cache.set_short_term_keys(k)
                M.short = {k}
        elif op == 'short2':
            cache.set_short_term_keys(*KEYS)
            M.short = set(KEYS)
        elif op == 'subcache':
            sub = cache.create_subcache(SUB)
            if self.threaded:
                sub.long_term_storage._loaded = self.W.SharedDict(self.worker)
            self.targets.append(('sub', sub, _Model()))
            ctx.note('subcaches')
        elif op in ('close', 'exit'):
            self.close(op)
            return
        self.observe()

    def _same(self, got, want, label):
        if not self.ctx.prove_eq(np.asarray(got), np.asarray(want), label):
            raise StopPath()

    def observe(self):
        """pure observers, after every step, on every cache (so every prefix of the sequence is checked)"""
        ctx = self.ctx
        for name, cache, M in self.targets:
            where = '' if name == 'main' else ' in sub-cache'
            ok = ctx.prove(all((k in cache) == (k in M.d) for k in KEYS), 'contains agrees with the dict model' + where)
            ok = ctx.prove(len(cache) == len(M.d), 'len agrees with the dict model' + where) and ok
            ok = ctx.prove(sorted(cache) == sorted(M.d), 'iteration yields exactly the present keys' + where) and ok
            ok = ctx.prove(sorted(cache.keys()) == sorted(M.d), 'keys() yields exactly the present keys' + where) and ok
            if self.worker is None or not self.worker.died:
                ok = ctx.prove(bool(cache) is True, 'an open cache is truthy' + where) and ok
            if not ok:
                raise StopPath()

    def close(self, how='close'):
        ctx = self.ctx
        self.closed = True
        try:
            if how == 'close':
                self.cache.close()
            else:
                self.cache.__exit__(None, None, None)
        except Exception as e:  # noqa
            ctx.fail(f'{how} does not raise', f'{type(e).__name__}: {e}'[:160])
            raise StopPath()
        ctx.prove(not bool(self.cache), f'the cache is falsy after {how}')
        if len(self.targets) > 1:
            ctx.prove(not bool(self.targets[1][1]), f'the sub-cache is falsy after {how} of its parent')
        if self.storage != 'Storage':
            ctx.prove(os.listdir(self.td) == [], f'{how} removes the temporary files')
        if self.threaded:
            ctx.prove(not self.worker.worker_thread.is_alive(), f'{how} stops the worker')
        ctx.note('closes')

    def cleanup(self):
        if not self.closed:
            try:
                self.cache.close()
            except Exception:  # noqa
                pass


def _part(ops, first, t):
    """`first` = [[i0, k0], [i1, k1], ...]: at step t only the i_t-th of k_t contiguous parts of the alphabet is explored
    by this case (the union over the cases is the whole alphabet: splitting is for parallelism only)"""
    if first is None or t >= len(first):
        return ops
    i, k = first[t]
    n = len(ops)
    k = min(k, n)
    if i >= k:
        return []
    return ops[(i * n) // k:((i + 1) * n) // k]


class _NoDir:

    def __enter__(self):
        return None

    def __exit__(self, *a):
        return False


def cache_case(ctx, storage, n_ops, first=None, with_sub=True, deep=False):
    """DictCache / CacheFile over a non-threaded storage against the dict model (deep=True: reduced alphabet, see
    _Driver.alphabet_deep2, for longer sequences; the cache is closed and checked at the end of every sequence)"""
    with (tempdir('verif_c20_') if storage != 'Storage' else _NoDir()) as td:
        drv = _Driver(ctx, storage, td)
        try:
            for t in range(n_ops):
                ops = _part(drv.alphabet_deep2() if deep else drv.alphabet(with_sub, allow_close=True), first, t)
                if not ops:
                    ctx.prove(True, 'empty part of the alphabet')
                    break
                op, ti, k = ops[choice(ctx, f'op{t}', len(ops))]
                drv.apply(op, ti, k, t)
                if drv.closed:
                    break
            if deep and not drv.closed:
                drv.close('close')
        except StopPath:
            pass
        finally:
            drv.cleanup()


def threaded_case(ctx, storage, n_ops, first=None, fault=False, with_sub=True, deep=False):
    """the same sequences through ThreadedStorage, the worker's progress at every synchronisation point symbolic.
    deep=True: reduced alphabet (one key: set, read, del, preload, short{k}, short{}; no sub-cache, no early close; the cache
    is closed at the end of every sequence) for longer sequences"""
    with tempdir('verif_c20_') as td:
        fail_at = choice(ctx, 'fail_at', 2 * n_ops) if fault else None
        drv = _Driver(ctx, storage, td, threaded=True, fail_at=fail_at)
        W = drv.worker
        try:
            for t in range(n_ops):
                if deep:
                    ops = _part(drv.alphabet(False, allow_close=False, n_keys=1), first, t)
                else:
                    ops = _part(drv.alphabet(with_sub and not fault, allow_close=True), first, t)
                if not ops:
                    break
                op, ti, k = ops[choice(ctx, f'op{t}', len(ops))]
                try:
                    drv.apply(op, ti, k, t)
                except drv.WorkerDied:
                    if not (fault and W.died):
                        ctx.fail(f'WorkerDied without an injected disk fault: a worker task raised {type(W.worker_exception).__name__}',
                                 f'during {op}; worker exception: {W.worker_exception}'[:200])
                        raise StopPath()
                    ctx.prove(True, 'a failing task surfaces as WorkerDied')
                    ctx.note('WorkerDied_surfaced')
                    break
                if drv.closed:
                    break
            if not drv.closed:
                if W.died:
                    # the failure must surface at the next operation that needs the worker (a set always does)
                    try:
                        drv.cache['a'] = _value(ctx, 99)
                        ctx.fail('after a task failed the next set raises WorkerDied', 'set returned')
                    except drv.WorkerDied:
                        ctx.prove(True, 'after a task failed the next set raises WorkerDied')
                # FIFO / exactly-once evidence of the contract model itself
                ctx.prove(W.done_log == list(range(len(W.done_log))), 'worker model executed tasks in FIFO order, each once')
                drv.close('close')
                ctx.note('interleaving_choices', W.n_sync)
        except StopPath:
            pass
        finally:
            drv.cleanup()


# ======================================================================================== model self tests
def _h5_script(h5, filename):
    """the h5py behaviours Hdf5Storage relies on, as a list of observations"""
    out = []

    def attempt(f):
        try:
            f()
            return 'ok'
        except Exception as e:  # noqa
            return 'raises ' + type(e).__name__

    f = h5.File(filename, 'w-')
    out.append(('bool open', bool(f)))
    out.append(('set a', attempt(lambda: f.__setitem__('a', np.array([1., 2.])))))
    out.append(('contains', 'a' in f, 'b' in f))
    out.append(('read a', [float(x) for x in f['a'][...]], [float(x) for x in f['a'][()]]))
    f['a'].attrs['type'] = 'array'
    out.append(('attrs', f['a'].attrs.get('type'), f['a'].attrs.get('missing')))
    out.append(('overwrite a', attempt(lambda: f.__setitem__('a', np.array([3.])))))
    out.append(('a kept', [float(x) for x in f['a'][...]]))
    out.append(('id equal', f['a'].id == f['a'].id, hash(f['a'].id) == hash(f['a'].id)))
    out.append(('del a', attempt(lambda: f.__delitem__('a')), 'a' in f))
    out.append(('del a again', attempt(lambda: f.__delitem__('a'))))
    out.append(('get missing', attempt(lambda: f['zz'])))
    out.append(('set a after del', attempt(lambda: f.__setitem__('a', np.array([4.]))), [float(x) for x in f['a'][...]]))
    g = f.create_group('g')
    out.append(('group', g.name, 'g' in f, attempt(lambda: f.create_group('g'))))
    out.append(('dataset named like a group', attempt(lambda: f.__setitem__('g', np.array([1.])))))
    g['a'] = np.array([5.])
    out.append(('isolation', [float(x) for x in f['a'][...]], [float(x) for x in g['a'][...]], 'b' in g))
    out.append(('file of group', bool(g.file), str(g.file.filename) == str(f.filename)))
    f.close()
    out.append(('bool closed', bool(f)))
    return out


def model_selftest(ctx):
    """the models of the trusted base against the real thing.  Worker part: fixed scenarios, plain execution in BOTH modes
    (tenpy.tools.thread is pure Python), every scenario on the real Worker under a deadline so that a hang is reported as
    a violation of 'a failing worker surfaces as an error rather than a hang'.  h5py part: concrete mode only."""
    from symx import h5model, workermodel
    from tenpy.tools.thread import Worker
    for name, fn in workermodel.SCENARIOS:
        real = workermodel.run_scenario(fn, lambda: Worker(max_queue_size=2, daemon=True), deadline_s=WORKER_DEADLINE_S)
        if real is workermodel.HANG:
            ctx.fail(f'real Worker: {name}', f'the scenario did not return within {WORKER_DEADLINE_S} s (hang)')
            continue
        ctx.prove(not any(r[0] == 'scenario raised' for r in real), f'real Worker: {name}: scenario runs')
        for sched in ('lazy', 'eager'):
            model = workermodel.run_scenario(fn, lambda: workermodel.WorkerModel(None, max_queue_size=2, schedule=sched))
            for r, m in zip(real, model):
                ctx.prove(r == m, f'real Worker agrees with the contract model ({sched}): {name}: {r[0]}')
            ctx.prove(len(real) == len(model), f'real Worker / model ({sched}): {name}: same number of observations')
    if ctx.symbolic:
        ctx.prove(callable(h5model.File), 'h5py model importable (compared with real h5py in concrete mode)')
        return
    import h5py
    with tempdir('verif_c20_') as td:
        real = _h5_script(h5py, os.path.join(td, 'real.h5'))
        model = _h5_script(h5model, os.path.join(td, 'model.h5'))
    for r, m in zip(real, model):
        ctx.prove(r == m, f'h5py model agrees with real h5py: {r[0]}')
    ctx.prove(len(real) == len(model), 'h5py script lengths')


WORKER_DEADLINE_S = 8.


# ======================================================================================== cases
def _parts(k0, k1=1):
    return [[[i, k0], [j, k1]] if k1 > 1 else [[i, k0]] for i in range(k0) for j in range(k1)]


def _tag(first):
    return '.'.join(f'{i}of{k}' for i, k in first)


def CASES(tier, seed):
    thorough = tier == 'thorough'
    big = dict(max_paths=2000000, max_wall_s=2800 if thorough else 400, hard_timeout_s=3000 if thorough else 430, validate_paths=2)
    cases = [dict(name='models.selftest', fn='model_selftest', params={}, opts=dict(validate_paths=1))]
    cases.append(dict(name=f'events[n={5 if thorough else 4}]', fn='events_case', params=dict(n_ops=5 if thorough else 4), opts=dict(big)))
    # alphabet of the first step: set/read/del/preload/short{a}/short{}/subcache/close/exit = 9 (8 without sub-cache)

    def add(kind, storage, n, with_sub, parts, fault=False, deep=False):
        fn = 'cache_case' if kind in ('cache', 'cache-deep') else 'threaded_case'
        for first in parts:
            params = dict(storage=storage, n_ops=n, first=first, with_sub=with_sub)
            if fault:
                params['fault'] = True
            if deep:
                params['deep'] = True
            tag = ('2keys-reduced' if kind == 'cache-deep' else '1key') if deep else ('sub' if with_sub else 'nosub')
            cases.append(dict(name=f"{kind}[{storage},n={n},{tag},part={_tag(first)}]", fn=fn, params=params, opts=dict(big)))

    if not thorough:
        for storage in ('Storage', 'PickleStorage', 'Hdf5Storage'):
            add('cache', storage, 4, True, _parts(5))
        for storage in ('PickleStorage', 'Hdf5Storage'):
            add('threaded', storage, 3, True, _parts(3))
        add('threaded-fault', 'PickleStorage', 3, False, _parts(4), fault=True)
        add('threaded-deep', 'PickleStorage', 5, False, _parts(6, 6), deep=True)
        for storage in ('Storage', 'PickleStorage', 'Hdf5Storage'):
            add('cache-deep', storage, 5, False, _parts(6), deep=True)
    else:
        add('cache', 'Storage', 5, True, _parts(9, 4))
        for storage in ('PickleStorage', 'Hdf5Storage'):
            add('cache', storage, 5, False, _parts(8, 2))  # length 5 without sub-caches
            add('cache', storage, 4, True, _parts(9))  # sub-caches: length 4
        add('threaded', 'PickleStorage', 4, True, _parts(9, 3))
        add('threaded', 'Hdf5Storage', 4, False, _parts(8, 2))
        add('threaded', 'Hdf5Storage', 3, True, _parts(3))
        add('threaded-fault', 'PickleStorage', 4, False, _parts(8, 4), fault=True)
        # first operation `set` carries 2/3 of the paths: split it over the second and third operation as well
        deep_parts = [[[0, 6], [j, 6], [k, 3]] for j in range(6) for k in range(3)] + [p for p in _parts(6, 6) if p[0][0] != 0]
        add('threaded-deep', 'PickleStorage', 6, False, deep_parts, deep=True)
        add('cache-deep', 'Storage', 6, False, _parts(6, 6), deep=True)
        for storage in ('PickleStorage', 'Hdf5Storage'):
            add('cache-deep', storage, 5, False, _parts(6), deep=True)
    return cases
