"""C10 All representations of a model Hamiltonian are the same operator.

Symbolic: every coupling strength / model parameter (scalars and site-dependent arrays, real and complex).
Enumerated: lattice class, size, boundary conditions, site type and conserved charge, the list of terms
(operator names, unit-cell indices, displacements), flags (plus_hc, explicit_plus_hc, sort_mpo_legs).
The real CouplingModel.add_*, the term classes, MPOGraph.from_terms / from_term_list / build_MPO, calc_H_MPO,
calc_H_bond, calc_H_bond_from_MPO, calc_H_MPO_from_bond, group_sites and ExactDiag.build_full_H_from_* run on the
symbolic strengths.  The oracle (catalogue/models.py) is built from the INPUTS of the add_* calls as dense
Kronecker products with the harness's own Jordan-Wigner strings.
"""
import numpy as np

from catalogue import lattices as Lt
from catalogue import models as Md

PROPERTY = 'C10'
LEVEL = 'model_checking'
BOUNDS = {
    'quick': 'chains / ladders / 2x2 squares with <= 4 sites (infinite: unit cell <= 2 sites, window of 2 unit cells = terms completely '
             'inside the window), spin-1/2 (conserve None / Sz / parity), spinless fermion (None / N) and spinful fermion (N,Sz: charge sorting '
             'with a non-involutive permutation; 3 sites) sites; onsite, two-site (range <= system size), three-site and exponentially '
             'decaying terms (lambda = 1/2, complex 1/2 + i/4, and a symbolic complex lambda); dense exporters get_numpy_Hamiltonian '
             '(symbolic) and get_scipy_sparse_Hamiltonian (concrete replays only) in sorted and standard basis; real and complex, scalar and '
             'site-dependent strengths, at most 1-2 strengths may vanish; explicit_plus_hc on/off; predefined TFIChain, XXZChain, '
             'SpinChain, FermionChain with L <= 4 (infinite: L = 2)',
    'thorough': 'same with <= 6 sites (infinite: window of 3 unit cells), Ladder / Square 2x3, FermiHubbardChain, sort_mpo_legs',
}
OUTSIDE = ('get_scipy_sparse_Hamiltonian is only compared in the concrete runs (path models, counterexamples): scipy.sparse rejects object dtype; strengths with 0 < |s| < tol_zero (treated as zero by '
           'tenpy, below the float resolution of the claim); bosonic sites; the isometry of the SVD factors used by '
           'calc_H_MPO_from_bond (only the product U S V = A is used to represent H)')
STUBS = ['BLAS contract stub', 'lazy norm: norm(x) > tol (tol <= 1e-10) decided as x != 0 (DESIGN 2(v))', 'numpy facade for tenpy.models.model / networks.terms / networks.mpo / algorithms.exact_diag / tools.misc',
         'npc.svd inside calc_H_MPO_from_bond: exact trivial factorisation A = 1 * diag(1) * A (contract U S V = A)',
         'Array.conj hook TENPY_VERIF_SYMBOLIC (object dtype is conjugated)']
ASSUMPTIONS = ['floats are reals', 'each symbolic strength is exactly 0 or |s| > 1e-3 (the region 0 < |s| < tol_zero = 1e-15 is outside)',
               'all but the first 1-2 strengths of a case are non-zero with a fixed sign pattern (polynomial identities extend to all signs)',
               'infinite systems: onsite terms are split half / half between the two neighbouring bonds (tenpy convention)']


def setup_symbolic(case):
    from symx import stubs
    import tenpy.models.model as M
    import tenpy.networks.terms as T
    import tenpy.networks.mpo as MP
    import tenpy.algorithms.exact_diag as ED
    import tenpy.tools.misc as misc
    stubs.install_blas()
    Lt.install_facade()
    stubs.facade_for(M, T, MP, ED, misc)
    Md.install_lazy_norm()
    _install_svd_stub()


def _install_svd_stub():
    """calc_H_MPO_from_bond splits every bond operator with npc.svd and only uses U S V = A: exact trivial factorisation"""
    import tenpy.linalg.np_conserved as npc
    import tenpy.models.model as M
    orig = npc.svd

    def svd(a, full_matrices=False, compute_uv=True, cutoff=None, qtotal_LR=[None, None], inner_labels=[None, None],
            inner_qconj=+1):
        if a.dtype != object:
            return orig(a, full_matrices, compute_uv, cutoff, qtotal_LR, inner_labels, inner_qconj)
        labs = a.get_leg_labels()
        U = npc.eye_like(a, 0, labels=[labs[0], inner_labels[0]])
        V = a.copy(deep=True)
        V.iset_leg_labels([inner_labels[1], labs[1]])
        S = np.ones(a.shape[0])
        return U, S, V

    class _NpcProxy:
        def __getattr__(self, k):
            return svd if k == 'svd' else getattr(npc, k)

    M.npc = _NpcProxy()


# ------------------------------------------------------------------------------------------------
SITES = {}


def _site(kind, conserve):
    from tenpy.networks import site as s
    if isinstance(conserve, list):
        conserve = tuple(conserve)
    key = (kind, conserve)
    if key not in SITES:
        if kind == 'spin':
            SITES[key] = s.SpinHalfSite(conserve)
        elif kind == 'fermion':
            SITES[key] = s.FermionSite(conserve)
        elif kind == 'hubbard':  # spinful fermions: the charge-sorting permutation for ('N', 'Sz') is not an involution
            SITES[key] = s.SpinHalfFermionSite(cons_N=conserve[0], cons_Sz=conserve[1])
        else:
            raise ValueError(kind)
    return SITES[key]


def _twin(kind):
    """the same site type without conserved charges: standard (un-sorted) local basis, site.perm is the identity"""
    return _site(kind, (None, None) if kind == 'hubbard' else None)


def _hc(site, name):
    return site.get_hc_op_name(name)


def _shape_of(ref, t):
    """shape of a site-dependent strength array for the term `t` (documented coupling_shape)"""
    if t['t'] == 'onsite':
        return ref.Ls
    if t['t'] == 'coupling':
        return tuple(Lt.spec_coupling_shape(ref, [[0] * ref.dim, t['dx']]))
    if t['t'] == 'multi':
        return tuple(Lt.spec_coupling_shape(ref, [o[1] for o in t['ops']]))
    return ()


def _strength(ctx, ref, k, t, free):
    kind = t.get('s', 'scalar')
    shape = () if kind == 'scalar' else _shape_of(ref, t)
    if kind == 'array' and any(s <= 0 for s in shape):
        shape = ()
    return Md.sym_strength(ctx, f's{k}', shape, cplx=t.get('cplx', False), free=free)


def _lambda(ctx, t):
    """decay rate of an exponentially decaying term: concrete real, concrete complex [re, im] or symbolic ('sym')"""
    lam = t['lambda']
    if lam == 'sym':
        lam = Md.sym_strength(ctx, 'lam', (), cplx=True)
    elif isinstance(lam, (list, tuple)):
        lam = complex(lam[0], lam[1])
    return lam


def coupling_model_case(ctx, cfg, terms, eph=False, n_free=1, n_cells=2,
                        checks=('mpo', 'termlist', 'bonds', 'conv', 'ed', 'group', 'export', 'segment')):
    from tenpy.models.model import CouplingModel, MPOModel, NearestNeighborModel
    from tenpy.networks import mpo
    from tenpy.algorithms.exact_diag import ExactDiag
    site = _site(cfg.get('site', 'spin'), cfg.get('conserve'))
    lat = Lt.build_lattice(cfg, site=site)
    ref = Lt.Ref(lat, cfg)
    sites = lat.mps_sites()
    M = CouplingModel(lat, explicit_plus_hc=eph)
    orc = Md.Oracle(ctx, lat, ref, n_cells)
    # second oracle in the standard local basis (twin sites without charge sorting) for the exporters that undo the sorting
    kind = cfg.get('site', 'spin')
    sorted_basis = any(list(s_.perm) != list(range(s_.dim)) for s_ in lat.unit_cell)
    orc0 = Md.Oracle(ctx, lat, ref, 1, unit_cell=[_twin(kind)] * len(lat.unit_cell)) \
        if (sorted_basis and not ref.infinite and 'export' in checks) else None
    # third oracle: a window shifted by one ring (finite: the system without its first ring) for extract_segment
    spr = ref.N // ref.Ls[0]
    if ref.infinite:
        seg = (spr, spr + orc.n_cells * ref.N - 1)
    else:
        seg = (spr, ref.N - 1)
    orc_seg = Md.Oracle(ctx, lat, ref, n_cells, window=seg) if ('segment' in checks and seg[1] - seg[0] + 1 >= max(spr, 2)) else None
    oracles = [orc] + ([orc0] if orc0 is not None else []) + ([orc_seg] if orc_seg is not None else [])
    free = n_free
    hermitian = True
    has_exp = False
    for k, t in enumerate(terms):
        s = _strength(ctx, ref, k, t, free)
        free = max(0, free - int(np.size(s)))
        phc = t.get('plus_hc', False)
        if not phc and not t.get('hermitian', False):
            hermitian = False
        if t['t'] == 'onsite':
            M.add_onsite(s, t['u'], t['op'], plus_hc=phc)
            for o_ in oracles:
                o_.onsite(s, t['u'], t['op'], phc)
        elif t['t'] == 'coupling':
            M.add_coupling(s, t['u1'], t['op1'], t['u2'], t['op2'], t['dx'], plus_hc=phc)
            for o_ in oracles:
                o_.coupling(s, t['u1'], t['op1'], t['u2'], t['op2'], t['dx'], phc)
        elif t['t'] == 'coupling_hc_by_hand':
            # the documented way to add the h.c. explicitly: conj(strength), hc of the operators in swapped order, -dx
            M.add_coupling(s, t['u1'], t['op1'], t['u2'], t['op2'], t['dx'])
            M.add_coupling(np.conj(s), t['u2'], _hc(site, t['op2']), t['u1'], _hc(site, t['op1']), [-d for d in t['dx']])
            for o_ in oracles:
                o_.coupling(s, t['u1'], t['op1'], t['u2'], t['op2'], t['dx'], True)
            hermitian = hermitian and True
        elif t['t'] == 'multi':
            ops = [(o[0], list(o[1]), o[2]) for o in t['ops']]
            M.add_multi_coupling(s, ops, plus_hc=phc)
            for o_ in oracles:
                o_.multi(s, ops, phc)
        elif t['t'] == 'exp':
            lam = _lambda(ctx, t)
            M.add_exponentially_decaying_coupling(s, lam, t['op_i'], t['op_j'], subsites=t.get('subsites'), plus_hc=phc)
            for o_ in oracles:
                o_.exp_decaying(s, lam, t['op_i'], t['op_j'], t.get('subsites'), phc)
            has_exp = True
        else:
            raise ValueError(t['t'])
    # all operators of every (non-vanishing) term on neighbouring MPS sites; exponentially decaying terms are refused by
    # calc_H_bond even if their strength vanishes
    nn = orc.max_range <= 1 and not has_exp
    ctx.note('nearest_neighbour' if nn else 'longer_range')
    ctx.note(f'oracle_terms_{min(orc.n_terms, 9)}')
    O = orc.H
    if hermitian:
        ctx.prove_eq(O, Md.dagger(O), 'oracle is Hermitian (terms are Hermitian by construction)')
    # ---- MPO
    H = M.calc_H_MPO()
    D = Md.dense_mpo(H, orc.n_cells)
    ctx.prove_eq(D, O, 'dense(H_MPO) == oracle')
    if hermitian:
        ctx.prove_eq(D, Md.dagger(D), 'dense(H_MPO) is Hermitian')
    finite = not ref.infinite
    # ---- the library's own reading of its term list
    # (fermions: the operator names of to_TermList() already contain the Jordan-Wigner factors and from_term_list would
    # add them a second time -- documented pitfall, DESIGN section 8 -- so this route is only taken for spin sites)
    if 'termlist' in checks and not has_exp and cfg.get('site', 'spin') == 'spin':
        tl = M.all_coupling_terms().to_TermList() + M.all_onsite_terms().to_TermList()
        G = mpo.MPOGraph.from_term_list(tl, sites, lat.bc_MPS, unit_cell_width=lat.mps_unit_cell_width)
        H2 = G.build_MPO()
        H2.explicit_plus_hc = eph
        ctx.prove_eq(Md.dense_mpo(H2, orc.n_cells), O, 'dense(MPO rebuilt from to_TermList) == oracle')
    # ---- nearest-neighbour bonds
    Hb = None
    if nn and 'bonds' in checks:
        Hb = M.calc_H_bond()
        _check_bonds(ctx, ref, sites, Hb, O, orc, 'calc_H_bond')
    elif not nn and 'bonds' in checks:
        try:
            M.calc_H_bond()
            ctx.fail('calc_H_bond must refuse a Hamiltonian with longer-range terms')
        except (ValueError, AssertionError):
            # (documented: ValueError; terms on more than two sites trip an `assert len(term) == 2` instead, see notes)
            ctx.prove(True, 'calc_H_bond refuses longer-range terms')
    mm = MPOModel(lat, H)  # a plain MPOModel: calc_H_bond_from_MPO has to take explicit_plus_hc from the MPO
    if nn and 'conv' in checks:
        Hb2 = mm.calc_H_bond_from_MPO()
        _check_bonds(ctx, ref, sites, Hb2, O, orc, 'calc_H_bond_from_MPO')
        nnm = NearestNeighborModel(lat, Hb)
        try:
            H3 = nnm.calc_H_MPO_from_bond()
        except UnboundLocalError as e:
            if orc.max_range > 0:
                raise
            H3 = None
            ctx.fail('calc_H_MPO_from_bond handles bond Hamiltonians without two-site parts', str(e)[:100])
        if H3 is not None and finite:
            # (infinite systems: the bond -> MPO conversion moves the single-site parts of every bond operator to
            # onsite terms, which changes what lies "inside a window" at its two boundary sites; only finite systems
            # can be compared as dense matrices)
            ctx.prove_eq(Md.dense_mpo(H3, 1), O, 'dense(calc_H_MPO_from_bond) == oracle')
    # ---- ExactDiag
    if finite and 'ed' in checks:
        ed = ExactDiag(mm)
        ed.build_full_H_from_mpo()
        ctx.prove_eq(Md.ed_matrix(ed), O, 'ExactDiag.build_full_H_from_mpo == oracle')
        if nn and Hb is not None and len(sites) >= 3:
            ed2 = ExactDiag(NearestNeighborModel(lat, Hb))
            ed2.build_full_H_from_bonds()
            ctx.prove_eq(Md.ed_matrix(ed2), O, 'ExactDiag.build_full_H_from_bonds == oracle')
    # ---- dense exporters (term-list based for a CouplingModel, ExactDiag based otherwise), sorted and standard basis
    if finite and 'export' in checks:
        from tenpy.algorithms import exact_diag as EDm
        O0 = orc0.H if orc0 is not None else O
        # input class of the one known, unfixed defect of the term-list exporter (known_findings/C10.json); the former
        # suffix ' (explicit_plus_hc model)' belonged to the defect fixed in 81a668b
        suffix = ''
        if orc.jw_gap:
            suffix = ' (Jordan-Wigner operators on non-adjacent MPS sites)'
        ctx.prove_eq(EDm.get_numpy_Hamiltonian(M, undo_sort_charge=True), O0,
                     'get_numpy_Hamiltonian(CouplingModel) == oracle in the standard basis' + suffix)
        ctx.prove_eq(EDm.get_numpy_Hamiltonian(M, undo_sort_charge=False), O,
                     'get_numpy_Hamiltonian(CouplingModel, undo_sort_charge=False) == oracle in the sorted basis' + suffix)
        ctx.prove_eq(EDm.get_numpy_Hamiltonian(mm, undo_sort_charge=True), O0, 'get_numpy_Hamiltonian(MPOModel) == oracle in the standard basis')
        if nn and Hb is not None and len(sites) >= 3:
            ctx.prove_eq(EDm.get_numpy_Hamiltonian(NearestNeighborModel(lat, Hb), from_mpo=False), O0,
                         'get_numpy_Hamiltonian(NearestNeighborModel) == oracle in the standard basis')
        if not ctx.symbolic:
            # scipy.sparse rejects object dtype: compared on the solver's path models / counterexamples only
            ctx.prove_eq(EDm.get_scipy_sparse_Hamiltonian(M).toarray(), O0,
                         'get_scipy_sparse_Hamiltonian(CouplingModel) == oracle in the standard basis (concrete only)' + suffix)
    # ---- segments: MPOModel.extract_segment / MPO.extract_segment / ExactDiag.from_infinite_model keep the terms that lie
    # completely inside the segment (and the explicit_plus_hc flag)
    if 'segment' in checks:
        if ref.infinite:
            sg = mm.extract_segment(enlarge=orc.n_cells)
            ctx.prove(sg.H_MPO.bc == 'segment' and sg.H_MPO.L == len(orc.sites), 'extract_segment(enlarge): segment MPO of the window')
            ctx.prove_eq(Md.dense_mpo(sg.H_MPO, 1), O, 'dense(extract_segment(enlarge=n).H_MPO) == oracle of the window')
            edi = ExactDiag.from_infinite_model(mm, enlarge=orc.n_cells)
            edi.build_full_H_from_mpo()
            ctx.prove_eq(Md.ed_matrix(edi), O, 'ExactDiag.from_infinite_model == oracle of the window')
        if orc_seg is not None:
            sg = mm.extract_segment(first=seg[0], last=seg[1])
            ctx.prove(sg.H_MPO.L == seg[1] - seg[0] + 1 and tuple(sg.lat.segment_first_last) == seg, 'extract_segment(first, last): length')
            ctx.prove_eq(Md.dense_mpo(sg.H_MPO, 1), orc_seg.H, 'dense(extract_segment(first, last).H_MPO) == oracle of the shifted window')
        ctx.prove(mm.H_MPO.bc == lat.bc_MPS and mm.H_MPO.L == len(sites), 'extract_segment leaves the model unchanged')
    # ---- grouping sites keeps the operator (same Kronecker basis: neighbouring sites are merged in order)
    if 'group' in checks and len(sites) % 2 == 0:
        mg = MPOModel(Lt.build_lattice(cfg, site=site), H.copy())
        mg.group_sites(2)
        perm = Md.grouped_perm(list(mg.H_MPO.sites) * orc.n_cells, list(sites) * orc.n_cells)
        Dg = Md.dense_mpo(mg.H_MPO, orc.n_cells)
        ctx.prove_eq(Dg[np.ix_(perm, perm)], O, 'dense(H_MPO after group_sites(2)) == oracle')


def _check_bonds(ctx, ref, sites, Hb, O, orc, what):
    L = len(sites)
    if not ref.infinite:
        ctx.prove(Hb[0] is None, f'{what}: no bond left of the first site of a finite system')
        ctx.prove_eq(Md.dense_bonds(Hb, sites), O, f'sum of dense({what}) == oracle')
        return
    # infinite: the window oracle O contains the onsite terms of its two boundary sites completely, the bonds inside
    # the window only half of them (tenpy splits onsite terms evenly between the neighbouring bonds)
    wsites = orc.sites
    W = len(wsites)
    d = O.shape[0]
    tot = np.zeros((d, d), dtype=object)
    for k in range(1, W):
        hb = Hb[k % L]
        if hb is not None:
            tot = tot + Md.embed_two(wsites, k - 1, Md.bond_matrix(hb))
    ons = orc.onsite_mats
    left = Md.kron(ons[0], np.eye(d // sites[0].dim))
    right = Md.kron(np.eye(d // sites[-1].dim), ons[(W - 1) % L])
    ctx.prove_eq(tot + 0.5 * left + 0.5 * right, O, f'bonds of {what} inside the window + half onsite terms of the two boundary sites == oracle')


def plain_mpo_model_case(ctx, cfg):
    """MPOModel.calc_H_bond_from_MPO / NearestNeighborModel.from_MPOModel on a plain MPOModel (no CouplingModel mixin)"""
    from tenpy.models.model import CouplingModel, MPOModel, NearestNeighborModel
    site = _site(cfg.get('site', 'spin'), cfg.get('conserve'))
    lat = Lt.build_lattice(cfg, site=site)
    ref = Lt.Ref(lat, cfg)
    M = CouplingModel(lat)
    orc = Md.Oracle(ctx, lat, ref, 2)
    J = Md.sym_strength(ctx, 'J', ())
    M.add_coupling(J, 0, 'Sz', 0, 'Sz', [1])
    orc.coupling(J, 0, 'Sz', 0, 'Sz', [1])
    mm = MPOModel(lat, M.calc_H_MPO())
    try:
        nnm = NearestNeighborModel.from_MPOModel(mm)
    except AttributeError as e:
        ctx.fail('NearestNeighborModel.from_MPOModel(MPOModel(lat, H_MPO)) works for a plain MPOModel', str(e)[:100])
        return
    _check_bonds(ctx, ref, lat.mps_sites(), nnm.H_bond, orc.H, orc, 'from_MPOModel')


# ------------------------------------------------------------------------------------------------
# predefined models


def _param(ctx, name, kind, L, coupling=False, bc_MPS='finite', free=0):
    if kind == 'scalar':
        return Md.sym_strength(ctx, name, (), free=free)
    n = (L - 1) if (coupling and bc_MPS == 'finite') else L
    return Md.sym_strength(ctx, name, (n, ), free=free)


def predefined_case(ctx, model, L, bc_MPS, conserve, kind='scalar', eph=False, sort_mpo_legs=False, n_cells=2):
    from tenpy.algorithms.exact_diag import ExactDiag
    P = dict(L=L, bc_MPS=bc_MPS, conserve=conserve, explicit_plus_hc=eph)
    if sort_mpo_legs:
        P['sort_mpo_legs'] = True

    n_par = [0]

    def par(name, coupling=False):
        # the first parameter may vanish (completely, or its first entry); H = 0 cannot be built as an MPO at all
        P[name] = _param(ctx, name, kind, L, coupling, bc_MPS, free=1 if n_par[0] == 0 else 0)
        n_par[0] += 1
        return P[name]

    if model == 'TFIChain':
        from tenpy.models.tf_ising import TFIChain as Cls
        J, g = par('J', True), par('g')
        mk = lambda st: [('c', -J, 'Sigmax', 'Sigmax', False), ('o', -g, 'Sigmaz')]  # noqa
    elif model == 'XXZChain':
        from tenpy.models.xxz_chain import XXZChain as Cls
        P.pop('explicit_plus_hc')
        Jxx, Jz, hz = par('Jxx', True), par('Jz', True), par('hz')
        mk = lambda st: [('c', Jxx * 0.5, 'Sp', 'Sm', True), ('c', Jz, 'Sz', 'Sz', False), ('o', -hz, 'Sz')]  # noqa
    elif model == 'SpinChain':
        from tenpy.models.spins import SpinChain as Cls
        P['S'] = 0.5
        Jz, hz = par('Jz', True), par('hz')
        Jx = par('Jx', True)
        if conserve == 'Sz':
            P['Jy'] = Jy = Jx
        else:
            Jy = par('Jy', True)
            # the model adds (Jx - Jy) / 4 * Sp Sp: keep that derived strength out of the tol_zero region as well
            for a, b in zip(np.asarray(Jx, dtype=object).reshape(-1), np.asarray(Jy, dtype=object).reshape(-1)):
                ctx.assume(ctx.Or(a - b > 1.e-3, b - a > 1.e-3))
        hx = par('hx') if conserve is None else None

        def mk(st):
            # Sx, Sy from the ladder operators (they are not defined as named operators when Sz is conserved)
            Sp, Sm = Md.op_matrix(st, 'Sp'), Md.op_matrix(st, 'Sm')
            Sx, Sy = (Sp + Sm) * 0.5, (Sp - Sm) * (-0.5j)
            sp = [('c', Jx, Sx, Sx, False), ('c', Jy, Sy, Sy, False), ('c', Jz, 'Sz', 'Sz', False), ('o', -hz, 'Sz')]
            if hx is not None:
                sp.append(('o', -hx, Sx))
            return sp
    elif model == 'FermionChain':
        from tenpy.models.fermions_spinless import FermionChain as Cls
        J, V, mu = par('J', True), par('V', True), par('mu')
        mk = lambda st: [('c', -J, 'Cd', 'C', True), ('c', V, 'N', 'N', False), ('o', -mu, 'N')]  # noqa
    elif model == 'FermiHubbardChain':
        from tenpy.models.hubbard import FermiHubbardChain as Cls
        P.pop('conserve')
        P['cons_N'], P['cons_Sz'] = conserve
        t, U, mu = par('t', True), par('U'), par('mu')
        mk = lambda st: [('c', -t, 'Cdu', 'Cu', True), ('c', -t, 'Cdd', 'Cd', True), ('o', U, 'NuNd'), ('o', -mu, 'Ntot')]  # noqa
    else:
        raise ValueError(model)
    m = Cls(P)
    spec = mk(m.lat.unit_cell[0])
    sites = m.lat.mps_sites()
    nc = n_cells if bc_MPS == 'infinite' else 1
    wsites = list(sites) * nc
    W = len(wsites)
    d = int(np.prod([s.dim for s in wsites]))
    O = np.zeros((d, d), dtype=object if ctx.symbolic else complex)

    def at(v, i, n):
        v = np.asarray(v, dtype=object)
        return v[()] if v.ndim == 0 else v[i % n]

    # documented Hamiltonian of the chain: sum over bonds (i, i+1) inside the window and over sites
    for e in spec:
        if e[0] == 'o':
            for i in range(W):
                O = O + at(e[1], i, L) * Md.op_at(wsites, i, e[2])
        else:
            for i in range(W - 1):
                if bc_MPS == 'finite' or True:
                    n = L - 1 if bc_MPS == 'finite' else L
                    T = at(e[1], i, n) * Md.product_at(wsites, [(e[2], i), (e[3], i + 1)])
                    O = O + T
                    if e[4]:
                        O = O + Md.dagger(T)
    ctx.prove_eq(O, Md.dagger(O), 'documented Hamiltonian is Hermitian')
    D = Md.dense_mpo(m.H_MPO, nc)
    ctx.prove_eq(D, O, f'{model}: dense(H_MPO) == documented Hamiltonian')
    ctx.prove(m.H_MPO.explicit_plus_hc == (eph and model != 'XXZChain'), 'explicit_plus_hc flag reaches the MPO')
    if bc_MPS == 'finite':
        ctx.prove_eq(Md.dense_bonds(m.H_bond, sites), O, f'{model}: sum of dense(H_bond) == documented Hamiltonian')
        ed = ExactDiag(m)
        ed.build_full_H_from_mpo()
        ctx.prove_eq(Md.ed_matrix(ed), O, f'{model}: ExactDiag.build_full_H_from_mpo == documented Hamiltonian')
        if L >= 3:
            ed2 = ExactDiag(m)
            ed2.build_full_H_from_bonds()
            ctx.prove_eq(Md.ed_matrix(ed2), O, f'{model}: ExactDiag.build_full_H_from_bonds == documented Hamiltonian')
    else:
        # every bond operator: couplings of that bond + half of the onsite terms of its two sites
        for b in range(L):
            i, j = (b - 1) % L, b
            two = [sites[i], sites[j]]
            hb = np.zeros((two[0].dim * two[1].dim, ) * 2, dtype=object if ctx.symbolic else complex)
            for e in spec:
                if e[0] == 'o':
                    hb = hb + 0.5 * at(e[1], i, L) * Md.op_at(two, 0, e[2]) + 0.5 * at(e[1], j, L) * Md.op_at(two, 1, e[2])
                else:
                    T = at(e[1], i, L) * Md.product_at(two, [(e[2], 0), (e[3], 1)])
                    hb = hb + T
                    if e[4]:
                        hb = hb + Md.dagger(T)
            ctx.prove_eq(Md.bond_matrix(m.H_bond[b]), hb, f'{model}: H_bond[b] == couplings of the bond + half onsite terms')


# ------------------------------------------------------------------------------------------------
def _cfg(cls, Ls, bc, bc_MPS, site='spin', conserve=None, order='default'):
    return dict(cls=cls, Ls=list(Ls), order=order, bc=list(bc), bc_MPS=bc_MPS, wrap=None, site=site, conserve=conserve)


def _name(c):
    return f"{c['cls']}{'x'.join(map(str, c['Ls']))},{c['order']},bc={'/'.join(map(str, c['bc']))},{c['bc_MPS']},{c['site']}:{c['conserve']}"


def _term_sets(site, dim, Lu, conserve):
    """named lists of terms; `d` = displacement of one unit cell along x"""
    z = [0] * dim
    d1 = [1] + [0] * (dim - 1)
    d2 = [2] + [0] * (dim - 1)
    u2 = Lu - 1
    sets = {}
    if site == 'hubbard':
        sets['nn_real'] = [dict(t='coupling', u1=0, op1='Cdu', u2=0, op2='Cu', dx=d1, s='array', plus_hc=True),
                           dict(t='coupling', u1=0, op1='Cdd', u2=0, op2='Cd', dx=d1, s='scalar', plus_hc=True),
                           dict(t='onsite', u=0, op='NuNd', s='array', hermitian=True),
                           dict(t='coupling', u1=0, op1='Ntot', u2=0, op2='Ntot', dx=d1, s='scalar', hermitian=True)]
        sets['nn_cplx'] = [dict(t='coupling', u1=0, op1='Cdu', u2=0, op2='Cu', dx=d1, s='array', cplx=True, plus_hc=True),
                           dict(t='onsite', u=0, op='Nu', s='scalar', hermitian=True)]
        sets['long'] = [dict(t='coupling', u1=0, op1='Nu', u2=0, op2='Nd', dx=d2, s='scalar', hermitian=True),
                        dict(t='coupling', u1=0, op1='Cdd', u2=0, op2='Cd', dx=d1, s='scalar', cplx=True, plus_hc=True),
                        dict(t='onsite', u=0, op='Ntot', s='array', hermitian=True)]
        return sets
    if site == 'spin':
        flip = ('Sp', 'Sm')
        sets['nn_real'] = [dict(t='coupling', u1=0, op1='Sz', u2=0, op2='Sz', dx=d1, s='array', hermitian=True),
                           dict(t='coupling', u1=0, op1='Sp', u2=0, op2='Sm', dx=d1, s='scalar', plus_hc=True),
                           dict(t='onsite', u=u2, op='Sz', s='array', hermitian=True)]
        sets['nn_cplx'] = [dict(t='coupling', u1=0, op1='Sp', u2=0, op2='Sm', dx=d1, s='array', cplx=True, plus_hc=True),
                           dict(t='onsite', u=0, op='Sz', s='scalar', hermitian=True)]
        sets['nn_nonherm'] = [dict(t='coupling', u1=0, op1='Sp', u2=0, op2='Sm', dx=d1, s='array', cplx=True),
                              dict(t='onsite', u=0, op='Sz', s='scalar', cplx=True)]
        sets['hc_by_hand'] = [dict(t='coupling_hc_by_hand', u1=0, op1='Sp', u2=u2, op2='Sm', dx=d1, s='scalar', cplx=True),
                              dict(t='onsite', u=0, op='Sz', s='scalar', hermitian=True)]
        sets['long'] = [dict(t='coupling', u1=0, op1='Sz', u2=0, op2='Sz', dx=d2, s='array', hermitian=True, long=True),
                        dict(t='coupling', u1=0, op1='Sp', u2=0, op2='Sm', dx=d1, s='scalar', cplx=True, plus_hc=True),
                        dict(t='onsite', u=0, op='Sz', s='scalar', hermitian=True)]
        sets['multi'] = [dict(t='multi', ops=[['Sp', z, 0], ['Sz', d1, u2], ['Sm', d2, 0]], s='scalar', cplx=True, plus_hc=True),
                         dict(t='onsite', u=0, op='Sz', s='array', hermitian=True)]
        sets['exp'] = [dict(t='exp', op_i='Sz', op_j='Sz', **{'lambda': 0.5}, s='scalar', hermitian=True),
                       dict(t='exp', op_i='Sp', op_j='Sm', **{'lambda': 0.5}, s='scalar', cplx=True, plus_hc=True)]
        # complex decay rate: the h.c. needs conj(lambda); concrete dyadic constant and fully symbolic
        sets['exp_cplx'] = [dict(t='exp', op_i='Sp', op_j='Sm', **{'lambda': [0.5, 0.25]}, s='scalar', cplx=True, plus_hc=True),
                            dict(t='onsite', u=0, op='Sz', s='scalar', hermitian=True)]
        sets['exp_sym'] = [dict(t='exp', op_i='Sp', op_j='Sm', **{'lambda': 'sym'}, s='scalar', cplx=True, plus_hc=True)]
        if conserve is None:
            sets['nn_xy'] = [dict(t='coupling', u1=0, op1='Sx', u2=0, op2='Sy', dx=d1, s='array', hermitian=True),
                             dict(t='onsite', u=0, op='Sx', s='scalar', hermitian=True)]
        if Lu > 1:
            sets['rung'] = [dict(t='coupling', u1=0, op1='Sp', u2=1, op2='Sm', dx=z, s='array', cplx=True, plus_hc=True),
                            dict(t='coupling', u1=1, op1='Sz', u2=0, op2='Sz', dx=d1, s='scalar', hermitian=True, long=True)]
    else:
        sets['nn_real'] = [dict(t='coupling', u1=0, op1='Cd', u2=0, op2='C', dx=d1, s='array', plus_hc=True),
                           dict(t='coupling', u1=0, op1='N', u2=0, op2='N', dx=d1, s='scalar', hermitian=True),
                           dict(t='onsite', u=u2, op='N', s='array', hermitian=True)]
        sets['nn_cplx'] = [dict(t='coupling', u1=0, op1='Cd', u2=0, op2='C', dx=d1, s='array', cplx=True, plus_hc=True),
                           dict(t='onsite', u=0, op='N', s='scalar', hermitian=True)]
        sets['nn_nonherm'] = [dict(t='coupling', u1=0, op1='Cd', u2=0, op2='C', dx=d1, s='array', cplx=True),
                              dict(t='coupling', u1=0, op1='C', u2=0, op2='Cd', dx=d1, s='scalar', cplx=True)]
        sets['hc_by_hand'] = [dict(t='coupling_hc_by_hand', u1=0, op1='Cd', u2=u2, op2='C', dx=d1, s='scalar', cplx=True),
                              dict(t='onsite', u=0, op='N', s='scalar', hermitian=True)]
        sets['long'] = [dict(t='coupling', u1=0, op1='Cd', u2=0, op2='C', dx=d2, s='array', cplx=True, plus_hc=True, long=True),
                        dict(t='coupling', u1=0, op1='C', u2=0, op2='Cd', dx=[-1] + [0] * (dim - 1), s='scalar', plus_hc=True),
                        dict(t='onsite', u=0, op='N', s='scalar', hermitian=True)]
        sets['multi'] = [dict(t='multi', ops=[['Cd', z, 0], ['N', d1, u2], ['C', d2, 0]], s='scalar', cplx=True, plus_hc=True),
                         dict(t='onsite', u=0, op='N', s='array', hermitian=True)]
        sets['exp'] = [dict(t='exp', op_i='N', op_j='N', **{'lambda': 0.5}, s='scalar', hermitian=True),
                       dict(t='exp', op_i='Cd', op_j='C', **{'lambda': 0.5}, s='scalar', cplx=True, plus_hc=True)]
        sets['exp_cplx'] = [dict(t='exp', op_i='Cd', op_j='C', **{'lambda': [0.5, 0.25]}, s='scalar', cplx=True, plus_hc=True),
                            dict(t='onsite', u=0, op='N', s='scalar', hermitian=True)]
        sets['exp_sym'] = [dict(t='exp', op_i='Cd', op_j='C', **{'lambda': 'sym'}, s='scalar', cplx=True, plus_hc=True)]
        if conserve is None:
            sets['pairing'] = [dict(t='coupling', u1=0, op1='Cd', u2=0, op2='Cd', dx=d1, s='array', cplx=True, plus_hc=True),
                               dict(t='onsite', u=0, op='N', s='scalar', hermitian=True)]
        if Lu > 1:
            sets['rung'] = [dict(t='coupling', u1=0, op1='Cd', u2=1, op2='C', dx=z, s='array', cplx=True, plus_hc=True),
                            dict(t='coupling', u1=1, op1='Cd', u2=0, op2='C', dx=d1, s='scalar', plus_hc=True, long=True)]
    return sets


def CASES(tier, seed):
    import tenpy.models.model  # noqa: imported in the parent, inherited by the forked workers
    import tenpy.algorithms.exact_diag  # noqa
    import tenpy.models.tf_ising, tenpy.models.xxz_chain, tenpy.models.spins, tenpy.models.fermions_spinless  # noqa
    cases = []
    O = dict(max_paths=20000, max_wall_s=200 if tier == 'quick' else 1500, validate_paths=1,
             hard_timeout_s=230 if tier == 'quick' else 1700, prove_timeout_ms=20000)
    lattices = []
    for site, conserves in (('spin', (None, 'Sz')), ('fermion', ('N', None))):
        for cons in conserves:
            lattices += [
                _cfg('Chain', [4], ['open'], 'finite', site, cons),
                _cfg('Chain', [3], ['periodic'], 'finite', site, cons),
                _cfg('Chain', [4], ['open'], 'finite', site, cons, order='folded'),
                _cfg('Chain', [2], ['periodic'], 'infinite', site, cons),
            ]
        if site == 'spin':
            lattices += [_cfg('Chain', [3], ['open'], 'finite', 'hubbard', ['N', 'Sz'])]
            if tier == 'thorough':
                lattices += [_cfg('Chain', [3], ['open'], 'finite', 'hubbard', [None, None]),
                             _cfg('Chain', [3], ['open'], 'finite', 'hubbard', ['N', 'Sz'], order='folded'),
                             _cfg('Chain', [2], ['periodic'], 'infinite', 'hubbard', ['N', 'Sz'])]
        lattices += [
            _cfg('Ladder', [2], ['open'], 'finite', site, conserves[0]),
            _cfg('Ladder', [1], ['periodic'], 'infinite', site, conserves[0]),
            _cfg('Square', [2, 2], ['open', 'periodic'], 'finite', site, conserves[0], order='snake'),
        ]
        if tier == 'thorough':
            lattices += [
                _cfg('Chain', [6], ['open'], 'finite', site, conserves[0]),
                _cfg('Chain', [5], ['periodic'], 'finite', site, conserves[1], order='folded'),
                _cfg('Chain', [2], ['periodic'], 'infinite', site, conserves[0]),
                _cfg('Ladder', [3], ['periodic'], 'finite', site, conserves[0], order='folded'),
                # (a periodic direction of length 2 would put two couplings on the same pair of sites: their strengths add up
                # and the sum may fall into the tol_zero region)
                _cfg('Square', [3, 2], ['periodic', 'open'], 'finite', site, conserves[1]),
                _cfg('Square', [1, 2], ['periodic', 'periodic'], 'infinite', site, conserves[0]),
            ]
    for c in lattices:
        ref_Lu = {'Chain': 1, 'Ladder': 2, 'Square': 1}[c['cls']]
        dim = len(c['Ls'])
        sets = _term_sets(c['site'], dim, ref_Lu, c['conserve'])
        N = int(np.prod(c['Ls'])) * ref_Lu
        for nm, terms in sets.items():
            if nm in ('long', 'multi') and c['Ls'][0] < 3 and c['bc_MPS'] == 'finite':
                continue
            terms = [dict(t) for t in terms]
            herm = all(t.get('plus_hc') or t.get('hermitian') or t['t'] == 'coupling_hc_by_hand' for t in terms)
            for eph in ((False, True) if herm else (False, )):
                if tier == 'quick' and eph and (nm not in ('nn_real', 'nn_cplx', 'hc_by_hand', 'multi', 'exp', 'exp_cplx', 'exp_sym')
                                                or c['order'] == 'folded'
                                                or c['conserve'] not in ((None, ) if c['site'] == 'spin' else ('N', ['N', 'Sz']))):
                    continue
                if tier == 'quick' and nm == 'exp_sym' and not (c['cls'] == 'Chain' and c['order'] == 'default'):
                    continue
                if tier == 'quick' and c['order'] == 'folded' and nm in ('nn_xy', 'pairing', 'hc_by_hand', 'nn_nonherm'):
                    continue
                nc = 2 if tier == 'quick' or N > 1 else 3
                if c['bc_MPS'] == 'infinite' and N * nc > (4 if tier == 'quick' else 6):
                    nc = max(1, (4 if tier == 'quick' else 6) // N)
                cases.append(dict(name=f"terms.{nm}[{_name(c)},explicit_plus_hc={eph}]", fn='coupling_model_case',
                                  params=dict(cfg=c, terms=terms, eph=eph, n_free=1 if (N <= 4 and not (c['site'] == 'hubbard' and nm == 'nn_real')) else 0, n_cells=nc), opts=O))
    for c in lattices[:1] + [x for x in lattices if x['bc_MPS'] == 'infinite'][:1]:
        cases.append(dict(name=f"plain_MPOModel[{_name(c)}]", fn='plain_mpo_model_case', params=dict(cfg=c), opts=O))
    # predefined models
    models = [('TFIChain', (None, 'parity')), ('XXZChain', ('Sz', None)), ('SpinChain', (None, 'Sz', 'parity')), ('FermionChain', ('N', None))]
    if tier == 'thorough':
        models.append(('FermiHubbardChain', (('N', 'Sz'), (None, None))))
    for model, conserves in models:
        for cons in conserves:
            big = model == 'FermiHubbardChain'
            for (L, bc_MPS) in (((3, 'finite'), (2, 'infinite')) if big else ((4, 'finite'), (2, 'finite'), (2, 'infinite'))):
                for kind in ('scalar', 'array'):
                    for eph in (False, True):
                        if tier == 'quick' and (kind == 'array') and (eph or model == 'SpinChain'):
                            continue
                        if model == 'XXZChain' and eph:
                            continue
                        if tier == 'quick' and L == 2 and bc_MPS == 'finite' and (eph or kind == 'array'):
                            continue
                        cases.append(dict(name=f"{model}[L={L},{bc_MPS},conserve={cons},{kind},explicit_plus_hc={eph}]", fn='predefined_case',
                                          params=dict(model=model, L=L, bc_MPS=bc_MPS, conserve=cons, kind=kind, eph=eph,
                                                      n_cells=1 if big else 2), opts=O))
        if tier == 'thorough' and model != 'XXZChain':
            cases.append(dict(name=f"{model}[L=4,finite,conserve={conserves[0]},scalar,sort_mpo_legs]", fn='predefined_case',
                              params=dict(model=model, L=3 if model == 'FermiHubbardChain' else 4, bc_MPS='finite', conserve=conserves[0],
                                          kind='scalar', eph=False, sort_mpo_legs=True), opts=O))
    return cases
