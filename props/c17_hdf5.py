"""C17 Saving and loading reproduces an equal object (HDF5 logic over a modelled h5py; copy/deepcopy pairs).

The real ``Hdf5Saver`` / ``Hdf5Loader`` and every ``save_hdf5`` / ``from_hdf5`` pair run
 * symbolically (python3-vt) on ``symx.h5model`` (in-memory h5py: groups, datasets, attrs, hard links), with
   symbolic charges (Tier A), symbolic tensor entries / singular values / strengths / truncation errors,
 * concretely (replay and path-model validation, /venv/bin/python) on the REAL h5py writing a temporary file
   that is closed and re-opened read-only before loading.
The model itself is validated against real h5py once per run (case ``model_vs_real_h5py``).

Obligations (generic, ``_Cmp``): the loaded object has the same type and the same attribute/element
structure, every numeric leaf is equal for all values of the symbols (``prove_eq``), charges per index
agree (``to_qflat``), dense tensors agree (``to_ndarray``), ``sorted`` / ``bunched`` flags are truthful
(stated as formulas over the charges, not via tenpy's ``is_sorted``), ``test_sanity`` passes, and the
aliasing structure is preserved: two references to one object before saving are one object after
loading (and distinct objects stay distinct); self-referential containers survive.
"""
import contextlib
import copy
import os
import sys

import numpy as np

from catalogue import build as Bd

PROPERTY = 'C17'
LEVEL = 'model_checking'
BOUNDS = {
    'quick': 'legs with <=3 blocks (sizes 1-2), mod in {1,2,3} and (1,2); pipes of 2 legs x 2 blocks; rank-2/3 tensors with '
             '<=2 blocks per leg; LegCharge formats blocks/compact/flat; MPS/MPO L<=4 chi<=2 (concrete Sz charges, symbolic '
             'entries); every Lattice subclass found by reflection in one small instance; container nestings of depth <=3',
    'thorough': 'additionally 2 charges (U1 x Z2), pipes of 3 legs, complex entries for every tensor case, more models',
}
OUTSIDE = ('bytes written by real h5py and the C pickle module (the model of h5py is validated against real h5py on the '
           "repo's own export test data, and every counterexample / sampled path is replayed on real h5py); tensors in "
           "LegCharge format 'flat' (documented as insufficient); dtype promotion; float rounding")
STUBS = [
    'symx.h5model: in-memory h5py (object-dtype data allowed, otherwise h5py 3.x conventions)',
    'Hdf5Saver.dispatch_save[R/I] -> save_dataset with the type_repr of float/complex/int; the float()/complex()/int() '
    'conversion of Hdf5Loader.load_dataset is the identity on symbolic scalars',
    'QTYPE=object (symbolic charges), BLAS contract stub',
]
ASSUMPTIONS = ['charges are mathematical integers', 'Z_N charges of input legs lie in [0,N)', 'floats are reals']

FORMATS = ('blocks', 'compact', 'flat')


# ------------------------------------------------------------------------------------------ environment
def setup_symbolic(case):
    from symx import h5model
    if case.get('tier', 'A') == 'A':
        Bd.setup_symbolic_tierA()
    else:
        Bd.setup_symbolic_tierB()
    h5model.install()
    _install_symbolic_scalar_dispatch()


def _install_symbolic_scalar_dispatch():
    """Hdf5Saver dispatches on the exact type: symbolic reals take the route of float / complex / int"""
    from symx import scalars as S
    from tenpy.tools import hdf5_io as H

    def save_sym(self, obj, path, type_repr):
        if isinstance(obj, S.I):
            return self.save_dataset(obj, path, H.REPR_INT)
        return self.save_dataset(obj, path, H.REPR_FLOAT if obj.is_real() else H.REPR_COMPLEX)

    H.Hdf5Saver.dispatch_save[S.R] = (save_sym, H.REPR_FLOAT)
    H.Hdf5Saver.dispatch_save[S.I] = (save_sym, H.REPR_INT)
    for t, rep in H.TYPES_FOR_HDF5_DATASETS:
        if t in (int, float, complex, np.int64, np.float64, np.complex128):
            H.Hdf5Loader.dispatch_load[rep] = (H.Hdf5Loader.load_dataset, _keep_sym(t))


def _keep_sym(t):

    def conv(v):
        from symx import scalars as S
        return v if S.is_sym(v) else t(v)

    conv.__name__ = t.__name__
    return conv


def hio():
    from tenpy.tools import hdf5_io
    return hdf5_io


@contextlib.contextmanager
def store(ctx):
    """yields (file for saving, reopen()) - symbolic: the h5py model; concrete: real h5py on a temporary file"""
    if ctx.symbolic:
        from symx import h5model
        f = h5model.File('model.h5', 'w')
        yield f, lambda: f
    else:
        import tempfile
        import h5py
        with tempfile.TemporaryDirectory(prefix='c17_') as td:
            fn = os.path.join(td, 'c17.h5')
            f = h5py.File(fn, 'w')
            state = [f]

            def reopen():
                state[0].close()
                state[0] = h5py.File(fn, 'r')
                return state[0]

            try:
                yield f, reopen
            finally:
                state[0].close()


def roundtrip(ctx, obj, fmt=None, **loader_kw):
    H = hio()
    with store(ctx) as (f, reopen):
        H.Hdf5Saver(f, {'LegCharge': fmt} if fmt else None).save(obj)
        g = reopen()
        return _load(ctx, H.Hdf5Loader(g, **loader_kw))


class _Recursed(Exception):
    pass


def _load(ctx, loader):
    """loader.load(); an unbounded recursion of the loader is a violation (not an engine / harness problem)"""
    try:
        return loader.load()
    except RecursionError:
        ctx.fail('loading recursed without end (RecursionError)', 'Hdf5Loader.load')
        raise _Recursed() from None


# ------------------------------------------------------------------------------------------ comparison
def _is_sym(x):
    return type(x).__module__ == 'symx.scalars'


def _isnum(x):
    return isinstance(x, (bool, int, float, complex, np.generic)) and not isinstance(x, (str, bytes, np.str_, np.bytes_))


def _eq(ctx, X, Y, label):
    """equality obligation: symbolic content -> polynomial / integer identity for all values (prove_eq); purely concrete
    content (also everything in the concrete replays) -> exact equality, as an HDF5 round trip must give"""
    X = X if isinstance(X, np.ndarray) else np.asarray(X, dtype=object if ctx.symbolic else None)
    Y = Y if isinstance(Y, np.ndarray) else np.asarray(Y, dtype=object if ctx.symbolic else None)
    if ctx.symbolic and (any(_is_sym(v) for v in X.reshape(-1)) or any(_is_sym(v) for v in Y.reshape(-1))):
        return ctx.prove_eq(X, Y, label)
    same = X.shape == Y.shape and bool(np.all((X == Y) | ((X != X) & (Y != Y))))
    return ctx.prove(same, label)


class _Cmp:
    """observational + structural comparison of an object graph with its loaded twin"""
    # private lazily evaluated caches of Lattice (reset to None by the setters, refilled on demand); what they cache is
    # compared through the public accessors (mps_sites(), reciprocal_basis) in lattice_case
    VOLATILE = ('_mps_sites_cache', '_BZ', '_reciprocal_basis')

    def __init__(self, ctx, flat=False, scalar_types=True):
        self.ctx = ctx
        self.flat = flat  # LegCharge format 'flat': block structure is documented as not restorable
        self.a2b = {}
        self.b2a = {}
        self.keep = []
        self.scalar_types = scalar_types

    def _alias(self, a, b, where):
        """a and b are visited as a pair: the pairing must be a bijection of object identities.
        Returns True if the pair was seen before (stop recursion: cycles)."""
        ia, ib = id(a), id(b)
        self.keep.append((a, b))
        if ia in self.a2b or ib in self.b2a:
            ok = self.a2b.get(ia) == ib and self.b2a.get(ib) == ia
            self.ctx.prove(ok, f'sharing preserved: {where}')
            return True
        self.a2b[ia] = ib
        self.b2a[ib] = ia
        return False

    def same(self, a, b, w):
        ctx = self.ctx
        N = Bd.npc()
        if _is_sym(a) or _is_sym(b):
            return _eq(ctx, a, b, f'equal: {w}')
        if a is None or b is None or isinstance(a, (str, bytes)):
            return ctx.prove(type(a) is type(b) and a == b, f'equal: {w}')
        if _isnum(a):
            ok = _isnum(b)
            if ok and self.scalar_types and type(a) in (bool, int, float, complex) and w.startswith('py'):
                ok = type(a) is type(b)
            ctx.prove(ok, f'type: {w}')
            return ok and _eq(ctx, a, b, f'equal: {w}')
        if isinstance(a, np.dtype) or isinstance(a, (type, type(len), type(_isnum))):
            return ctx.prove(a == b if isinstance(a, np.dtype) else a is b, f'equal: {w}')
        if isinstance(a, range):
            return ctx.prove(type(b) is range and a == b, f'equal: {w}')
        if not ctx.prove(type(a) is type(b), f'type: {w}'):
            return False
        if isinstance(a, tuple):
            if not ctx.prove(len(a) == len(b), f'len: {w}'):
                return False
            for i, (x, y) in enumerate(zip(a, b)):
                self.same(x, y, f'{w}[{i}]')
            return True
        # ---- mutable / identity carrying objects
        if self._alias(a, b, w):
            return True
        if isinstance(a, np.ndarray):
            if not ctx.prove(a.shape == b.shape and (a.dtype == b.dtype or self._num_kind(a) == self._num_kind(b)),
                             f'shape/dtype: {w}'):
                return False
            if a.dtype.kind in 'OifcbuO' and self._num_kind(a):
                return _eq(ctx, a, b, f'equal: {w}')
            return ctx.prove(bool(np.all(a == b)), f'equal: {w}')
        if isinstance(a, list):
            if not ctx.prove(len(a) == len(b), f'len: {w}'):
                return False
            for i, (x, y) in enumerate(zip(a, b)):
                self.same(x, y, f'{w}[{i}]')
            return True
        if isinstance(a, (set, frozenset)):
            return ctx.prove(a == b, f'equal: {w}')
        if type(a).__name__ == 'deque':
            return self.same(list(a), list(b), f'{w}(as list)')
        if type(a).__name__ in ('Fraction', 'slice', 'method'):
            return ctx.prove(a == b if type(a).__name__ != 'method' else (a.__func__ is b.__func__), f'equal: {w}')
        if isinstance(a, dict):
            ka, kb = list(a.keys()), list(b.keys())
            if not ctx.prove(len(ka) == len(kb) and all(k in b for k in ka), f'keys: {w}'):
                return False
            for k in ka:
                self.same(a[k], b[k], f'{w}[{k!r}]')
            return True
        if isinstance(a, np.random.Generator):
            return ctx.prove(str(a.bit_generator.state) == str(b.bit_generator.state), f'rng state: {w}')
        if isinstance(a, N.LegCharge):
            return self.leg(a, b, w)
        da, db = getattr(a, '__dict__', None), getattr(b, '__dict__', None)
        if da is None:
            return ctx.prove(a == b, f'equal: {w}')
        ka = [k for k in da if k not in self.VOLATILE]
        kb = [k for k in db if k not in self.VOLATILE]
        ctx.prove(sorted(ka) == sorted(kb), f'attributes of {type(a).__name__} kept: {w}')
        for k in ka:
            if k in db:
                self.same(da[k], db[k], f'{w}.{k}')
        if isinstance(a, N.Array):
            _eq(ctx, b.to_ndarray(), a.to_ndarray(), f'dense: {w}')
            ctx.prove(b.get_leg_labels() == a.get_leg_labels(), f'labels: {w}')
        ts = getattr(b, 'test_sanity', None)
        if ts is not None:
            ts()
        return True

    @staticmethod
    def _num_kind(a):
        if a.dtype.kind in 'ifcbu':
            return True
        if a.dtype.kind == 'O':
            return all(_isnum(v) or _is_sym(v) for v in a.reshape(-1))
        return False

    def leg(self, a, b, w):
        ctx = self.ctx
        N = Bd.npc()
        ctx.prove(int(a.ind_len) == int(b.ind_len) and int(a.qconj) == int(b.qconj), f'ind_len/qconj: {w}')
        self.same(a.chinfo, b.chinfo, f'{w}.chinfo')
        if int(a.ind_len) == int(b.ind_len) and not (self.flat and isinstance(a, N.LegPipe)):
            # (the index order of a pipe is derived from the block structure of its legs, which 'flat' does not keep:
            #  for pipes in that format pipe_case checks the fusion rule and bijectivity of the loaded pipe instead)
            _eq(ctx, b.to_qflat(), a.to_qflat(), f'charges per index: {w}')
        if not self.flat:
            ctx.prove(int(a.block_number) == int(b.block_number) and np.array_equal(a.slices, b.slices), f'blocks: {w}')
            if int(a.block_number) == int(b.block_number):
                _eq(ctx, b.charges, a.charges, f'block charges: {w}')
            ctx.prove(bool(a.sorted) == bool(b.sorted) and bool(a.bunched) == bool(b.bunched), f'flags kept: {w}')
        if b.sorted:
            ctx.prove(Bd.lex_nondecreasing(ctx, b.charges), f'sorted flag truthful: {w}')
        if b.bunched:
            ctx.prove(Bd.rows_differ(ctx, b.charges), f'bunched flag truthful: {w}')
        ctx.prove(b.charges.shape == (int(b.block_number), b.chinfo.qnumber) and len(b.slices) == int(b.block_number) + 1 and
                  int(b.slices[0]) == 0 and int(b.slices[-1]) == int(b.ind_len), f'slices consistent: {w}')
        b.test_sanity()
        if isinstance(a, N.LegPipe):
            ctx.prove(len(a.legs) == len(b.legs) == b.nlegs and tuple(a.subshape) == tuple(b.subshape), f'pipe shape: {w}')
            for i, (x, y) in enumerate(zip(a.legs, b.legs)):
                self.same(x, y, f'{w}.legs[{i}]')
            if not self.flat:
                for k in ('q_map', 'q_map_slices', '_perm', '_strides', 'subqshape'):
                    ctx.prove(np.array_equal(np.asarray(getattr(a, k)), np.asarray(getattr(b, k))), f'pipe.{k}: {w}')
                import itertools
                for idx in itertools.product(*[range(int(s)) for s in a.subshape]):
                    ctx.prove(int(a.map_incoming_flat(list(idx))) == int(b.map_incoming_flat(list(idx))),
                              f'pipe index map: {w}')
        return True


def check_roundtrip(ctx, obj, fmt=None, what='obj', **kw):
    loaded = roundtrip(ctx, obj, fmt)  # (_Recursed propagates: the case ends with the recorded violation)
    c = _Cmp(ctx, flat=(fmt == 'flat'), **kw)
    c.same(obj, loaded, what)
    ctx.note('roundtrips')
    return loaded


# ------------------------------------------------------------------------------------------ cases: charges, legs, pipes
def chargeinfo_case(ctx, mods, names):
    N = Bd.npc()
    ch = N.ChargeInfo(mods, names)
    ch2 = check_roundtrip(ctx, ch, what='chinfo')
    ctx.prove(ch2 == ch and list(ch2.names) == list(ch.names), 'ChargeInfo equal (own __eq__) and names kept')
    q = ctx.int_array('q', (2, len(mods)))
    _eq(ctx, ch2.make_valid(q.copy()), ch.make_valid(q.copy()), 'loaded ChargeInfo.make_valid agrees for all charges')
    for cp in (copy.copy(ch), copy.deepcopy(ch)):
        _Cmp(ctx).same(ch, cp, 'copy')


def dipolar_case(ctx, via):
    from tenpy.linalg.charges import DipolarChargeInfo
    ch = DipolarChargeInfo([1, 1, 2], ['N', 'P', 'par'], [0], [1], [0])
    if via == 'hdf5':
        ch2 = check_roundtrip(ctx, ch, what='dipolar')
    else:
        ch2 = copy.copy(ch) if via == 'copy' else copy.deepcopy(ch)
        _Cmp(ctx).same(ch, ch2, 'dipolar')
    ctx.prove(ch2 == ch and type(ch2) is DipolarChargeInfo, 'DipolarChargeInfo equal (own __eq__)')
    q = ctx.int_array('q', (2, 3))
    dx = ctx.int('dx')
    _eq(ctx, ch2.shift_charges_horizontal(q.copy(), dx), ch.shift_charges_horizontal(q.copy(), dx),
                 'loaded DipolarChargeInfo shifts charges identically')


def leg_case(ctx, sizes, mods, qconj, fmt, prep='none'):
    ch = Bd.chinfo(mods)
    leg = Bd.leg(ctx, 'l', sizes, ch, qconj)
    if prep == 'sort':
        leg = leg.sort(bunch=True)[1]
    elif prep == 'bunch':
        leg = leg.bunch()[1]
    ctx.note(f'leg_blocks_{leg.block_number}')
    if fmt == 'copy':
        for cp in (copy.copy(leg), copy.deepcopy(leg), leg.copy()):
            _Cmp(ctx).same(leg, cp, 'leg')
        return
    check_roundtrip(ctx, leg, fmt, what='leg')


def pipe_case(ctx, sizes, mods, qconjs, pipe_qconj, sort, bunch, fmt, variant='plain'):
    N = Bd.npc()
    ch = Bd.chinfo(mods)
    legs = [Bd.leg(ctx, f'l{k}', sz, ch, qc) for k, (sz, qc) in enumerate(zip(sizes, qconjs))]
    pipe = N.LegPipe(legs, qconj=pipe_qconj, sort=sort, bunch=bunch)
    if variant == 'conj':
        pipe = pipe.conj()
    ctx.note(f'pipe_blocks_{pipe.block_number}')
    if fmt == 'copy':
        for cp in (copy.copy(pipe), copy.deepcopy(pipe), pipe.copy()):
            _Cmp(ctx).same(pipe, cp, 'pipe')
        return
    loaded = check_roundtrip(ctx, pipe, fmt, what='pipe')
    if fmt == 'flat':
        # block structure not restorable: the loaded pipe must still be a valid fusion of the same incoming charges
        pq = loaded.to_qflat()
        lq = [l.to_qflat() for l in loaded.legs]
        import itertools
        outs = []
        for idx in itertools.product(*[range(l.ind_len) for l in loaded.legs]):
            o = int(loaded.map_incoming_flat(list(idx)))
            outs.append(o)
            fused = sum(lq[k][i] * loaded.legs[k].qconj for k, i in enumerate(idx))
            ctx.prove(Bd.valid_mod(ctx, pq[o] * loaded.qconj - fused, ch), "flat: fusion rule of the loaded pipe")
        ctx.prove(sorted(outs) == list(range(loaded.ind_len)), 'flat: loaded pipe index map is a bijection')


# ------------------------------------------------------------------------------------------ cases: tensors
def array_case(ctx, sizes, mods, qconjs, fmt, cplx=False, subset='all', pipe=False, shared=True):
    ch = Bd.chinfo(mods)
    legs = [Bd.leg(ctx, f'l{k}', sz, ch, qc) for k, (sz, qc) in enumerate(zip(sizes, qconjs))]
    qt = Bd.qvec(ctx, 'qt', ch)
    A = Bd.tensor(ctx, 'a', legs, qt, cplx=cplx, labels=[f'p{k}' for k in range(len(legs))], subset=subset)
    if pipe:
        A = A.combine_legs([0, 1])
    ctx.note('stored_blocks', A.stored_blocks)
    if A.stored_blocks:
        ctx.note('nonempty_tensors')
    if fmt == 'copy':
        for cp in (copy.copy(A), copy.deepcopy(A)):
            cp.test_sanity()
            _eq(ctx, cp.to_ndarray(), A.to_ndarray(), 'copy: dense')
            ctx.prove(cp.get_leg_labels() == A.get_leg_labels(), 'copy: labels')
            _eq(ctx, cp.qtotal, A.qtotal, 'copy: qtotal')
        dc = copy.deepcopy(A)
        ctx.prove(all(x is not y for x, y in zip(dc._data, A._data)), 'deepcopy owns its blocks')
        return
    if not shared:
        check_roundtrip(ctx, A, fmt, what='A')
        return
    # two references to the same tensor and a second tensor sharing the legs: `is`-sharing after load
    B = A.conj()
    data = {'A': A, 'again': A, 'B': B, 'legs': list(A.legs)}
    out = check_roundtrip(ctx, data, fmt, what='data')
    ctx.prove(out['A'] is out['again'], 'two references to one Array are one Array after loading')
    ctx.prove(all(x is y for x, y in zip(out['legs'], out['A'].legs)), 'legs referenced twice are shared after loading')
    ctx.prove(out['A'].chinfo is out['B'].chinfo is out['A'].legs[0].chinfo, 'ChargeInfo shared by tensors and legs after loading')


# ------------------------------------------------------------------------------------------ cases: containers
def containers_case(ctx, which):
    x, z = ctx.real('x'), ctx.cplx('z')
    k = ctx.int('k')
    arr = ctx.array('v', (2, ))
    iarr = ctx.int_array('n', (2, ), -5, 5)
    if which == 'scalars':
        data = {'none': None, 'int': 3, 'float': 2.5, 'complex': 1.5 - 2j, 'str': 'five', 'bool': True, 'np': [np.int64(1), np.float64(3.0),
                np.complex128(2j), np.int32(4), np.float32(0.5), np.bool_(False)], 'sym': [x, z, x * z, k], 'big': 2**70, 'neg': -2**63,
                'bytes': b'raw', 'empty_str': '', 'unicode': 'hä ☃', 'range': range(2, 8, 3), 'range0': range(0)}
    elif which == 'arrays':
        data = {'sym': arr, 'isym': iarr, 'f': np.array([6., 66.]), 'i': np.arange(6).reshape(2, 3), 'empty': np.array([]), 'zero_d': np.zeros([]),
                'c': np.array([1j, 2.]), 'b': np.array([True, False]), 'e2': np.zeros((0, 2), int), 'dtypes': [np.dtype('int64'), np.dtype(float),
                np.dtype([('a', np.int32, 8), ('b', np.float64, 5)])], 'twice': [arr, arr]}
    elif which == 'iterables':
        data = {'l': [], 'l2': [11, x], 't': (), 't3': (1, (2, x), [3]), 's': set(), 's3': {1, 2, 3}, 'nest': [[(1, ), {'a': [x]}], {(1, 2): 'three', 0: 1, 'asdf': 2.}],
                'dict_nonstr': {1: 'a', (2, 3): [4], None: x, 2.5: None}, 'dict_slash': {'a/b': 1, '.': 2}, 'emptyd': {}, 'fs': {'x': {(1, 2), 'u'}}}
    elif which == 'cyclic':
        rec = [0, None, 2, [3, None, 5]]
        rec[3][1] = rec[1] = rec
        d = {'self': None, 'v': arr}
        d['self'] = d
        inner = [arr]
        data = {'recursive': rec, 'd': d, 'shared': [inner, inner, (inner, )], 'x': x}
    elif which == 'cyclic_general':
        # self-reference through every container layout of the saver: dict with non-str keys (keys/values layout) directly,
        # through a nested list, through a tuple, a list inside a general dict inside that list, and a simple (str-key)
        # dict in a cycle with a general one
        g2 = {0: 'zero', (1, 2): 'tuple-key'}
        g2[3] = ['nested', g2]
        g3 = {2.5: k}
        g3[(4, )] = (1, g3, [g3])
        l1 = [1]
        l1.append({5: l1, (6, 7): [l1], None: z})
        sd = {'a': None, 'v': arr}
        g4 = {1: sd, 2: [sd]}
        sd['a'] = g4
        shared = {1: 'x', 2.5: 'y'}
        data = {'g2': g2, 'g3': g3, 'l1': l1, 'g4': g4, 'first': shared, 'second': [shared], 7: 'top level is general too'}
    elif which == 'cyclic_general_direct':
        # a dict with non-str keys that is its own value (separate case: an unbounded recursion here must not hide the others)
        g1 = {0: 'zero', (1, 2): x}
        g1[3] = g1
        data = {'g1': g1, 7: [g1]}
        data['top'] = data
    elif which == 'exportable':
        H = hio()
        e = H.Hdf5Exportable()
        e.some_attr = 'something'
        e.val = x
        e.me = e
        data = {'e': e, 'e2': e, 'ignored': H.Hdf5Ignored('nothing'), 'cls': H.Hdf5Exportable, 'fn': H.find_global, 'builtin': len}
    elif which.startswith(('reduce:', 'global:')):
        # objects without explicit HDF5 format: Hdf5Saver falls back to the pickle protocol (__reduce__)
        import collections
        kind = which.split(':')[1]
        if kind == 'OrderedDict':
            data = {'o': collections.OrderedDict([('b', 1), ('a', x), (3, [x])])}
        elif kind == 'deque':
            data = {'o': collections.deque([1, x, 'two'])}
        elif kind == 'defaultdict':
            data = {'o': collections.defaultdict(list, {'k': [x], 'j': []})}
        elif kind == 'state':
            from tenpy.tools.events import EventHandler
            eh = EventHandler('obj')
            eh.connect(H_find_global(), priority=2)
            data = {'o': eh, 'sl': slice(1, None, 2), 'method': eh.connect}
        elif kind == 'metaclass':
            # a global class whose metaclass is not `type` (MPS: ABCMeta), as pickle's save_global would store it
            from tenpy.networks.mps import MPS
            data = {'o': MPS, 'plain': hio().Hdf5Loader}
        else:
            raise ValueError(which)
    else:
        raise ValueError(which)
    H = hio()
    import warnings
    with store(ctx) as (f, reopen), warnings.catch_warnings():
        warnings.simplefilter('ignore')  # 'without explicit HDF5 format; fall back to pickle protocol'
        H.Hdf5Saver(f).save(data)
        try:
            out = _load(ctx, H.Hdf5Loader(reopen()))
        except _Recursed:
            return
    if which == 'exportable':
        data.pop('ignored')
        ctx.prove('ignored' not in out, 'Hdf5Ignored objects are not saved')
        ctx.prove(out['e'].me is out['e'] and out['e2'] is out['e'], 'self-referential exportable survives')
    _Cmp(ctx).same(data, out, 'py')
    if which == 'cyclic':
        r = out['recursive']
        ctx.prove(r[1] is r and r[3][1] is r, 'self-referential list survives')
        ctx.prove(out['d']['self'] is out['d'], 'self-referential dict survives')
        ctx.prove(out['shared'][0] is out['shared'][1] is out['shared'][2][0], 'list referenced three times is one list after loading')
    if which == 'cyclic_general':
        ctx.prove(out['g2'][3][1] is out['g2'], 'general dict containing itself through a list survives')
        ctx.prove(out['g3'][(4, )][1] is out['g3'] and out['g3'][(4, )][2][0] is out['g3'], 'general dict containing itself through a tuple survives')
        ctx.prove(out['l1'][1][5] is out['l1'] and out['l1'][1][(6, 7)][0] is out['l1'], 'list inside a general dict inside that list survives')
        ctx.prove(out['g4'][1]['a'] is out['g4'] and out['g4'][2][0] is out['g4'][1], 'simple dict in a cycle with a general dict survives')
        ctx.prove(out['second'][0] is out['first'], 'shared general dict is shared after loading')
    if which == 'cyclic_general_direct':
        ctx.prove(out['g1'][3] is out['g1'] and out[7][0] is out['g1'], 'general dict containing itself directly survives')
        ctx.prove(out['top'] is out, 'top-level general dict containing itself survives')
    if which == 'arrays':
        ctx.prove(out['twice'][0] is out['twice'][1] is out['sym'], 'array referenced three times is one array after loading')
    ctx.note('roundtrips')


def H_find_global():
    return hio().find_global


def loader_options_case(ctx):
    """exclude / partial loading / memo behaviour of Hdf5Loader"""
    H = hio()
    x = ctx.real('x')
    shared = [x, 2]
    data = {'big': [1, 2, 3], 'small': shared, 'also': shared}
    with store(ctx) as (f, reopen):
        H.save_to_hdf5(f, data)
        try:
            H.save_to_hdf5(f, 5, '/big')
            ctx.fail('saving to an existing path must raise')
        except (ValueError, OSError, RuntimeError):
            ctx.prove(True, 'saving to an existing path raises')
        g = reopen()
        out = H.load_from_hdf5(g, exclude=['/big'])
        ctx.prove(isinstance(out['big'], H.Hdf5Ignored) and out['small'] is out['also'], 'exclude replaces the object, sharing kept')
        _eq(ctx, out['small'][0], x, 'partial: value')
        part = H.load_from_hdf5(g, '/small')
        _eq(ctx, part[0], x, 'load with path')
        sub = H.Hdf5Loader(g)
        a, b = sub.load('/small'), sub.load('/also')
        ctx.prove(a is b, 'one loader: hard-linked groups load to one object')


# ------------------------------------------------------------------------------------------ cases: networks, terms, models
def _symbolize(ctx, A, name, cplx=False, pos=False):
    """replace the stored blocks of a concretely built npc.Array by symbolic entries (Tier B)"""
    A = A.copy(deep=True)
    A._data = [ctx.array(f'{name}b{i}', t.shape, cplx=cplx, pos=pos) for i, t in enumerate(A._data)]
    A.dtype = np.dtype(object) if ctx.symbolic else np.dtype(complex if cplx else float)
    return A


def _site(kind):
    from tenpy.networks import site as S
    if kind == 'spin_half_Sz':
        return S.SpinHalfSite('Sz')
    if kind == 'spin_half_none':
        return S.SpinHalfSite(None)
    if kind == 'spin_half_unsorted':
        return S.SpinHalfSite('Sz', sort_charge=False)
    if kind == 'fermion':
        return S.FermionSite('N')
    if kind == 'boson':
        return S.BosonSite(2, 'parity')
    if kind == 'spin1':
        return S.SpinSite(1., 'Sz')
    if kind == 'spinhalf_fermion':
        return S.SpinHalfFermionSite()
    if kind == 'hole':
        return S.SpinHalfHoleSite()
    if kind == 'clock':
        return S.ClockSite(3, 'Z')
    if kind == 'grouped':
        return S.GroupedSite([S.SpinHalfSite('Sz'), S.FermionSite('N')], charges='independent')
    if kind == 'grouped_same':
        return S.GroupedSite([S.SpinHalfSite('Sz'), S.SpinHalfSite('Sz')], charges='same')
    raise ValueError(kind)


def site_case(ctx, kind, fmt='blocks', cplx=False):
    s = _site(kind)
    # an extra operator with symbolic entries on the charge-neutral blocks
    op = _symbolize(ctx, s.Id, 'op', cplx=cplx)
    s.add_op('Xsym', op, hc=False)
    out = check_roundtrip(ctx, {'s': s, 'again': s}, fmt, what='d')
    s2 = out['s']
    ctx.prove(out['again'] is s2, 'site saved twice is shared')
    ctx.prove(s2.opnames == s.opnames and s2.state_labels == s.state_labels, 'site: opnames and state labels')
    for name in sorted(s.opnames):
        _eq(ctx, s2.get_op(name).to_ndarray(), s.get_op(name).to_ndarray(), f'site op {name}')
    ctx.prove(all(s2.get_op(n).legs[0] is s2.leg for n in s2.opnames), 'site operators share the site leg after loading')
    cp = copy.deepcopy(s)
    _Cmp(ctx).same(s, cp, 'deepcopy(site)')


def _mps(ctx, kind, cplx, mixed=False):
    from tenpy.networks.mps import MPS
    from tenpy.networks.purification_mps import PurificationMPS
    if kind == 'finite_singlets':
        psi = MPS.from_singlets(_site('spin_half_Sz'), 4, [(0, 3), (1, 2)], unit_cell_width=4)
    elif kind == 'infinite_singlets':
        psi = MPS.from_singlets(_site('spin_half_unsorted'), 2, [(0, 1)], bc='infinite', unit_cell_width=2)
    elif kind == 'segment':
        psi = MPS.from_singlets(_site('spin_half_Sz'), 4, [(0, 1), (2, 3)], bc='infinite', unit_cell_width=4)
        psi = psi.extract_segment(1, 2)
    elif kind == 'fermion_product':
        psi = MPS.from_product_state([_site('fermion')] * 3, ['full', 'empty', 'full'], unit_cell_width=3)
    elif kind == 'purification':
        psi = PurificationMPS.from_infiniteT([_site('spin_half_Sz')] * 2, unit_cell_width=2)
    else:
        raise ValueError(kind)
    for i in range(psi.L):
        if mixed and i == 0:
            continue  # first tensor stays a concrete real (float64) tensor, the later ones get (complex) symbolic entries
        psi._B[i] = _symbolize(ctx, psi._B[i], f'B{i}', cplx=(cplx or mixed))
    psi._S = [ctx.array(f'S{i}', np.shape(s), pos=True) for i, s in enumerate(psi._S)]
    psi.norm = ctx.real('norm', pos=True)
    psi.dtype = np.result_type(*[B.dtype for B in psi._B])  # the documented meaning of MPS.dtype
    return psi


def mps_case(ctx, kind, fmt='blocks', cplx=False, mixed=False):
    psi = _mps(ctx, kind, cplx, mixed)
    ctx.note('stored_blocks', sum(B.stored_blocks for B in psi._B))
    psi2 = check_roundtrip(ctx, psi, fmt, what='psi')
    ctx.prove(psi2.L == psi.L and psi2.bc == psi.bc and list(psi2.form) == list(psi.form) and psi2.finite == psi.finite, 'MPS: L, bc, form')
    for i in range(psi.L):
        _eq(ctx, psi2.get_B(i, None).to_ndarray(), psi.get_B(i, None).to_ndarray(), 'MPS: tensors')
        ctx.prove(psi2.get_B(i, None).get_leg_labels() == psi.get_B(i, None).get_leg_labels(), 'MPS: labels')
    _eq(ctx, psi2.norm, psi.norm, 'MPS: norm')
    ctx.prove(psi2.dtype == psi.dtype == np.result_type(*[B.dtype for B in psi2._B]), 'MPS: dtype is the common dtype of all tensors')
    ctx.prove(all(b.legs[b.get_leg_index('p')] is s.leg for b, s in zip(psi2._B, psi2.sites)) or
              not all(b.legs[b.get_leg_index('p')] is s.leg for b, s in zip(psi._B, psi.sites)), 'MPS: physical legs shared with sites as before')
    cp = copy.deepcopy(psi)
    _Cmp(ctx).same(psi, cp, 'deepcopy(psi)')


def umps_case(ctx, kind, fmt='blocks', cplx=False):
    """UniformMPS / MomentumMPS (beta classes with their own save_hdf5 / from_hdf5)"""
    import warnings
    from tenpy.networks.mps import MPS
    from tenpy.networks.uniform_mps import UniformMPS
    from tenpy.networks.momentum_mps import MomentumMPS
    N = Bd.npc()
    with warnings.catch_warnings():
        warnings.simplefilter('ignore')
        psi = MPS.from_singlets(_site('spin_half_Sz'), 2, [(0, 1)], bc='infinite', unit_cell_width=2)
        u = UniformMPS.from_MPS(psi)
        # (the uMPS tensors stay concrete: UniformMPS.test_sanity -> test_validity evaluates norms numerically and
        #  only accepts tensors that fulfil the uMPS gauge conditions; symbolic: the excitation tensors X and the momentum)
        obj = u
        if kind == 'MomentumMPS':
            Xs = [_symbolize(ctx, t, f'X{i}', cplx=cplx) for i, t in enumerate(u._AC)]
            obj = MomentumMPS(Xs, u, ctx.real('p'), n_sites=1)
        ctx.note('stored_blocks', sum(t.stored_blocks for t in u._AC))
        out = check_roundtrip(ctx, obj, fmt, what=kind)
    ctx.prove(type(out) is type(obj), f'{kind}: type')
    u2 = out if kind == 'UniformMPS' else out.uMPS_GS
    for i in range(u.L):
        for name in ('_AL', '_AR', '_AC', '_C'):
            _eq(ctx, getattr(u2, name)[i].to_ndarray(), getattr(u, name)[i].to_ndarray(), f'{kind}: tensors {name}')
    if kind == 'MomentumMPS':
        _eq(ctx, out.p, obj.p, 'MomentumMPS: momentum')
        for a, b in zip(out._X, obj._X):
            _eq(ctx, a.to_ndarray(), b.to_ndarray(), 'MomentumMPS: excitation tensors')


def mpo_case(ctx, kind, fmt='blocks', cplx=False, mixed=False):
    from tenpy.models.tf_ising import TFIChain
    from tenpy.models.xxz_chain import XXZChain
    if kind == 'tfi_finite':
        H = TFIChain({'L': 3, 'bc_MPS': 'finite', 'conserve': 'parity'}).H_MPO
    elif kind == 'xxz_infinite':
        H = XXZChain({'L': 2, 'bc_MPS': 'infinite'}).H_MPO
    elif kind == 'plus_hc':
        H = XXZChain({'L': 2, 'bc_MPS': 'finite', 'explicit_plus_hc': True}).H_MPO
    else:
        raise ValueError(kind)
    for i in range(H.L):
        if mixed and i == 0:
            continue  # first tensor concrete real, later ones complex symbolic
        H._W[i] = _symbolize(ctx, H._W[i], f'W{i}', cplx=(cplx or mixed))
    H.dtype = np.result_type(*[W.dtype for W in H._W])
    ctx.note('stored_blocks', sum(W.stored_blocks for W in H._W))
    H2 = check_roundtrip(ctx, H, fmt, what='H')
    ctx.prove(H2.dtype == H.dtype == np.result_type(*[W.dtype for W in H2._W]), 'MPO: dtype is the common dtype of all tensors')
    ctx.prove(H2.L == H.L and H2.bc == H.bc and list(H2.IdL) == list(H.IdL) and list(H2.IdR) == list(H.IdR) and
              H2.max_range == H.max_range and bool(H2.explicit_plus_hc) == bool(H.explicit_plus_hc), 'MPO: L, bc, IdL, IdR, max_range, plus_hc')
    for i in range(H.L):
        _eq(ctx, H2.get_W(i).to_ndarray(), H.get_W(i).to_ndarray(), 'MPO: tensors')


def terms_case(ctx, kind, cplx=False):
    from tenpy.networks import terms as T
    s = [ctx.num(f's{i}', cplx) for i in range(4)]
    if kind == 'TermList':
        t = T.TermList([[('Sz', 0)], [('Sp', 1), ('Sm', 3)], [('Sz', 2), ('Sz', 0), ('Sx', -1)]], s[:3])
    elif kind == 'OnsiteTerms':
        t = T.OnsiteTerms(3)
        t.add_onsite_term(s[0], 0, 'Sz')
        t.add_onsite_term(s[1], 2, 'Sx')
        t.add_onsite_term(s[2], 2, 'Sx')
    elif kind == 'CouplingTerms':
        t = T.CouplingTerms(4)
        t.add_coupling_term(s[0], 0, 1, 'Sz', 'Sz')
        t.add_coupling_term(s[1], 1, 3, 'Sp', 'Sm', 'JW')
        t.add_coupling_term(s[2], 1, 3, 'Sp', 'Sm', 'JW')
    elif kind == 'MultiCouplingTerms':
        t = T.MultiCouplingTerms(4)
        t.add_multi_coupling_term(s[0], [0, 1, 3], ['Sz', 'Sp', 'Sm'], ['Id', 'JW'])
        t.add_coupling_term(s[1], 1, 2, 'Sz', 'Sz')
    elif kind == 'ExponentiallyDecayingTerms':
        t = T.ExponentiallyDecayingTerms(4)
        t.add_exponentially_decaying_coupling(s[0], ctx.real('lam', pos=True), 'Sz', 'Sz', subsites=[0, 2, 3])
    else:
        raise ValueError(kind)
    t2 = check_roundtrip(ctx, t, what='terms')
    if kind != 'TermList' and hasattr(t, 'to_TermList'):
        a, b = t.to_TermList(), t2.to_TermList()
        ctx.prove(a.terms == b.terms, 'terms: same term list after loading')
        _eq(ctx, np.asarray(b.strength), np.asarray(a.strength), 'terms: same strengths after loading')
    _Cmp(ctx).same(t, copy.deepcopy(t), 'deepcopy(terms)')


def misc_case(ctx, kind):
    if kind == 'TruncationError':
        from tenpy.linalg.truncation import TruncationError
        e = TruncationError(ctx.real('eps', nonneg=True), ctx.real('ov'))
        out = check_roundtrip(ctx, [e, e, e + e], what='err')
        ctx.prove(out[0] is out[1] and out[2] is not out[0], 'TruncationError sharing')
        _eq(ctx, [out[0].eps, out[0].ov, out[2].eps], [e.eps, e.ov, 2 * e.eps], 'TruncationError eps / ov')
        _Cmp(ctx).same(e, copy.deepcopy(e), 'deepcopy(err)')
    elif kind == 'Config':
        from tenpy.tools.params import Config
        x = ctx.real('dt')
        c = Config({'dt': x, 'order': 2, 'trunc_params': {'chi_max': 10, 'svd_min': ctx.real('svd_min', pos=True)}, 'unused_key': None,
                    'list': [1, x]}, 'cfg')
        c['dt']
        sub = c.subconfig('trunc_params')
        sub['chi_max']
        out = check_roundtrip(ctx, {'c': c, 'sub': sub}, what='cfg')
        c2 = out['c']
        ctx.prove(c2.name == c.name and set(c2.unused) == set(c.unused) and set(c2.keys()) == set(c.keys()), 'Config: name, unused, keys')
        ctx.prove(out['sub'] is c2.options['trunc_params'], 'Config: subconfig shared with parent after loading')
        _eq(ctx, c2.options['dt'], x, 'Config: symbolic value')
        _Cmp(ctx).same(c, copy.deepcopy(c), 'deepcopy(cfg)')
        e = Config({}, 'empty')
        check_roundtrip(ctx, e, what='empty_cfg')
    else:
        raise ValueError(kind)


# lattices ------------------------------------------------------------------------------------
def lattice_classes():
    """every Lattice subclass defined in tenpy (reflection)"""
    return [c for n, c in sorted(exportable_classes().items()) if _is_lattice(c)]


def _is_lattice(c):
    from tenpy.models.lattice import Lattice
    return issubclass(c, Lattice)


_EXPORTABLE = None


def exportable_classes():
    """{qualified name: class} of all classes in the tenpy package that offer HDF5 export"""
    global _EXPORTABLE
    if _EXPORTABLE is None:
        import importlib
        import inspect
        import pkgutil
        import warnings
        import tenpy
        found = {}
        with warnings.catch_warnings():
            warnings.simplefilter('ignore')
            for m in pkgutil.walk_packages(tenpy.__path__, 'tenpy.'):
                try:
                    mod = importlib.import_module(m.name)
                except Exception:
                    continue
                for c in vars(mod).values():
                    if inspect.isclass(c) and c.__module__.startswith('tenpy') and callable(getattr(c, 'save_hdf5', None)):
                        found[c.__module__ + '.' + c.__qualname__] = c
        _EXPORTABLE = found
    return _EXPORTABLE


def _make_lattice(ctx, clsname, variant='both'):
    from tenpy.models import lattice as L
    cls = exportable_classes()[clsname]
    s = _site('spin_half_Sz')
    f = _site('fermion')
    name = cls.__name__
    if name == 'Lattice':
        lat = L.Lattice([2, 2], [s, s], order='snake', bc=['open', 'periodic'], bc_MPS='finite', basis=[[1., 0.], [0.5, 1.]],
                        positions=[[0., 0.], [0.25, 0.5]], pairs={'nearest_neighbors': [(0, 1, np.array([0, 0]))]})
    elif name == 'TrivialLattice':
        lat = L.TrivialLattice([s, s, s])
    elif name == 'SimpleLattice':
        lat = L.SimpleLattice([2, 3], s, bc='periodic', bc_MPS='infinite')
    elif name == 'MultiSpeciesLattice':
        lat = L.MultiSpeciesLattice(L.Square(2, 2, None), [s, s], ['up', 'down'])
    elif name == 'IrregularLattice':
        kw = {}
        if variant in ('both', 'add_only'):
            kw.update(add=([[1, 1]], [None]), add_unit_cell=[s], add_positions=[[0.5]])
        if variant in ('both', 'remove_only'):
            kw.update(remove=[[2, 0]])
        lat = L.IrregularLattice(L.Chain(4, s), **kw)
    elif name == 'HelicalLattice':
        lat = L.HelicalLattice(L.Square(2, 3, s, bc=['periodic', -1], bc_MPS='infinite'), 2)
    elif name == 'MixedXKLattice':
        from tenpy.models.mixed_xk import SpinlessMixedXKSquare
        lat = SpinlessMixedXKSquare({'Lx': 2, 'Ly': 2, 't': 1., 'V': 1.}).lat
    elif name == 'DualSquare':
        lat = cls(2, 2, s, bc='periodic', bc_MPS='infinite')
    elif name in ('Ladder', 'Chain'):
        lat = cls(3, s, bc_MPS='infinite', bc='periodic')
    elif name == 'NLegLadder':
        lat = cls(2, 3, s)
    else:
        # Square, Triangular, Honeycomb, Kagome and every class added later with the (Lx, Ly, sites) signature
        lat = cls(2, 2, s, bc=['open', 'periodic'])
    return lat


def lattice_case(ctx, clsname, disorder=False, variant='both'):
    lat = _make_lattice(ctx, clsname, variant)
    if disorder:
        shape = tuple(lat.shape) + (lat.basis.shape[-1], )
        lat.position_disorder = ctx.array('dis', shape)
    lat.test_sanity()
    lat2 = check_roundtrip(ctx, {'lat': lat, 'again': lat}, what='d')['lat']
    ctx.prove(type(lat2) is type(lat), 'lattice: type')
    ctx.prove(lat2.N_sites == lat.N_sites and tuple(lat2.Ls) == tuple(lat.Ls) and tuple(lat2.shape) == tuple(lat.shape) and
              lat2.dim == lat.dim and lat2.N_cells == lat.N_cells and lat2.N_sites_per_ring == lat.N_sites_per_ring, 'lattice: sizes')
    ctx.prove(np.array_equal(lat2.order, lat.order) and list(lat2.boundary_conditions) == list(lat.boundary_conditions) and
              lat2.bc_MPS == lat.bc_MPS and np.array_equal(lat2.bc, lat.bc) and np.array_equal(lat2.bc_shift, lat.bc_shift)
              if lat.bc_shift is not None else lat2.bc_shift is None, 'lattice: order, boundary conditions')
    i = ctx.int('i', 0, lat.N_sites - 1)
    _eq(ctx, np.asarray(lat2.mps2lat_idx(i)), np.asarray(lat.mps2lat_idx(i)), 'lattice: mps2lat_idx for every site')
    for j in range(lat.N_sites):
        li = lat.mps2lat_idx(j)
        ctx.prove(int(lat2.lat2mps_idx(li)) == int(lat.lat2mps_idx(li)) == j, 'lattice: lat2mps_idx inverts')
        if not disorder:  # position() adds the (symbolic) disorder into a float64 buffer; the disorder array itself is compared above
            _eq(ctx, lat2.position(li), lat.position(li), 'lattice: positions')
    _eq(ctx, np.asarray(lat2.reciprocal_basis), np.asarray(lat.reciprocal_basis), 'lattice: reciprocal_basis')
    ctx.prove([type(x) for x in lat2.mps_sites()] == [type(x) for x in lat.mps_sites()], 'lattice: mps_sites types')
    ctx.prove(set(lat2.pairs.keys()) == set(lat.pairs.keys()), 'lattice: pairs')
    for k in lat.pairs:
        a = lat.possible_couplings(*lat.pairs[k][0])
        b = lat2.possible_couplings(*lat2.pairs[k][0])
        ctx.prove(all(np.array_equal(x, y) for x, y in zip(a, b)), 'lattice: possible_couplings of the first pair')
    ctx.prove(len(lat2.mps_sites()) == len(lat.mps_sites()), 'lattice: mps_sites')
    cp = copy.deepcopy(lat)
    _Cmp(ctx).same(lat, cp, 'deepcopy(lat)')


def model_case(ctx, kind, cplx=False):
    from tenpy.models.tf_ising import TFIChain, TFIModel
    from tenpy.models.xxz_chain import XXZChain, XXZChain2
    from tenpy.models.spins import SpinChain
    from tenpy.models.fermions_spinless import FermionChain
    if kind == 'TFIChain':
        M = TFIChain({'L': 3, 'bc_MPS': 'infinite', 'J': 1., 'g': 0.5})
    elif kind == 'TFIModel_square':
        M = TFIModel({'lattice': 'Square', 'Lx': 2, 'Ly': 2, 'bc_MPS': 'finite', 'conserve': 'parity'})
    elif kind == 'XXZChain':
        M = XXZChain({'L': 3, 'bc_MPS': 'finite', 'Jxx': 1., 'Jz': 0.3, 'hz': 0.2})
    elif kind == 'XXZChain2':
        M = XXZChain2({'L': 2, 'bc_MPS': 'infinite'})
    elif kind == 'SpinChain_rng':
        M = SpinChain({'L': 2, 'S': 0.5, 'bc_MPS': 'finite'})
        M.rng.random()  # creates the random generator that save_hdf5 has to translate
    elif kind == 'FermionChain':
        M = FermionChain({'L': 3, 'bc_MPS': 'finite', 'V': 0.5})
    else:
        raise ValueError(kind)
    # symbolic content: MPO entries, bond terms, coupling strengths
    H = getattr(M, 'H_MPO', None)
    if H is not None:
        for i in range(H.L):
            H._W[i] = _symbolize(ctx, H._W[i], f'W{i}', cplx=cplx)
        H.dtype = H._W[0].dtype
    if getattr(M, 'H_bond', None) is not None:
        M.H_bond = [None if h is None else _symbolize(ctx, h, f'Hb{i}', cplx=cplx) for i, h in enumerate(M.H_bond)]
    n = [0]

    def sym_leaves(d):
        for k, v in list(d.items()):
            if isinstance(v, dict):
                sym_leaves(v)
            elif _isnum(v):
                d[k] = ctx.num(f'c{n[0]}', cplx)
                n[0] += 1

    for name, ct in getattr(M, 'coupling_terms', {}).items():
        sym_leaves(ct.coupling_terms)
    for name, ot in getattr(M, 'onsite_terms', {}).items():
        for d in ot.onsite_terms:
            sym_leaves(d)
    ctx.note('symbolic_strengths', n[0])
    M2 = check_roundtrip(ctx, M, what='M')
    if H is not None:
        for i in range(H.L):
            _eq(ctx, M2.H_MPO.get_W(i).to_ndarray(), H.get_W(i).to_ndarray(), 'model: H_MPO tensors')
        ctx.prove(M2.H_MPO.sites[0] is M2.lat.unit_cell[0], 'model: MPO sites shared with lattice sites after loading')
    if hasattr(M, '_rng'):
        ctx.prove(M2.rng.random() == copy.deepcopy(M.rng).random(), 'model: random generator continues identically')
        ctx.prove(not hasattr(M, '_rng_state'), 'model: save_hdf5 leaves no temporary attribute behind')


# reflection coverage and model validation -----------------------------------------------------------
def _exercised():
    """qualified class name -> case-name prefix that drives its save_hdf5/from_hdf5 with an instance of exactly that class"""
    ex = {}
    P = 'tenpy.'
    ex[P + 'linalg.charges.ChargeInfo'] = 'ChargeInfo'
    ex[P + 'linalg.charges.DipolarChargeInfo'] = 'DipolarChargeInfo'
    ex[P + 'linalg.charges.LegCharge'] = 'LegCharge'
    ex[P + 'linalg.charges.LegPipe'] = 'LegPipe'
    ex[P + 'linalg.np_conserved.Array'] = 'Array'
    ex[P + 'linalg.truncation.TruncationError'] = 'misc[TruncationError]'
    ex[P + 'tools.params.Config'] = 'misc[Config]'
    ex[P + 'tools.hdf5_io.Hdf5Exportable'] = 'containers[exportable]'
    ex[P + 'networks.mps.MPS'] = 'MPS'
    ex[P + 'networks.purification_mps.PurificationMPS'] = 'MPS[purification'
    ex[P + 'networks.mpo.MPO'] = 'MPO'
    ex[P + 'networks.uniform_mps.UniformMPS'] = 'UniformMPS'
    ex[P + 'networks.momentum_mps.MomentumMPS'] = 'MomentumMPS'
    for k in ('TermList', 'OnsiteTerms', 'CouplingTerms', 'MultiCouplingTerms', 'ExponentiallyDecayingTerms'):
        ex[P + 'networks.terms.' + k] = f'terms[{k}'
    for cls, kind in (('SpinHalfSite', 'spin_half_Sz'), ('FermionSite', 'fermion'), ('BosonSite', 'boson'), ('SpinSite', 'spin1'),
                      ('SpinHalfFermionSite', 'spinhalf_fermion'), ('SpinHalfHoleSite', 'hole'), ('ClockSite', 'clock'),
                      ('GroupedSite', 'grouped')):
        ex[P + 'networks.site.' + cls] = f'Site[{kind}'
    for kind, mod in (('TFIChain', 'tf_ising'), ('TFIModel', 'tf_ising'), ('XXZChain', 'xxz_chain'), ('XXZChain2', 'xxz_chain'),
                      ('SpinChain', 'spins'), ('FermionChain', 'fermions_spinless')):
        ex[P + f'models.{mod}.{kind}'] = f'Model[{kind}'
    return ex


def reflection_case(ctx, case_names):
    found = exportable_classes()
    ex = _exercised()
    n_ex = 0
    for q, c in sorted(found.items()):
        prefix = ex.get(q)
        if prefix is None and _is_lattice(c):
            prefix = f'Lattice[{q}'
        hit = prefix is not None and any(nm.startswith(prefix) for nm in case_names)
        own = [b.__module__ + '.' + b.__qualname__ for b in c.__mro__ if 'save_hdf5' in vars(b)][0]
        if hit:
            n_ex += 1
            ctx.note(f'exportable_exercised:{q}')
        elif own in ex or _is_lattice(c) or own.endswith('Model') or own.endswith('Hdf5Exportable'):
            ctx.note(f'exportable_not_instantiated(save_hdf5 of {own.rsplit(".", 1)[-1]} exercised through another class):{q}')
        else:
            ctx.note(f'exportable_NOT_exercised:{q}')
    ctx.prove(n_ex >= 40, 'at least 40 exportable classes found by reflection are exercised by a case')
    ctx.prove(all(any(nm.startswith(f'Lattice[{q}') for nm in case_names) for q, c in found.items() if _is_lattice(c)),
              'every Lattice subclass found by reflection has a case')


def model_vs_real_case(ctx):
    """the in-memory h5py model against real h5py, driven by the repo's own export test data.
    symbolic mode: the data goes through the model (as in all other cases); concrete mode (run for the sampled
    path model under /venv/bin/python): the same data goes through BOTH and the two trees / loaded objects are compared."""
    H = hio()
    sys.path.insert(0, os.path.join(os.environ.get('VERIF_REPO', '/repo'), 'tests', 'export_import_test'))
    try:
        import io_test
    finally:
        sys.path.pop(0)
    import warnings
    from symx import h5model
    data = io_test.gen_example_data()
    with warnings.catch_warnings():
        warnings.simplefilter('ignore')
        m = h5model.File()
        H.Hdf5Saver(m).save(data)
        d_model = H.Hdf5Loader(m).load()
        io_test.assert_equal_data(d_model, data)
        ctx.prove(d_model['recursive'][1] is d_model['recursive'], 'model: recursive list')
        ctx.prove(d_model['psi'].sites[0] is d_model['psi'].sites[1], 'model: shared sites')
        if ctx.symbolic:
            return
        import h5py
        with store(ctx) as (f, reopen):
            H.save_to_hdf5(f, data)
            g = reopen()
            tr = _tree(g, h5py.Group)
            tm = _tree(m, h5model.Group)
            ctx.prove(list(tr) == list(tm), 'model vs real h5py: same names in the same iteration order')
            diff = [k for k in tr if tr[k] != tm.get(k)]
            ctx.prove(not diff, f'model vs real h5py: same attrs, dataset values, dtypes, python types, hard links')
            if diff:
                ctx.note('model_diff:' + diff[0])
            ctx.note('model_nodes_compared', len(tr))
            d_real = H.load_from_hdf5(g)
        io_test.assert_equal_data(d_model, d_real)
        io_test.assert_equal_data(d_real, d_model)
        io_test.assert_event_handler_example_works(d_model)
        # error behaviour the saver depends on
        with store(ctx) as (f, reopen):
            for target in (f, h5model.File()):
                target['a'] = 1
                for bad, exc in ((lambda: target.__setitem__('a', 2), (OSError, ValueError)), (lambda: target.create_group('a'), ValueError),
                                 (lambda: target.__setitem__('big', 2**70), TypeError), (lambda: target['nope'], KeyError),
                                 (lambda: target.attrs['nope'], KeyError)):
                    try:
                        bad()
                        ctx.fail('model vs real h5py: error behaviour', type(target).__module__)
                    except exc as e:
                        ctx.prove(True, 'model vs real h5py: error behaviour')
                        if exc is TypeError:
                            ctx.prove('no native HDF5 equivalent' in e.args[0], 'model vs real h5py: TypeError message used by save_dataset')


def _tree(node, group_cls, path='/', ids=None, out=None):
    if out is None:
        out, ids = {}, {}

    def attrs(n):
        return {k: (type(v).__name__, str(getattr(v, 'dtype', None)), np.asarray(v).tolist()) for k, v in n.attrs.items()}

    for k in node.keys():
        ch = node[k]
        p = path + k
        if ch.id in ids:
            out[p] = ('link', ids[ch.id])
            continue
        ids[ch.id] = p
        if isinstance(ch, group_cls):
            out[p] = ('group', attrs(ch))
            _tree(ch, group_cls, p + '/', ids, out)
        else:
            v = ch[()]
            out[p] = ('dataset', attrs(ch), type(v).__name__, str(ch.dtype), tuple(ch.shape), np.asarray(v).tolist())
    return out


# ------------------------------------------------------------------------------------------ case list
def CASES(tier, seed):
    th = tier == 'thorough'
    O = dict(max_paths=20000, max_wall_s=200, validate_paths=2, hard_timeout_s=230)
    if th:
        O = dict(max_paths=200000, max_wall_s=1500, validate_paths=3, hard_timeout_s=1700)
    cases = []

    def add(name, fn, tier='A', **params):
        cases.append(dict(name=name, fn=fn, params=params, opts=dict(O), tier=tier))

    mods_list = [[1], [2], [3]] + ([[1, 2]] if th else [])
    for mods in ([], [1], [3, 1], [1, 2, 5]):
        add(f'ChargeInfo[mod={mods}]', 'chargeinfo_case', mods=mods, names=[f'q{i}' if i else '' for i in range(len(mods))])
    for via in ('hdf5', 'copy', 'deepcopy'):
        add(f'DipolarChargeInfo[{via}]', 'dipolar_case', via=via)
    for fmt in FORMATS + ('copy', ):
        for mods in mods_list + [[1, 2]]:
            for prep in ('none', 'sort', 'bunch'):
                if prep != 'none' and (fmt == 'copy' or (not th and mods != [1])):
                    continue
                for qc in (1, -1):
                    if qc == -1 and prep != 'none':
                        continue
                    sizes = [2, 1, 2] if len(mods) == 1 else [1, 2]
                    add(f'LegCharge[{fmt},mod={mods},qconj={qc},prep={prep}]', 'leg_case', sizes=sizes, mods=mods, qconj=qc, fmt=fmt, prep=prep)
        add(f'LegCharge[{fmt},mod=[],trivial]', 'leg_case', sizes=[3], mods=[], qconj=1, fmt=fmt)
    for fmt in FORMATS + ('copy', ):
        for mods in mods_list:
            for (sort, bunch) in ((True, True), (False, False), (True, False), (False, True)):
                if (sort, bunch) != (True, True) and mods != [1] and not th:
                    continue
                for variant in ('plain', 'conj'):
                    if variant == 'conj' and ((sort, bunch) != (True, True) or fmt == 'copy'):
                        continue
                    add(f'LegPipe[{fmt},mod={mods},sort={sort},bunch={bunch},{variant}]', 'pipe_case', sizes=[[1, 2], [1, 1]], mods=mods,
                        qconjs=[1, -1], pipe_qconj=(1 if variant == 'plain' else -1), sort=sort, bunch=bunch, fmt=fmt, variant=variant)
    if th:
        for fmt in FORMATS:
            add(f'LegPipe[{fmt},3legs,mod=[2]]', 'pipe_case', sizes=[[1, 1], [1, 1], [1, 1]], mods=[2], qconjs=[1, -1, 1], pipe_qconj=1,
                sort=True, bunch=True, fmt=fmt)
    for fmt in ('blocks', 'compact', 'copy'):
        for mods in mods_list:
            add(f'Array[{fmt},rank2,mod={mods}]', 'array_case', sizes=[[1, 2], [2, 1]], mods=mods, qconjs=[1, -1], fmt=fmt)
        add(f'Array[{fmt},rank2,cplx,choose]', 'array_case', sizes=[[1, 2], [1, 1]], mods=[1], qconjs=[1, -1], fmt=fmt, cplx=True, subset='choose')
        add(f'Array[{fmt},rank3,pipe,mod=[1]]', 'array_case', sizes=[[1, 1], [1, 1], [1, 2]], mods=[1], qconjs=[1, 1, -1], fmt=fmt, pipe=True)
        add(f'Array[{fmt},rank1,mod=[2]]', 'array_case', sizes=[[1, 1, 1]], mods=[2], qconjs=[-1], fmt=fmt, shared=False)
        add(f'Array[{fmt},nocharge]', 'array_case', sizes=[[2], [3]], mods=[], qconjs=[1, -1], fmt=fmt, cplx=True)
    for which in ('scalars', 'arrays', 'iterables', 'cyclic', 'cyclic_general', 'cyclic_general_direct', 'exportable', 'reduce:OrderedDict', 'reduce:deque', 'reduce:defaultdict',
                  'reduce:state', 'global:metaclass'):
        add(f'containers[{which}]', 'containers_case', which=which)
    add('loader_options', 'loader_options_case')
    B = dict(tier='B')
    for kind in ('spin_half_Sz', 'spin_half_none', 'spin_half_unsorted', 'fermion', 'boson', 'spin1', 'spinhalf_fermion', 'hole', 'clock', 'grouped',
                 'grouped_same'):
        for fmt in (('blocks', 'compact') if kind in ('spin_half_Sz', 'grouped') else ('blocks', )):
            add(f'Site[{kind},{fmt}]', 'site_case', kind=kind, fmt=fmt, cplx=(kind == 'fermion'), **B)
    for kind in ('finite_singlets', 'infinite_singlets', 'segment', 'fermion_product', 'purification'):
        for fmt in ('blocks', 'compact'):
            if fmt == 'compact' and kind not in ('finite_singlets', 'segment'):
                continue
            add(f'MPS[{kind},{fmt}]', 'mps_case', kind=kind, fmt=fmt, cplx=(kind == 'infinite_singlets' or th), **B)
    add('MPS[finite_singlets,blocks,mixed real/complex tensors]', 'mps_case', kind='finite_singlets', fmt='blocks', mixed=True, **B)
    add('MPS[infinite_singlets,compact,mixed real/complex tensors]', 'mps_case', kind='infinite_singlets', fmt='compact', mixed=True, **B)
    add('MPO[tfi_finite,blocks,mixed real/complex tensors]', 'mpo_case', kind='tfi_finite', fmt='blocks', mixed=True, **B)
    for kind in ('UniformMPS', 'MomentumMPS'):
        add(f'{kind}[blocks]', 'umps_case', kind=kind, fmt='blocks', cplx=(kind == 'MomentumMPS'), **B)
    for kind in ('tfi_finite', 'xxz_infinite', 'plus_hc'):
        for fmt in ('blocks', 'compact'):
            add(f'MPO[{kind},{fmt}]', 'mpo_case', kind=kind, fmt=fmt, cplx=(kind == 'plus_hc'), **B)
    for kind in ('TermList', 'OnsiteTerms', 'CouplingTerms', 'MultiCouplingTerms', 'ExponentiallyDecayingTerms'):
        for cplx in (False, True):
            add(f'terms[{kind},cplx={cplx}]', 'terms_case', kind=kind, cplx=cplx, **B)
    for kind in ('TruncationError', 'Config'):
        add(f'misc[{kind}]', 'misc_case', kind=kind, **B)
    for q, c in sorted(exportable_classes().items()):
        if _is_lattice(c):
            add(f'Lattice[{q}]', 'lattice_case', clsname=q, **B)
    for v in ('remove_only', 'add_only'):
        add(f'Lattice[tenpy.models.lattice.IrregularLattice,{v}]', 'lattice_case', clsname='tenpy.models.lattice.IrregularLattice', variant=v, **B)
    add('Lattice[tenpy.models.lattice.Chain,disorder]', 'lattice_case', clsname='tenpy.models.lattice.Chain', disorder=True, **B)
    for kind in ('TFIChain', 'TFIModel_square', 'XXZChain', 'XXZChain2', 'SpinChain_rng', 'FermionChain'):
        add(f'Model[{kind}]', 'model_case', kind=kind, cplx=(kind == 'XXZChain2'), **B)
    names = [c['name'] for c in cases]
    add('reflection_coverage', 'reflection_case', case_names=names, **B)
    add('model_vs_real_h5py', 'model_vs_real_case', **B)
    cases[-1]['opts']['validate_paths'] = 1
    return cases
