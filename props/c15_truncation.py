"""C15 Truncation honours its constraints and reports its error exactly.

Symbolic: the spectrum (non-negative reals: zeros, degeneracies, unsorted, unnormalised are regions of
the symbolic space) and the real-valued options svd_min, trunc_cut, degeneracy_tol.
Enumerated: spectrum length n, chi_max, chi_min, which options are None.
"""
import itertools

import numpy as np

PROPERTY = 'C15'
LEVEL = 'model_checking'
BOUNDS = {
    'quick': 'truncate: n<=3, all chi_max/chi_min in 1..n and None, every None-pattern of (svd_min, trunc_cut, degeneracy_tol); '
             'svd_theta / eigh_rho: 2x2, 2x3 blocks with one LAPACK contract stub; TruncationError algebra symbolic',
    'thorough': 'truncate: n<=3 with every chi pair (trunc_cut for six chi pairs), n=4 for three chi pairs without trunc_cut; svd_theta up to 3x3, eigh_rho n<=3',
}
OUTSIDE = 'float rounding near thresholds; decompose_theta_qr_based (chain of factorisations, DESIGN C07); log is an uninterpreted monotone function'
STUBS = ['numpy facade for tenpy.linalg.truncation (log -> monotone UF, norm -> sqrt variable)', 'svd_flat / eigh contract stub (svd_theta, eigh_rho cases)']
ASSUMPTIONS = [
    'floats are reals', 'non-zero singular / eigen values returned by LAPACK are larger than 1e-99 times the largest one (svd_theta, eigh_rho cases)', 'spectrum entries are exact zeros or > 1e-100, svd_min > 1e-100 (the 1e-100 clipping region of truncate is outside the claim)',
    'np.log: comparisons between sums of logarithms are rewritten exactly as comparisons of products (degeneracy_tol is given as log of a symbolic ratio > 1); no property of log other than monotonicity and log(xy)=log x+log y is used'
]


_REC = []  # (kind, block, factors...) recorded by the LAPACK contract stubs of the current path


def setup_symbolic(case):
    from symx import stubs
    import tenpy.linalg.truncation as T
    import tenpy.linalg.np_conserved as npc
    stubs.install_blas()
    stubs.facade_for(T)
    from symx import engine as E

    def svd_stub(a, full_matrices=False, compute_uv=True, overwrite_a=False, check_finite=True, lapack_driver='gesdd'):
        """contract of LAPACK gesdd: a = U diag(S) V, S >= 0 descending (isometry of U, V is not needed by the claims)"""
        ctx = E.cur()
        a = np.asarray(a)
        m, n = a.shape
        k = min(m, n)
        assert not full_matrices
        U = ctx.fresh_array('U', (m, k), cplx=True)
        # rank-deficient blocks are inside the claim (S >= 0); only the largest value is assumed positive:
        # a zero matrix has no Schmidt decomposition to truncate (svd_theta divides by its norm)
        S = np.array([ctx.fresh('S_0', pos=True)] + [ctx.fresh(f'S_{i}', nonneg=True) for i in range(1, k)], dtype=object)
        V = ctx.fresh_array('V', (k, n), cplx=True)
        for i in range(k - 1):
            ctx.assume(S[i] >= S[i + 1])
            # relative size of non-zero singular values: truncate() clips at 1e-100 (see ASSUMPTIONS)
            ctx.assume((S[i + 1] == 0) | (S[i + 1] > 1.e-99 * S[0]))
        rec = np.dot(U * S[np.newaxis, :], V)
        for idx in np.ndindex(m, n):
            ctx.assume_zero(rec[idx] - a[idx])
        _REC.append(('svd', a, U, S, V))
        if compute_uv:
            return U, S, V
        return S

    def eigh_stub(a, UPLO='L'):
        """contract of LAPACK heev for a positive semi-definite matrix: a V = V diag(W), W >= 0 ascending; W = t**2"""
        ctx = E.cur()
        a = np.asarray(a)
        n = a.shape[0]
        t = ctx.fresh_array('t', (n, ), nonneg=True)
        W = t * t
        ctx.assume(W[n - 1] * n >= 1)  # trace >= 1 (harness precondition) => largest eigenvalue >= 1/n
        V = ctx.fresh_array('V', (n, n), cplx=True)
        for i in range(n - 1):
            ctx.assume(t[i] <= t[i + 1])
            ctx.assume((t[i] == 0) | (t[i] > 1.e-99 * t[n - 1]))
        lhs = np.dot(a, V)
        rhs = V * W[np.newaxis, :]
        for idx in np.ndindex(n, n):
            ctx.assume_zero(lhs[idx] - rhs[idx])
        _REC.append(('eigh', a, W, V))
        return W, V

    npc.svd_flat = svd_stub
    npc.anynan = lambda x: False
    npc.np = stubs.NumpyFacade(widen=True, linalg_overrides={'eigh': eigh_stub})


def _log(ctx, x):
    if ctx.symbolic:
        from symx.scalars import R
        return R.lift(x).log()
    import math
    return math.log(x) if x > 0 else math.log(1e-100)


def truncate_case(ctx, n, chi_max, chi_min, use_svd_min, use_trunc_cut, use_deg, zero_ok=True):
    from tenpy.linalg.truncation import truncate
    S = ctx.array('s', (n, ))
    for x in S:
        # exact zeros or values >= 1e-100: truncate() replaces non-positive values by 1e-100 to take the
        # logarithm, so positive values below 1e-100 (which no float SVD produces) are outside the claim
        ctx.assume((x == 0) | (x > 1.e-100))
    opts = {'chi_max': chi_max, 'chi_min': chi_min, 'svd_min': None, 'trunc_cut': None, 'degeneracy_tol': None}
    if use_svd_min:
        opts['svd_min'] = ctx.real('svd_min', pos=True)
        ctx.assume(opts['svd_min'] > 1.e-100)
    if use_trunc_cut:
        tc = ctx.real('trunc_cut', pos=True)
        ctx.assume(tc < 1)
        opts['trunc_cut'] = tc
    if use_deg:
        # degeneracy_tol = log(r) for a symbolic ratio r > 1: `log(S[i]) - log(S[j]) >= log(r)` is then decided
        # exactly as `S[i] >= r * S[j]` (no uninterpreted logarithm left in any query)
        r = ctx.real('deg_ratio', pos=True)
        ctx.assume(r > 1)
        opts['degeneracy_tol'] = _log(ctx, r)
    mask, norm_new, err = truncate(S, dict(opts))
    mask = np.asarray(mask, dtype=bool)
    k = int(mask.sum())
    ctx.note(f'kept_{k}_of_{n}')
    kept = [i for i in range(n) if mask[i]]
    disc = [i for i in range(n) if not mask[i]]
    # (1) never discards a value larger than one it keeps
    for i in disc:
        for j in kept:
            ctx.prove(S[i] <= S[j], 'order: discarded <= kept')
    # (2) reports exactly the discarded weight and the norm of what is kept
    ctx.prove_eq(err.eps, sum((S[i] * S[i] for i in disc), 0. * S[0]), 'err.eps == sum of discarded squares')
    ctx.prove_eq(err.ov, 1. - 2. * sum((S[i] * S[i] for i in disc), 0. * S[0]), 'err.ov == 1 - 2 eps')
    ctx.prove_eq(norm_new * norm_new, sum((S[i] * S[i] for i in kept), 0. * S[0]), 'norm_new^2 == sum of kept squares')
    ctx.prove(norm_new >= 0, 'norm_new >= 0')
    # (3) number kept = the one prescribed by the documented priority of constraints.
    # Specification by brute force over all cuts of the ascending spectrum (own sort, own masks).
    order = sorted(range(n), key=_Key(S))  # ascending; comparisons fork consistently with the path
    Ss = [S[i] for i in order]
    cuts = list(range(n))  # cut c discards Ss[:c], keeps n-c >= 1 values
    good = set(cuts)

    def restrict(g, pred):
        g2 = {c for c in g if pred(c)}
        return g2 if g2 else g

    if chi_max is not None:
        good = restrict(good, lambda c: n - c <= chi_max)
    if chi_min is not None and chi_min > 1:
        good = restrict(good, lambda c: n - c >= chi_min)
    if use_deg:
        tol = opts['degeneracy_tol']

        def not_degenerate(c):
            if c == 0:
                return True
            a = Ss[c] if bool(Ss[c] > 0) else 1.e-100
            b = Ss[c - 1] if bool(Ss[c - 1] > 0) else 1.e-100
            return bool(_log(ctx, a) - _log(ctx, b) >= tol)

        good = restrict(good, not_degenerate)
    if use_svd_min:
        smin = opts['svd_min']

        def above(c):
            a = Ss[c] if bool(Ss[c] > 0) else 1.e-100
            return bool(_log(ctx, a) >= _log(ctx, smin))

        good = restrict(good, above)
    if use_trunc_cut:
        tc = opts['trunc_cut']
        good = restrict(good, lambda c: bool(sum((Ss[i] * Ss[i] for i in range(c + 1)), 0. * Ss[0]) > tc * tc))
    expected_keep = n - min(good)
    ctx.prove(k == expected_keep, 'number of kept values follows the documented priority of constraints')
    # direct statements of the property for the constraints that can always be met
    if chi_max is not None:
        ctx.prove(k <= chi_max, 'at most chi_max values kept')
    if chi_min is not None and (chi_max is None or chi_min <= chi_max):
        ctx.prove(k >= min(chi_min, n), 'at least chi_min values kept')


class _Key:
    """sort key whose comparisons are the (possibly symbolic) comparisons of the spectrum"""

    def __init__(self, S):
        self.S = S

    def __call__(self, i):
        return _K(self.S[i], i)


class _K:
    __slots__ = ('v', 'i')

    def __init__(self, v, i):
        self.v = v
        self.i = i

    def __lt__(self, o):
        return bool(self.v < o.v)


def trunc_error_algebra(ctx):
    from tenpy.linalg.truncation import TruncationError
    e1, o1, e2, o2 = ctx.real('e1'), ctx.real('o1'), ctx.real('e2'), ctx.real('o2')
    a = TruncationError(e1, o1)
    b = TruncationError(e2, o2)
    c = a + b
    ctx.prove_eq(c.eps, e1 + e2, 'eps adds')
    ctx.prove_eq(c.ov, o1 * o2, 'ov multiplies')
    ctx.prove_eq(a.eps, e1, 'operand a unchanged')
    ctx.prove_eq(b.ov, o2, 'operand b unchanged')
    z = TruncationError()
    ctx.prove_eq((a + z).eps, e1, 'neutral element eps')
    ctx.prove_eq((a + z).ov, o1, 'neutral element ov')
    nn, no = ctx.real('nn', pos=True), ctx.real('no', pos=True)
    f = TruncationError.from_norm(nn, no)
    ctx.prove_eq(f.eps * no * no, no * no - nn * nn, 'from_norm eps')
    ctx.prove_eq(f.ov, 1. - 2. * f.eps, 'from_norm ov')
    Sd = ctx.array('d', (3, ))
    g = TruncationError.from_S(Sd, no)
    ctx.prove_eq(g.eps * no * no, Sd[0] * Sd[0] + Sd[1] * Sd[1] + Sd[2] * Sd[2], 'from_S eps with norm_old')
    g = TruncationError.from_S(Sd)
    ctx.prove_eq(g.eps, Sd[0] * Sd[0] + Sd[1] * Sd[1] + Sd[2] * Sd[2], 'from_S eps')
    cp = a.copy()
    ctx.prove_eq([cp.eps, cp.ov], [e1, o1], 'copy')


def _theta(ctx, kind, cplx):
    """matrix to decompose: one block (no charges) or two charge sectors of different shape"""
    import tenpy.linalg.np_conserved as npc
    from catalogue import build as Bd
    if kind in ('2x3', '3x3', '3x2', '2x2'):
        m, n = int(kind[0]), int(kind[2])
        return npc.Array.from_ndarray_trivial(ctx.array('t', (m, n), cplx=cplx), labels=['a', 'b'],
                                              dtype=object if ctx.symbolic else None)
    ch = Bd.chinfo([1])
    la = Bd.leg(ctx, 'la', [2, 1], ch, 1, tier='B', concrete_charges=[[0], [1]])
    lb = Bd.leg(ctx, 'lb', [1, 2], ch, -1, tier='B', concrete_charges=[[0], [1]])
    return Bd.tensor(ctx, 't', [la, lb], [0], cplx=cplx, labels=['a', 'b'])


def svd_theta_case(ctx, kind, chi_max, use_svd_min, cplx):
    """truncated SVD: reported error, renormalisation and factors (LAPACK per block behind a contract stub)"""
    import tenpy.linalg.np_conserved as npc
    from tenpy.linalg.truncation import svd_theta
    del _REC[:]
    theta = _theta(ctx, kind, cplx)
    dense = theta.to_ndarray()
    if kind[1] == 'x':
        ctx.assume(ctx.Or(*[x != 0 for x in dense.reshape(-1)]))  # precondition: theta is not the zero matrix
    else:
        for blk in theta._data:  # every charge sector non-zero (matches S_0 > 0 of the per-block contract)
            ctx.assume(ctx.Or(*[x != 0 for x in blk.reshape(-1)]))
    par = dict(chi_max=chi_max, svd_min=None, trunc_cut=None)
    if use_svd_min:
        par['svd_min'] = ctx.real('svd_min', pos=True)
        ctx.assume(par['svd_min'] > 1.e-100)
        ctx.assume(par['svd_min'] < 1)
    U, S, VH, err, renorm = svd_theta(theta, dict(par), inner_labels=['k', 'k*'])
    K = len(S)
    ctx.note(f'kept_{K}')
    # singular values of every block as LAPACK returned them: stub outputs (symbolic) / numpy (concrete)
    if ctx.symbolic:
        facs = [(r[2], r[3], r[4]) for r in _REC if r[0] == 'svd']
    else:
        blocks = [dense] if kind[1] == 'x' else [dense[:2, :1], dense[2:, 1:]]
        facs = [np.linalg.svd(b, full_matrices=False) for b in blocks]
    n2 = sum((s * s for f in facs for s in f[1]), 0. * renorm)
    ctx.prove_eq(sum((x * x for x in S), 0. * renorm), 1., 'returned S normalised')
    ctx.prove(renorm > 0, 'renormalization > 0')
    ctx.prove_eq(err.eps * n2, n2 - renorm * renorm, 'err.eps * |theta|^2 == discarded weight == |theta|^2 - renormalization^2')
    if chi_max is not None:
        ctx.prove(K <= chi_max, 'at most chi_max singular values kept')
    ctx.prove(U.shape[1] == K and VH.shape[0] == K, 'U, VH projected with the same mask as S')
    U.test_sanity()
    VH.test_sanity()
    try:
        U.get_leg('k').test_contractible(VH.get_leg('k*'))
    except ValueError as e:
        ctx.fail('inner legs of truncated U, VH contractible', str(e)[:80])
    M = npc.tensordot(U.scale_axis(S * renorm, 1), VH, axes=1).to_ndarray()
    if kind[1] == 'x':
        # single block: the truncated product keeps exactly the K largest singular triplets
        Uo, So, Vo = facs[0]
        # which singular triplets were kept: read off the columns of the projected U (with exact ties among the
        # singular values either member of the tie may be kept)
        kept = list(range(K))
        if ctx.symbolic:
            Ud = U.to_ndarray()
            kept = []
            for c in range(K):
                for k in range(len(So)):
                    if k not in kept and all(not (Ud[r, c] - Uo[r, k]).n for r in range(Ud.shape[0])):
                        kept.append(k)
                        break
            ctx.prove(len(kept) == K, 'columns of the truncated U are columns of the LAPACK U')
        disc = [k for k in range(len(So)) if k not in kept]
        ref = sum((np.outer(Uo[:, k], Vo[k, :]) * So[k] for k in kept), 0. * dense)
        ctx.prove_eq(M, ref, 'U S*renormalization VH == sum of the kept singular triplets')
        ctx.prove_eq(renorm * renorm, sum((So[k] * So[k] for k in kept), 0. * renorm),
                     'renormalization^2 == sum of kept singular values squared')
        for k in disc:
            for j in kept:
                ctx.prove(So[k] <= So[j], 'no discarded singular value exceeds a kept one')
    if K == sum(len(f[1]) for f in facs):
        ctx.prove_eq(M, dense, 'nothing truncated: factors multiply back to theta')
        ctx.prove_eq(err.eps, 0., 'nothing truncated: eps == 0')


def eigh_rho_case(ctx, n, chi_max, cplx):
    """truncated eigen-decomposition of a (positive) density matrix, LAPACK behind a contract stub"""
    import tenpy.linalg.np_conserved as npc
    from tenpy.linalg.truncation import eigh_rho
    del _REC[:]
    A = ctx.array('r', (n, n), cplx=cplx)
    rho_d = np.dot(A, np.conj(A.T))  # positive semi-definite by construction
    # precondition: a density matrix of trace >= 1 (eigenvalues below 1e-14 are set to zero by eigh_rho)
    ctx.assume(sum((rho_d[i, i].real for i in range(n)), 0. * rho_d[0, 0].real) >= 1)
    rho = npc.Array.from_ndarray_trivial(rho_d, labels=['p', 'p*'], dtype=object if ctx.symbolic else None)
    par = dict(chi_max=chi_max, svd_min=None, trunc_cut=None)
    W, V, err = eigh_rho(rho, dict(par))
    K = len(W)
    if ctx.symbolic:
        Wo, Vo = [(r[2], r[3]) for r in _REC if r[0] == 'eigh'][0]
        Wo = np.array([0. * w if bool(w < 1.e-14) else w for w in Wo], dtype=object)  # documented clipping
    else:
        Wo, Vo = np.linalg.eigh(rho_d)
        Wo = np.where(Wo < 1.e-14, 0., Wo)
    tr = sum(Wo, 0. * Wo[0])
    ctx.prove_eq(sum(W, 0. * tr), tr, 'returned eigenvalues sum to the trace (renormalised)')
    if chi_max is not None:
        ctx.prove(K <= chi_max, 'at most chi_max eigenvalues kept')
    ctx.prove(V.shape[1] == K, 'V projected with the same mask')
    kept = list(range(n - K, n))  # ascending LAPACK order: the K largest are the last K
    for a_, i in enumerate(kept):
        for b_, j in enumerate(kept):
            if a_ < b_:
                ctx.prove_eq(W[a_] * Wo[j], W[b_] * Wo[i], 'returned eigenvalues proportional to the K largest')
    ctx.prove_eq(err.eps * tr, sum((Wo[i] for i in range(n - K)), 0. * tr), 'err.eps == discarded weight / trace')
    ctx.note(f'kept_{K}')


def CASES(tier, seed):
    cases = [dict(name='TruncationError.algebra', fn='trunc_error_algebra', params={})]
    kinds = ['2x2', '2x3', '3x2', 'blocks'] + (['3x3'] if tier == 'thorough' else [])
    for kind in kinds:
        for chi_max in ((1, 2, None) if kind != '3x3' else (1, 2, 3)):
            for use_svd_min in (False, True):
                cases.append(dict(name=f"svd_theta[{kind},chi_max={chi_max},svd_min={use_svd_min}]", fn='svd_theta_case',
                                  params=dict(kind=kind, chi_max=chi_max, use_svd_min=use_svd_min, cplx=(kind != '3x3')),
                                  opts=dict(max_paths=20000, max_wall_s=400, validate_paths=3, prove_timeout_ms=20000)))
    for n in ((2, ) if tier == 'quick' else (2, 3)):
        for chi_max in (1, 2, None):
            cases.append(dict(name=f"eigh_rho[n={n},chi_max={chi_max}]", fn='eigh_rho_case', params=dict(n=n, chi_max=chi_max, cplx=(n == 2)),
                              opts=dict(max_paths=20000, max_wall_s=400, validate_paths=3, prove_timeout_ms=20000)))
    ns = [1, 2, 3] if tier == 'quick' else [1, 2, 3, 4]
    for n in ns:
        chis = [None] + list(range(1, n + 1))
        pairs = list(itertools.product(chis, chis))
        if tier == 'quick' and n == 3:
            pairs = [(a, b) for a in (None, 2) for b in (None, 2, 3)]
        if n == 4:
            pairs = [(None, None), (2, 2), (3, 2)]
        for chi_max, chi_min in pairs:
            for use in itertools.product([False, True], repeat=3):
                if tier == 'quick' and n == 3 and sum(use) == 3:
                    continue  # the full option set for n=3 takes minutes per case: thorough tier
                if tier == 'quick' and n == 3 and use[1] and (chi_max, chi_min) not in ((None, None), (2, 2)):
                    continue  # trunc_cut makes the queries non-linear (sums of squares): two chi settings in quick
                if tier == 'thorough' and n == 3 and use[1] and (chi_max, chi_min) not in (
                        (None, None), (2, 2), (1, None), (None, 3), (2, 1), (3, 3)):
                    continue  # thorough: trunc_cut for six chi settings (each such case costs ~5 core-minutes)
                if n == 4 and use[1] and ((chi_max, chi_min) != (None, None) or use[0] or use[2]):
                    continue  # n=4: trunc_cut only alone and without chi constraints
                p = dict(n=n, chi_max=chi_max, chi_min=chi_min, use_svd_min=use[0], use_trunc_cut=use[1], use_deg=use[2])
                cases.append(
                    dict(name=f"truncate[n={n},chi_max={chi_max},chi_min={chi_min},svd_min={use[0]},trunc_cut={use[1]},deg={use[2]}]",
                         fn='truncate_case', params=p,
                         opts=dict(max_paths=400000, max_wall_s=2400 if tier == 'thorough' else 500, validate_paths=2,
                                   hard_timeout_s=2700 if tier == 'thorough' else 700)))
    return cases
