"""C15 Truncation honours its constraints and reports its error exactly.

Symbolic: the spectrum (non-negative reals: zeros, degeneracies, unsorted, unnormalised are regions of
the symbolic space) and the real-valued options svd_min, trunc_cut, degeneracy_tol.
Enumerated: spectrum length n, chi_max, chi_min, which options are None.
"""
import itertools

import numpy as np

PROPERTY = 'C15'
LEVEL = 'model_checking'
BOUNDS = {
    'quick': 'truncate: n<=3, all chi_max/chi_min in 1..n and None, every None-pattern of (svd_min, trunc_cut, degeneracy_tol); '
             'svd_theta / eigh_rho: 2x2, 2x3 blocks with one LAPACK contract stub; TruncationError algebra symbolic',
    'thorough': 'truncate: n<=4 (n=5 for selected option sets); svd_theta up to 3x3',
}
OUTSIDE = 'float rounding near thresholds; decompose_theta_qr_based (chain of factorisations, DESIGN C07); log is an uninterpreted monotone function'
STUBS = ['numpy facade for tenpy.linalg.truncation (log -> monotone UF, norm -> sqrt variable)', 'svd_flat / eigh contract stub (svd_theta, eigh_rho cases)']
ASSUMPTIONS = [
    'floats are reals', 'spectrum entries are exact zeros or > 1e-100, svd_min > 1e-100 (the 1e-100 clipping region of truncate is outside the claim)',
    'np.log is modelled as an uninterpreted strictly monotone function with log(1)=0 (functional consistency per path)'
]


def setup_symbolic(case):
    from symx import stubs
    import tenpy.linalg.truncation as T
    stubs.install_blas()
    stubs.facade_for(T)


def _log(ctx, x):
    if ctx.symbolic:
        from symx.scalars import R
        return R.lift(x).log()
    import math
    return math.log(x) if x > 0 else math.log(1e-100)


def truncate_case(ctx, n, chi_max, chi_min, use_svd_min, use_trunc_cut, use_deg, zero_ok=True):
    from tenpy.linalg.truncation import truncate
    S = ctx.array('s', (n, ))
    for x in S:
        # exact zeros or values >= 1e-100: truncate() replaces non-positive values by 1e-100 to take the
        # logarithm, so positive values below 1e-100 (which no float SVD produces) are outside the claim
        ctx.assume((x == 0) | (x > 1.e-100))
    opts = {'chi_max': chi_max, 'chi_min': chi_min, 'svd_min': None, 'trunc_cut': None, 'degeneracy_tol': None}
    if use_svd_min:
        opts['svd_min'] = ctx.real('svd_min', pos=True)
        ctx.assume(opts['svd_min'] > 1.e-100)
    if use_trunc_cut:
        tc = ctx.real('trunc_cut', pos=True)
        ctx.assume(tc < 1)
        opts['trunc_cut'] = tc
    if use_deg:
        opts['degeneracy_tol'] = ctx.real('deg_tol', pos=True)
    mask, norm_new, err = truncate(S, dict(opts))
    mask = np.asarray(mask, dtype=bool)
    k = int(mask.sum())
    ctx.note(f'kept_{k}_of_{n}')
    kept = [i for i in range(n) if mask[i]]
    disc = [i for i in range(n) if not mask[i]]
    # (1) never discards a value larger than one it keeps
    for i in disc:
        for j in kept:
            ctx.prove(S[i] <= S[j], 'order: discarded <= kept')
    # (2) reports exactly the discarded weight and the norm of what is kept
    ctx.prove_eq(err.eps, sum((S[i] * S[i] for i in disc), 0. * S[0]), 'err.eps == sum of discarded squares')
    ctx.prove_eq(err.ov, 1. - 2. * sum((S[i] * S[i] for i in disc), 0. * S[0]), 'err.ov == 1 - 2 eps')
    ctx.prove_eq(norm_new * norm_new, sum((S[i] * S[i] for i in kept), 0. * S[0]), 'norm_new^2 == sum of kept squares')
    ctx.prove(norm_new >= 0, 'norm_new >= 0')
    # (3) number kept = the one prescribed by the documented priority of constraints.
    # Specification by brute force over all cuts of the ascending spectrum (own sort, own masks).
    order = sorted(range(n), key=_Key(S))  # ascending; comparisons fork consistently with the path
    Ss = [S[i] for i in order]
    cuts = list(range(n))  # cut c discards Ss[:c], keeps n-c >= 1 values
    good = set(cuts)

    def restrict(g, pred):
        g2 = {c for c in g if pred(c)}
        return g2 if g2 else g

    if chi_max is not None:
        good = restrict(good, lambda c: n - c <= chi_max)
    if chi_min is not None and chi_min > 1:
        good = restrict(good, lambda c: n - c >= chi_min)
    if use_deg:
        tol = opts['degeneracy_tol']

        def not_degenerate(c):
            if c == 0:
                return True
            a = Ss[c] if bool(Ss[c] > 0) else 1.e-100
            b = Ss[c - 1] if bool(Ss[c - 1] > 0) else 1.e-100
            return bool(_log(ctx, a) - _log(ctx, b) >= tol)

        good = restrict(good, not_degenerate)
    if use_svd_min:
        smin = opts['svd_min']

        def above(c):
            a = Ss[c] if bool(Ss[c] > 0) else 1.e-100
            return bool(_log(ctx, a) >= _log(ctx, smin))

        good = restrict(good, above)
    if use_trunc_cut:
        tc = opts['trunc_cut']
        good = restrict(good, lambda c: bool(sum((Ss[i] * Ss[i] for i in range(c + 1)), 0. * Ss[0]) > tc * tc))
    expected_keep = n - min(good)
    ctx.prove(k == expected_keep, 'number of kept values follows the documented priority of constraints')
    # direct statements of the property for the constraints that can always be met
    if chi_max is not None:
        ctx.prove(k <= chi_max, 'at most chi_max values kept')
    if chi_min is not None and (chi_max is None or chi_min <= chi_max):
        ctx.prove(k >= min(chi_min, n), 'at least chi_min values kept')


class _Key:
    """sort key whose comparisons are the (possibly symbolic) comparisons of the spectrum"""

    def __init__(self, S):
        self.S = S

    def __call__(self, i):
        return _K(self.S[i], i)


class _K:
    __slots__ = ('v', 'i')

    def __init__(self, v, i):
        self.v = v
        self.i = i

    def __lt__(self, o):
        return bool(self.v < o.v)


def trunc_error_algebra(ctx):
    from tenpy.linalg.truncation import TruncationError
    e1, o1, e2, o2 = ctx.real('e1'), ctx.real('o1'), ctx.real('e2'), ctx.real('o2')
    a = TruncationError(e1, o1)
    b = TruncationError(e2, o2)
    c = a + b
    ctx.prove_eq(c.eps, e1 + e2, 'eps adds')
    ctx.prove_eq(c.ov, o1 * o2, 'ov multiplies')
    ctx.prove_eq(a.eps, e1, 'operand a unchanged')
    ctx.prove_eq(b.ov, o2, 'operand b unchanged')
    z = TruncationError()
    ctx.prove_eq((a + z).eps, e1, 'neutral element eps')
    ctx.prove_eq((a + z).ov, o1, 'neutral element ov')
    nn, no = ctx.real('nn', pos=True), ctx.real('no', pos=True)
    f = TruncationError.from_norm(nn, no)
    ctx.prove_eq(f.eps * no * no, no * no - nn * nn, 'from_norm eps')
    ctx.prove_eq(f.ov, 1. - 2. * f.eps, 'from_norm ov')
    Sd = ctx.array('d', (3, ))
    g = TruncationError.from_S(Sd, no)
    ctx.prove_eq(g.eps * no * no, Sd[0] * Sd[0] + Sd[1] * Sd[1] + Sd[2] * Sd[2], 'from_S eps with norm_old')
    g = TruncationError.from_S(Sd)
    ctx.prove_eq(g.eps, Sd[0] * Sd[0] + Sd[1] * Sd[1] + Sd[2] * Sd[2], 'from_S eps')
    cp = a.copy()
    ctx.prove_eq([cp.eps, cp.ov], [e1, o1], 'copy')


def CASES(tier, seed):
    cases = [dict(name='TruncationError.algebra', fn='trunc_error_algebra', params={})]
    ns = [1, 2, 3] if tier == 'quick' else [1, 2, 3, 4]
    for n in ns:
        chis = [None] + list(range(1, n + 1))
        pairs = list(itertools.product(chis, chis))
        if tier == 'quick' and n == 3:
            pairs = [(a, b) for a in (None, 2) for b in (None, 2, 3)]
        if n == 4:
            pairs = [(a, b) for a in (None, 2, 3) for b in (None, 2, 4)]
        for chi_max, chi_min in pairs:
            for use in itertools.product([False, True], repeat=3):
                if tier == 'quick' and n == 3 and sum(use) == 3 and (chi_max, chi_min) != (2, None):
                    continue  # the full option set for n=3 takes minutes per case: thorough tier
                if n == 4 and sum(use) == 3 and (chi_max, chi_min) != (2, 2):
                    continue
                p = dict(n=n, chi_max=chi_max, chi_min=chi_min, use_svd_min=use[0], use_trunc_cut=use[1], use_deg=use[2])
                cases.append(
                    dict(name=f"truncate[n={n},chi_max={chi_max},chi_min={chi_min},svd_min={use[0]},trunc_cut={use[1]},deg={use[2]}]",
                         fn='truncate_case', params=p,
                         opts=dict(max_paths=200000, max_wall_s=3000 if tier == 'thorough' else 500, validate_paths=2,
                                   hard_timeout_s=3400 if tier == 'thorough' else 700)))
    if tier == 'thorough':
        for use in itertools.product([False, True], repeat=3):
            p = dict(n=5, chi_max=3, chi_min=2, use_svd_min=use[0], use_trunc_cut=use[1], use_deg=use[2])
            cases.append(dict(name=f"truncate[n=5,chi_max=3,chi_min=2,{use}]", fn='truncate_case', params=p,
                              opts=dict(max_paths=400000, max_wall_s=3000, validate_paths=2, hard_timeout_s=3400)))
    return cases
