"""C07 An MPS denotes the state it was built from (partial claim, DESIGN 5 C07).

Claimed here (bounded proof):
 (a) from_product_state / from_lat_product_state: symbolic local amplitude vectors (charge-free sites), every basis label /
     index (conserving sites, symbolic selector): the contracted MPS equals the product vector;
 (b) get_B / _scale_axis_B / get_theta / convert_form / get_SL / get_SR / set_SL / set_SR: for arbitrary symbolic tensors and
     positive symbolic S = t*t every stored form x requested form gives S^dnuL . T . S^dnuR, every sequence of conversions
     leaves Gamma and S (hence the state) unchanged; finite, segment, infinite index wrap;
 (c) entanglement_entropy / entanglement_spectrum apply the documented formula to the S of the right bond
     (log = uninterpreted monotone function);
 (d) get_total_charge / gauge_total_charge / outer_virtual_legs with a *symbolic* target charge.
Constructors that chain factorisations (from_full, canonical_form*, from_Bflat with chi>1, from_singlets,
from_product_mps_covering) are outside (DESIGN: solver `unknown`, measured).
"""
import itertools

import numpy as np

from catalogue import build as Bd
from catalogue import mps_factory as F

PROPERTY = 'C07'
LEVEL = 'model_checking'
BOUNDS = {
    'quick': 'L<=3 (infinite: unit cell 2, indices in [-L, 3L)), chi<=2 (one chi=3 bond), SpinHalfSite(None,Sz,parity), FermionSite(None,N), '
             'SpinHalfFermionSite(N,Sz) (product states: its perm [2,0,3,1] is not an involution); '
             'stored forms A,B,C,G,Th and mixed; requested forms A,B,C,G,Th,None and tuples with None entries; conversion sequences of length 2; '
             'product states L<=3 on MPS and on Chain/Ladder lattices',
    'thorough': 'L=4 chi 1,2,3,2,1, SpinHalfFermionSite, unit cell 3, conversion sequences of length 3, Ladder 2x2 product states',
}
OUTSIDE = ('from_full, canonical_form_finite/infinite, from_Bflat with chi>1, from_singlets, from_product_mps_covering, '
           'from_random_unitary_evolution, from_desired_bond_dimension (chains of factorisations / LAPACK / ARPACK); norm_test; '
           'entropies of non-diagonal (mixer) S; whether the stored S are the true Schmidt values (needs canonical form); '
           'entanglement_entropy_segment: that LAPACK eigvalsh returns the eigenvalues of the matrix it is given (contract stub), entanglement_entropy_segment2, mutinf_two_site with n != 1')
STUBS = ['BLAS contract stub', 'numpy facade for tenpy.networks.mps, tenpy.tools.math (dtype widening, log -> monotone UF)',
         'Array.conj hook', 'QTYPE=object (symbolic target charge in gauge_total_charge cases)',
         'np.linalg.eigvalsh contract stub (entropy.segment cases only: fresh real eigenvalues, ascending, same matrix -> same eigenvalues)']
ASSUMPTIONS = ['floats are reals', 'singular values S = t*t with t > 0 (exact square roots)', 'entropy cases: S^2 > 1e-30 (the stability '
               'cut-off of tools.math.entropy is outside)', 'np.log is an uninterpreted strictly monotone function with log(1)=0',
               'entropy.segment: the largest eigenvalue of the reduced density matrix is > 1e-30 (state not the zero vector); the 1e-30 cut of '
               'tools.math.entropy is mirrored by forks on every eigenvalue']


def setup_symbolic(case):
    from symx import stubs
    import tenpy.networks.mps as M
    import tenpy.tools.math as TM
    stubs.install_blas()
    stubs.facade_for(M, TM)
    if case is not None and case.get('fn') == 'charge_case':
        stubs.install_symbolic_charges()


def _log(ctx, x):
    if ctx.symbolic:
        from symx.scalars import R
        return R.lift(x).log()
    import math
    return math.log(x)


# ------------------------------------------------------------------------------------------------
def _dense_chain(psi, L, form='B'):
    """own contraction of psi.get_B(i, form) over the chain -> (vL, p0..p_{L-1}, vR)"""
    th = psi.get_B(0, form).to_ndarray()
    for i in range(1, L):
        th = np.tensordot(th, psi.get_B(i, form).to_ndarray(), axes=(th.ndim - 1, 0))
    return th


def product_case(ctx, kind, L, bc, mode, form='B'):
    from tenpy.networks.mps import MPS
    sites = F.make_sites(kind, L)
    dt = object if ctx.symbolic else complex
    if mode == 'vectors':
        # symbolic local amplitude vectors (charge-free sites); one site given by label, to mix the input kinds
        vecs = [ctx.array(f'v{i}', (sites[i].dim, ), cplx=True) for i in range(L)]
        p_state = [v for v in vecs]
        lab = ctx.choice('label_site', L + 1)
        if lab < L:
            names = sorted(sites[lab].state_labels, key=lambda k: (sites[lab].state_labels[k], k))
            nm = names[ctx.choice('label', len(names))]
            p_state[lab] = nm
            e = np.zeros(sites[lab].dim, dtype=dt)
            e[sites[lab].state_labels[nm]] = 1.
            vecs[lab] = e
        psi = MPS.from_product_state(sites, p_state, bc=bc, dtype=dt, form=form, unit_cell_width=L)
        # permute=True: the vectors are given in the conserve=None basis order; sites[i].perm is the identity here
        ref = [np.asarray(v)[sites[i].perm] if not isinstance(p_state[i], str) else v for i, v in enumerate(vecs)]
    elif mode == 'labels':
        idx = []
        p_state = []
        amps = {}
        for i in range(L):
            names = sorted(sites[i].state_labels, key=lambda k: (sites[i].state_labels[k], k))
            how = ctx.choice(f'how{i}', 3)
            if how == 2:
                # amplitude vector on a conserving site: a single non-zero entry  amp * e_k  given "as if conserve=None"
                # (permute=True); amp = +-b with a symbolic b > 1 (well above the charge-detection cutoff)
                k = ctx.choice(f'vec{i}', sites[i].dim)
                b = ctx.real(f'amp{i}', pos=True)
                ctx.assume(b > 1)
                amps[i] = b if ctx.choice(f'sign{i}', 2) == 0 else -b
                v = np.zeros(sites[i].dim, dtype=dt)
                v[k] = amps[i]
                p_state.append(v)
                idx.append([int(x) for x in sites[i].perm].index(k))
            elif how == 0:
                nm = names[ctx.choice(f'lab{i}', len(names))]
                p_state.append(nm)
                idx.append(sites[i].state_labels[nm])
            else:
                k = ctx.choice(f'idx{i}', sites[i].dim)
                p_state.append(k)
                # documented (permute=True): an int is the index "as if conserve=None"; the site stores state k at the
                # position j with perm[j] == k
                idx.append([int(x) for x in sites[i].perm].index(k))
        psi = MPS.from_product_state(sites, p_state, bc=bc, form=form, unit_cell_width=L, dtype=dt if amps else np.float64)
        ref = []
        for i in range(L):
            e = np.zeros(sites[i].dim, dtype=dt if amps else float)
            e[idx[i]] = amps.get(i, 1.)
            ref.append(e)
    else:
        raise ValueError(mode)
    psi.test_sanity()
    ctx.prove(psi.chi == [1] * (L - 1 if bc == 'finite' else (L + 1 if bc == 'segment' else L)), 'product state has chi = 1 on every bond')
    got = _dense_chain(psi, L).reshape([s.dim for s in sites])
    want = ref[0]
    for v in ref[1:]:
        want = np.multiply.outer(want, v)
    ctx.prove_eq(got, want, 'contracted MPS == product vector')
    ctx.prove(psi.norm == 1., 'norm attribute of a product state (from_product_state does not normalise)')
    if bc == 'finite' and sites[0].leg.chinfo.qnumber > 0 and mode == 'labels':
        q = np.sum([sites[i].leg.to_qflat()[idx[i]] for i in range(L)], axis=0)
        ctx.prove_eq(psi.get_total_charge(True), sites[0].leg.chinfo.make_valid(q), 'get_total_charge(only_physical_legs) == sum of the local charges')


def lat_product_case(ctx, kind, lat_kind, Lx, bc, mode):
    from tenpy.networks.mps import MPS
    from tenpy.models import lattice
    site = F.make_sites(kind, 1)[0]
    if lat_kind == 'Chain':
        lat = lattice.Chain(Lx, site, bc_MPS=bc, bc='periodic' if bc == 'infinite' else 'open')
        nu = 1
    else:
        lat = lattice.Ladder(Lx, [site, site], bc_MPS=bc, bc='periodic' if bc == 'infinite' else 'open')
        nu = 2
    N = lat.N_sites
    dt = object if ctx.symbolic else complex
    px = 2 if Lx % 2 == 0 else 1  # the given pattern is tiled along x
    if mode == 'vectors':
        vecs = [[ctx.array(f'v{x}_{u}', (site.dim, ), cplx=True) for u in range(nu)] for x in range(px)]
        if ctx.symbolic:
            p_state = np.empty((px, nu, site.dim), dtype=object)
            for x in range(px):
                for u in range(nu):
                    p_state[x, u, :] = vecs[x][u]
        else:
            p_state = np.array(vecs)
        psi = MPS.from_lat_product_state(lat, p_state, dtype=dt)
        local = lambda x, u: np.asarray(vecs[x % px][u])[site.perm]
    else:
        names = sorted(site.state_labels, key=lambda k: (site.state_labels[k], k))
        labs = [[names[ctx.choice(f'lab{x}_{u}', len(names))] for u in range(nu)] for x in range(px)]
        psi = MPS.from_lat_product_state(lat, labs)

        def local(x, u):
            e = np.zeros(site.dim)
            e[site.state_labels[labs[x % px][u]]] = 1.
            return e

    psi.test_sanity()
    got = _dense_chain(psi, N).reshape([site.dim] * N)
    want = None
    for k in range(N):
        x, u = int(lat.order[k][0]), int(lat.order[k][-1])
        v = local(x, u)
        want = v if want is None else np.multiply.outer(want, v)
    ctx.prove_eq(got, want, 'from_lat_product_state: MPS site k carries the state given at lattice index order[k]')
    ctx.prove(psi.bc == lat.bc_MPS and psi.unit_cell_width == lat.mps_unit_cell_width, 'bc / unit_cell_width taken from the lattice')


# ------------------------------------------------------------------------------------------------
REQ_FORMS = ['A', 'B', 'C', 'G', 'Th', None, (0.5, None), (None, 0.), (1., 0.5)]


def _build(ctx, p, forms):
    return F.build(ctx, 'k', p['kind'], p['L'], p['chis'], p['bc'], forms, cplx=True, sqrt_S=True, variant=p.get('variant', 0))


def forms_case(ctx, **p):
    """get_B for every stored form x requested form, site index with unit-cell wrap"""
    stored = p['stored']
    sm = _build(ctx, p, stored)
    psi = sm.psi
    L = sm.L
    idxs = list(range(L)) if sm.bc != 'infinite' else [-L, -1] + list(range(L)) + [L, 2 * L + 1]
    i = idxs[ctx.choice('i', len(idxs))]
    req = REQ_FORMS[ctx.choice('req', len(REQ_FORMS))]
    copy = bool(ctx.choice('copy', 2))
    got = psi.get_B(i, req, copy=copy)
    f = sm.forms[sm.site(i)]
    if req is None:
        want = sm.Tdense(i)
    else:
        r = F.FORMS[req] if isinstance(req, str) else req
        want = sm.form_tensor(i, f[0] if r[0] is None else r[0], f[1] if r[1] is None else r[1])
    ctx.prove(got.get_leg_labels() == ['vL', 'p', 'vR'], 'get_B labels')
    ctx.prove_eq(got.to_ndarray(), want, 'get_B(i, form) == S^(nuL_new - nuL_old) T S^(nuR_new - nuR_old)')
    ctx.prove_eq(psi._B[sm.site(i)].to_ndarray(), sm.Tdense(i), 'get_B leaves the stored tensor unchanged')
    if copy:
        ctx.prove(got is not psi._B[sm.site(i)] and all(a is not b for a, b in zip(got._data, psi._B[sm.site(i)]._data)),
                  'get_B(copy=True) returns independent data')
    # singular values with index wrap
    ctx.prove_eq(psi.get_SL(i), sm.S[sm.bond(i)], 'get_SL(i) is the S on the left bond (unit-cell wrap)')
    ctx.prove_eq(psi.get_SR(i), sm.S[sm.bond(i + 1)], 'get_SR(i) is the S on the right bond (unit-cell wrap)')
    lab = psi.get_B(i, None, label_p='7')
    ctx.prove(lab.get_leg_labels() == ['vL', 'p7', 'vR'], 'get_B(label_p=...) relabels the physical leg')


def theta_case(ctx, **p):
    stored = p['stored']
    sm = _build(ctx, p, stored)
    psi = sm.psi
    L = sm.L
    n = p['n']
    starts = list(range(L - n + 1)) if sm.bc != 'infinite' else [-1] + list(range(L)) + [L + 1]
    i = starts[ctx.choice('i', len(starts))]
    fL, fR = p.get('formL', 1.), p.get('formR', 1.)
    th = psi.get_theta(i, n, formL=fL, formR=fR)
    # documented: theta = s**form_L G_i s G_{i+1} s ... G_{i+n-1} s**form_R
    want = sm.form_tensor(i, fL, 1. if n > 1 else fR)
    for k in range(1, n):
        want = np.tensordot(want, sm.form_tensor(i + k, 0., 1. if k + 1 < n else fR), axes=(want.ndim - 1, 0))
    labels = ['vL'] + [f'p{k}' for k in range(n)] + ['vR']
    ctx.prove(set(th.get_leg_labels()) == set(labels), 'get_theta labels vL, p0..p{n-1}, vR')
    ctx.prove_eq(th.transpose(labels).to_ndarray(), want, 'get_theta == s^formL G s G ... s^formR')
    for k in range(n):
        ctx.prove_eq(psi._B[sm.site(i + k)].to_ndarray(), sm.Tdense(i + k), 'get_theta leaves the stored tensors unchanged')


def convert_case(ctx, **p):
    """sequences of convert_form: Gamma and S (hence the state) unchanged, stored tensors = new form"""
    stored = p['stored']
    sm = _build(ctx, p, stored)
    psi = sm.psi
    L = sm.L
    targets = ['A', 'B', 'C', 'G', 'Th', 'mixed']
    S_before = [s for s in psi._S]
    norm0 = psi.norm
    for step in range(p['steps']):
        t = targets[ctx.choice(f'target{step}', len(targets))]
        new = (['A', 'C', 'B', 'Th', 'G'] * 2)[:L] if t == 'mixed' else t
        psi.convert_form(new)
        newf = [F.FORMS[x] for x in (new if isinstance(new, list) else [new] * L)]
        ctx.prove(list(psi.form) == newf, 'convert_form records the new form')
        for i in range(L):
            ctx.prove_eq(psi._B[i].to_ndarray(), sm.form_tensor(i, *newf[i]), 'convert_form: stored tensor == S^nuL Gamma S^nuR of the original Gamma')
        ctx.prove(all(a is b for a, b in zip(psi._S, S_before)), 'convert_form leaves the singular values untouched')
        ctx.prove(psi.norm == norm0, 'convert_form leaves the norm untouched')
    # the state read back in B form is the original one
    for i in range(L):
        ctx.prove_eq(psi.get_B(i, 'B').to_ndarray(), sm.B(i), 'after the conversions get_B(i, "B") is the original B_i')
    try:
        psi.test_sanity()
    except Exception as e:  # noqa
        ctx.fail('test_sanity after convert_form', str(e)[:80])


def nonecanonical_case(ctx, **p):
    """form None (non-canonical): conversions are refused, the stored tensors are returned as they are"""
    sm = F.build(ctx, 'k', p['kind'], p['L'], p['chis'], p['bc'], 'B', cplx=True)
    psi = sm.psi
    psi.form = [None] * sm.L
    i = ctx.choice('i', sm.L)
    ctx.prove_eq(psi.get_B(i, None).to_ndarray(), sm.Tdense(i), 'get_B(form=None) returns the stored tensor')
    for call in (lambda: psi.get_B(i, 'B'), lambda: psi.get_theta(i, 1), lambda: psi.convert_form('A')):
        try:
            call()
            ctx.fail('a non-canonical MPS must refuse form conversions')
        except ValueError:
            ctx.prove(True, 'non-canonical form: conversion refused with ValueError')


def setS_case(ctx, **p):
    """set_SL / set_SR / set_B with unit-cell wrap"""
    sm = _build(ctx, p, 'B')
    psi = sm.psi
    L = sm.L
    idxs = list(range(L)) if sm.bc != 'infinite' else [-1, 0, L - 1, L, 2 * L + 1]
    i = idxs[ctx.choice('i', len(idxs))]
    left = bool(ctx.choice('left', 2))
    k = sm.bond(i if left else i + 1)
    new = ctx.array('newS', (len(sm.S[k]), ), pos=True)
    (psi.set_SL if left else psi.set_SR)(i, new)
    for b in range(len(psi._S)):
        ctx.prove_eq(psi._S[b], new if b == k else sm.S[b], 'set_SL/set_SR replaces exactly the addressed bond')
    ctx.prove_eq((psi.get_SL if left else psi.get_SR)(i), new, 'get after set')
    T = Bd.tensor(ctx, 'n', [sm.legs[sm.site(i)], sm.sites[sm.site(i)].leg, sm.legs[sm.site(i) + 1].conj()],
                  np.array(sm.qtot[sm.site(i)], dtype=np.int64) if len(sm.qtot[sm.site(i)]) else None, cplx=True, labels=['p', 'vR', 'vL'])
    dT = T.to_ndarray().transpose(2, 0, 1)
    psi.set_B(i, T, form='A')
    ctx.prove(psi.form[sm.site(i)] == (1., 0.) and psi._B[sm.site(i)].get_leg_labels() == ['vL', 'p', 'vR'], 'set_B: form recorded, legs in standard order')
    ctx.prove_eq(psi._B[sm.site(i)].to_ndarray(), dT, 'set_B stores the tensor at the addressed site (unit-cell wrap)')
    for j in range(L):
        if j != sm.site(i):
            ctx.prove_eq(psi._B[j].to_ndarray(), sm.Tdense(j), 'set_B leaves the other sites unchanged')


# ------------------------------------------------------------------------------------------------
def entropy_case(ctx, **p):
    sm = F.build(ctx, 'k', p['kind'], p['L'], p['chis'], p['bc'], 'B', cplx=False)
    psi = sm.psi
    L = sm.L
    nb = len(sm.S)
    for k in range(nb):
        for s in sm.S[k]:
            if ctx.symbolic or not (sm.bc == 'finite' and k in (0, L)):
                ctx.assume(s * s > 1.e-30)
    mode = p['mode']
    nt = psi.nontrivial_bonds
    bonds = list(range(nt.start, nt.stop))

    def S_of(b):  # documented: the S of bond b (left of site b; for b == L the right bond of the last site)
        return sm.S[b] if sm.bc != 'infinite' else sm.S[b % L]

    if mode == 'vN':
        ent = psi.entanglement_entropy()
        want = []
        for b in bonds:
            tot = 0
            for s in S_of(b):
                tot = tot - _log(ctx, s * s) * (s * s)
            want.append(tot)
        ctx.prove_eq(ent, np.array(want), 'entanglement_entropy == -sum S^2 log S^2 on every non-trivial bond')
    elif mode == 'renyi':
        n = p['n']
        b = bonds[ctx.choice('bond', len(bonds))]
        ent = psi.entanglement_entropy(n=n, bonds=[b])
        tot = 0
        for s in S_of(b):
            tot = tot + (s * s)**n
        ctx.prove_eq(ent, np.array([_log(ctx, tot) / (1. - n)]), 'Renyi entropy == log(sum S^(2n)) / (1-n)')
    elif mode == 'bond_L':
        if sm.bc == 'segment':
            ent = psi.entanglement_entropy(bonds=L)
            tot = 0
            for s in sm.S[L]:
                tot = tot - _log(ctx, s * s) * (s * s)
            ctx.prove_eq(ent, np.array([tot]), 'entanglement_entropy(bonds=L) uses the right-most S')
    elif mode in ('segment', 'mutinf'):
        # entanglement_entropy_segment = entropy(eigvalsh(reduced density matrix), n): ONE LAPACK call per first site.  The matrix
        # handed to eigvalsh is compared with the harness's own partial trace of get_theta (get_theta is decided by the theta cases);
        # the returned number with the documented formula on the eigenvalues the (stubbed / real) eigvalsh returned.
        # mutinf_two_site = S(i) + S(j) - S(ij): L single-site calls, then one call per pair (i, j), window state = get_theta(i, j-i+1).
        import tenpy.networks.mps as M
        n = p['n']
        calls = []
        orig = M.npc.eigvalsh

        def rec(a, *args, **kw):
            w = orig(a, *args, **kw)
            ctx.assume(ctx.Or(*[x > 1.e-30 for x in w]))  # the state is not the zero vector
            kept = [x for x in w if bool(x > 1.e-30)]  # the documented stability cut of tools.math.entropy (forks per eigenvalue)
            calls.append((a.split_legs().to_ndarray(), kept))  # split_legs undoes the charge sorting of the combined legs
            return w

        def run(f):
            M.npc.eigvalsh = rec
            restore = None
            if ctx.symbolic:  # eigvalsh contract stub (fresh ascending real eigenvalues), installed after the sites / tensors are built
                from symx import lapack, stubs
                restore = stubs.facade_for(M.npc, widen=True, linalg_overrides={'eigvalsh': lapack.make_eigvalsh(np.linalg.eigvalsh)})
            try:
                return f()
            finally:
                M.npc.eigvalsh = orig
                if restore is not None:
                    restore()

        def own_rho(i0, seg):
            width = seg[-1] + 1
            th = psi.get_theta(i0, n=width).to_ndarray()  # vL, p0..p_{width-1}, vR
            drop = [0] + [1 + j for j in range(width) if j not in seg] + [width + 1]
            return np.tensordot(th, th.conj(), axes=(drop, drop))

        def formula(w):
            if n == 1:
                tot = 0
                for x in w:
                    tot = tot - _log(ctx, x) * x
                return tot
            if n == np.inf:
                big = w[0]  # largest kept eigenvalue (per charge block ascending, blocks concatenated: forks on the order)
                for x in w[1:]:
                    if bool(x > big):
                        big = x
                return -_log(ctx, big)
            tot = 0
            for x in w:
                tot = tot + x**n
            return _log(ctx, tot) / (1. - n)

        if mode == 'segment':
            seg = list(p['segment'])
            firsts = list(range(0, L - seg[-1])) if sm.bc != 'infinite' else list(range(L))
            i0 = firsts[ctx.choice('first_site', len(firsts))]
            ent = run(lambda: psi.entanglement_entropy_segment(segment=seg, first_site=[i0], n=n))
            ctx.prove(len(calls) == 1 and len(ent) == 1, 'entanglement_entropy_segment: one reduced density matrix per first site')
            rho, w = calls[0]
            ctx.prove_eq(rho, own_rho(i0, seg), 'matrix diagonalised by entanglement_entropy_segment == own partial trace of theta theta^dagger')
            ctx.prove_eq(ent, np.array([formula(w)]), 'entanglement_entropy_segment == entropy(eigenvalues of the reduced density matrix, n)')
        else:
            mr = p['max_range']
            coord, mut = run(lambda: psi.mutinf_two_site(max_range=mr, n=n))
            want = [(i, j) for i in range(L) for j in range(i + 1, (min(i + mr + 1, L) if sm.bc != 'infinite' else i + mr + 1))]
            ctx.prove([tuple(int(x) for x in c) for c in coord] == want, 'mutinf_two_site: coordinates (i, j), i < j <= i + max_range')
            ctx.prove(len(calls) == L + len(want) and len(mut) == len(want), 'mutinf_two_site: one density matrix per site and per pair')
            if len(calls) == L + len(want) and len(mut) == len(want):
                for i in range(L):
                    ctx.prove_eq(calls[i][0], own_rho(i, [0]), 'mutinf_two_site: single-site density matrix == own partial trace')
                S1 = [formula(calls[i][1]) for i in range(L)]
                for k, (i, j) in enumerate(want):
                    ctx.prove_eq(calls[L + k][0], own_rho(i, [0, j - i]),
                                 'mutinf_two_site: two-site density matrix == own partial trace of the window state')
                    ctx.prove_eq(np.array([mut[k]]), np.array([S1[i] + S1[j % L] - formula(calls[L + k][1])]),
                                 'mutinf_two_site == S(i) + S(j) - S(ij) on the eigenvalues of the reduced density matrices')
    elif mode == 'spectrum':
        spec = psi.entanglement_spectrum()
        ctx.prove(len(spec) == len(bonds), 'entanglement_spectrum: one spectrum per non-trivial bond')
        for b, sp in zip(bonds, spec):
            vals = [-2. * _log(ctx, s) for s in S_of(b)]
            ctx.prove(len(sp) == len(vals), 'spectrum length')
            # sorted ascending and a permutation of -2 log S: the multiset is decided entry by entry (forks on the order)
            for a, c in zip(sp[:-1], sp[1:]):
                ctx.prove(a <= c, 'entanglement_spectrum sorted ascending')
            order = sorted(range(len(vals)), key=lambda j: _SortKey(S_of(b)[j]), reverse=True)  # large S first = small energy
            ctx.prove_eq(np.array(list(sp)), np.array([vals[j] for j in order]), 'entanglement_spectrum == sorted(-2 log S)')
    elif mode == 'spectrum_by_charge':
        spec = psi.entanglement_spectrum(by_charge=True)
        for b, sp in zip(bonds, spec):
            leg = sm.legs[b]
            ctx.prove(len(sp) == leg.block_number, 'by_charge: one entry per charge block of the bond leg')
            for qi, (q, vals) in enumerate(sp):
                sl = leg.get_slice(qi)
                ctx.prove_eq(np.asarray(q), leg.get_charge(qi), 'by_charge: charge of the block')
                Sb = list(S_of(b)[sl])
                order = sorted(range(len(Sb)), key=lambda j: _SortKey(Sb[j]), reverse=True)
                ctx.prove_eq(np.array(list(vals)), np.array([-2. * _log(ctx, Sb[j]) for j in order]), 'by_charge: sorted(-2 log S) of the block')


class _SortKey:
    __slots__ = ('v', )

    def __init__(self, v):
        self.v = v

    def __lt__(self, o):
        return bool(self.v < o.v)


# ------------------------------------------------------------------------------------------------
def _gauge(ctx, sm, psi, arg, total, q0):
    """an infinite MPS cannot change the total charge of its unit cell without breaking the match of the outer legs: that
    request is refused with ValueError (and only that one)"""
    if sm.bc != 'infinite':
        psi.gauge_total_charge(arg)
        return True
    try:
        psi.gauge_total_charge(arg)
        return True
    except ValueError:
        same = True
        for a, b in zip(np.asarray(total).reshape(-1), np.asarray(q0).reshape(-1)):
            same = same & (a == b)
        ctx.prove(ctx.Not(same), 'infinite MPS: gauge_total_charge refuses only a change of the total charge per unit cell')
        return False


def charge_case(ctx, **p):
    """get_total_charge / gauge_total_charge / outer_virtual_legs; the target total charge is a symbolic integer"""
    sm = F.build(ctx, 'k', p['kind'], p['L'], p['chis'], p['bc'], 'B', cplx=True, variant=p.get('variant', 0))
    psi = sm.psi
    L = sm.L
    ci = sm.sites[0].leg.chinfo
    before = [T.copy() for T in sm.Td]
    vL, vR = psi.outer_virtual_legs()
    ctx.prove(vL is psi._B[0].get_leg('vL') and vR is psi._B[-1].get_leg('vR'), 'outer_virtual_legs: the outermost legs')
    q0 = psi.get_total_charge()
    ctx.prove_eq(q0, ci.make_valid(np.sum([np.array(q) for q in sm.qtot], axis=0)), 'get_total_charge == sum of the qtotal of the tensors')
    mode = p['mode']
    if mode == 'target':
        tgt = Bd.qvec(ctx, 'q', ci)
        for j, m in enumerate(ci.mod):
            if m == 1:
                ctx.assume((tgt[j] >= -3) & (tgt[j] <= 3) if ctx.symbolic else (-3 <= tgt[j] <= 3))
        if not _gauge(ctx, sm, psi, tgt if ctx.symbolic else np.array(tgt), tgt, q0):
            return
        ctx.prove_eq(psi.get_total_charge(), np.asarray(tgt), 'gauge_total_charge(q): get_total_charge() == q afterwards')
    elif mode == 'default':
        psi.gauge_total_charge()
        ctx.prove_eq(psi.get_total_charge(), ci.make_valid(None), 'gauge_total_charge(): total charge 0 afterwards')
    elif mode == 'per_site':
        tg = Bd.charges(ctx, 'q', L, ci, window=2)
        if not _gauge(ctx, sm, psi, tg if ctx.symbolic else np.array(tg), ci.make_valid(np.sum(tg, axis=0)), q0):
            return
        for i in range(L):
            ctx.prove_eq(psi._B[i].qtotal, np.asarray(tg[i]), 'gauge_total_charge(per-site charges): every tensor has the requested qtotal')
    for i in range(L):
        psi._B[i].test_sanity()
        ctx.prove_eq(psi._B[i].to_ndarray(), before[i], 'gauge_total_charge leaves every tensor entry unchanged')
        if i + 1 < L:
            try:
                psi._B[i].get_leg('vR').test_contractible(psi._B[i + 1].get_leg('vL'))
            except ValueError as e:
                ctx.fail('virtual legs stay contractible after gauging', str(e)[:80])
    if sm.bc == 'infinite':
        try:
            psi._B[-1].get_leg('vR').test_contractible(psi._B[0].get_leg('vL'))
        except ValueError as e:
            ctx.fail('infinite MPS: last vR contractible with first vL after gauging', str(e)[:80])


# ------------------------------------------------------------------------------------------------
def _geoms(tier):
    g = [
        dict(kind='spin', L=3, chis=[1, 2, 2, 1], bc='finite'),
        dict(kind='fermN', L=3, chis=[1, 2, 3, 1], bc='finite', variant=1),
        dict(kind='spinSz', L=2, chis=[2, 2, 2], bc='segment', variant=1),
        dict(kind='spin', L=2, chis=[2, 2, 2], bc='infinite'),
        dict(kind='spinSz', L=2, chis=[2, 2, 2], bc='infinite', variant=1),
    ]
    if tier == 'thorough':
        g += [
            dict(kind='ferm', L=4, chis=[1, 2, 3, 2, 1], bc='finite'),
            dict(kind='shfNSz', L=3, chis=[1, 3, 3, 1], bc='finite', variant=1),
            dict(kind='fermN', L=3, chis=[2, 2, 2, 2], bc='infinite'),
            dict(kind='ferm', L=3, chis=[2, 3, 2, 2], bc='segment'),
        ]
    return g


def _gname(g):
    return f"{g['kind']},L={g['L']},chi={'-'.join(map(str, g['chis']))},{g['bc']}"


def CASES(tier, seed):
    cases = []
    thorough = tier == 'thorough'
    O = dict(max_paths=6000, max_wall_s=1500 if thorough else 200, validate_paths=3, hard_timeout_s=1700 if thorough else 230)

    def add(name, fn, **kw):
        cases.append(dict(name=name, fn=fn, params=kw, opts=dict(O)))

    # (a) product states
    for kind in ('spin', 'ferm') + (('shf', 'spin+ferm') if thorough else ()):
        for bc in ('finite', 'infinite', 'segment'):
            for L in ((1, 3) if not thorough else (1, 2, 4)):
                if kind == 'shf' and L > 2:
                    continue
                add(f'product.vectors[{kind},L={L},{bc}]', 'product_case', kind=kind, L=L, bc=bc, mode='vectors')
    for kind in ('spinSz', 'fermN', 'spinP', 'shfNSz'):  # shfNSz: site.perm = [2,0,3,1] is not an involution
        for bc in ('finite', 'infinite', 'segment'):
            L = 3 if (kind != 'shfNSz' and (bc == 'finite' or thorough)) else 2  # (labels + indices + signed unit vectors)^L paths
            add(f'product.labels[{kind},L={L},{bc}]', 'product_case', kind=kind, L=L, bc=bc, mode='labels', form='B' if bc != 'segment' else 'A')
    for lat_kind, Lx in (('Chain', 3), ('Ladder', 2)) + ((('Ladder', 3), ) if thorough else ()):
        for bc in ('finite', 'infinite'):
            add(f'lat_product.vectors[spin,{lat_kind},Lx={Lx},{bc}]', 'lat_product_case', kind='spin', lat_kind=lat_kind, Lx=Lx, bc=bc, mode='vectors')
            add(f'lat_product.labels[fermN,{lat_kind},Lx={Lx},{bc}]', 'lat_product_case', kind='fermN', lat_kind=lat_kind, Lx=Lx, bc=bc, mode='labels')
    # (b) forms
    for g in _geoms(tier):
        gn = _gname(g)
        L = g['L']
        stored_list = ['A', 'B', 'C', 'G', 'Th', (['A', 'Th', 'C', 'B'] * 2)[:L]]
        for st in stored_list:
            sn = st if isinstance(st, str) else 'mixed'
            add(f'get_B[stored={sn}][{gn}]', 'forms_case', stored=st, **g)
        for st in ('B', 'A', 'C', (['G', 'A', 'B', 'Th'] * 2)[:L]):
            sn = st if isinstance(st, str) else 'mixed'
            for n in (1, 2, 3):
                if g['bc'] != 'infinite' and n > L:
                    continue
                if n == 3 and not thorough and g['kind'] == 'spin':
                    continue
                add(f'get_theta[n={n},stored={sn}][{gn}]', 'theta_case', stored=st, n=n, **g)
            add(f'get_theta[n=2,formL=0,formR=0.5,stored={sn}][{gn}]', 'theta_case', stored=st, n=2, formL=0., formR=0.5, **g)
        add(f'get_theta[n=1,formL=0,formR=1,stored=B][{gn}]', 'theta_case', stored='B', n=1, formL=0., formR=1., **g)
        for st in ('B', 'C', (['Th', 'A', 'G', 'B'] * 2)[:L]):
            sn = st if isinstance(st, str) else 'mixed'
            add(f'convert_form[stored={sn}][{gn}]', 'convert_case', stored=st, steps=3 if thorough else 2, **g)
        add(f'noncanonical[{gn}]', 'nonecanonical_case', **g)
        add(f'set_S_set_B[{gn}]', 'setS_case', **g)
        # (c) entropies
        add(f'entropy.vN[{gn}]', 'entropy_case', mode='vN', **g)
        add(f'entropy.renyi2[{gn}]', 'entropy_case', mode='renyi', n=2, **g)
        add(f'entropy.renyi0.5[{gn}]', 'entropy_case', mode='renyi', n=0.5, **g)
        add(f'entropy.spectrum[{gn}]', 'entropy_case', mode='spectrum', **g)
        if True:  # charge-free chains: one eigvalsh block; conserving chains: one block per charge sector of the segment
            segs = (([0], 2), ([0, 1], 1)) + ((([0, 2], 0.5), ([0], np.inf)) if thorough or g['bc'] == 'infinite' else ())
            if g['kind'] not in ('spin', 'ferm'):
                segs = (([0, 1], 2), ([0], np.inf)) + ((([0, 2], 1), ) if thorough else ())
            for seg, n in segs:
                if g['bc'] != 'infinite' and seg[-1] >= L:
                    continue
                add(f"entropy.segment[{'+'.join(map(str, seg))},n={n}][{gn}]", 'entropy_case', mode='segment', segment=seg, n=n, **g)
                # counterexample search: the stub's eigenvalues are not tied to the tensors in the solver, so generic
                # tensor entries are proposed and only the auxiliary symbols are left to the solver
                cases[-1]['opts']['guided_with_side'] = True
        if g['kind'] in ('spin', 'fermN') and g['bc'] != 'segment':
            mr = 1 if g['bc'] == 'infinite' or not thorough else 2
            # n = 1 only: with Renyi n = 2 the log-of-sum obligations cost ~2.5 s per path (measured), the n-plumbing is decided by entropy.segment
            add(f"entropy.mutinf[max_range={mr},n=1][{gn}]", 'entropy_case', mode='mutinf', max_range=mr, n=1, **g)
            cases[-1]['opts']['guided_with_side'] = True
        if g['bc'] == 'segment':
            add(f'entropy.bond_L[{gn}]', 'entropy_case', mode='bond_L', **g)
        if g['kind'] in ('spinSz', 'fermN', 'shfNSz'):
            add(f'entropy.spectrum_by_charge[{gn}]', 'entropy_case', mode='spectrum_by_charge', **g)
            # (d) charges
            for mode in ('target', 'default', 'per_site'):
                add(f'charge.{mode}[{gn}]', 'charge_case', mode=mode, **g)
    return cases
