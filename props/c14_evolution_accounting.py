"""C14 Time evolution: schedule, evolved time and truncation-error accounting (partial claim).

The REAL engines (TEBDEngine, QRBasedTEBDEngine, TimeDependentTEBD, TwoSiteTDVPEngine, SingleSiteTDVPEngine,
ExpMPOEvolution and their TimeDependent* variants) are created for a small concrete model (TFIChain, product state)
and run through their real ``run() / run_evolution() / evolve() / evolve_step() / sweep()`` code; only the numeric
workhorses are replaced by recording stubs that return a *symbolic* ``TruncationError(eps_k, ov_k)``:

  TEBD   ``_calc_U_bond`` -> token carrying (bond, time step);  ``update_bond`` / ``update_bond_imag`` -> record + eps_k
  TDVP   ``prepare_update_local`` / ``update_local`` -> record (i0, eng.dt) + eps_k
  ExpMPO ``MPO.make_U`` -> token carrying the (complex) step whose ``apply`` records + returns eps_k

Symbolic: the time step ``dt`` of every call, the start time, the start truncation error, every eps_k / ov_k, the
split of the evolution into calls (method run / run_evolution / evolve and N_steps per call are symbolic selectors).
Obligations (linear real arithmetic, products for ``ov``): (a) the steps applied to every bond sum to N_steps*dt,
(b) evolved_time == start + sum N_steps*dt, (c) trunc_err == start + sum of the truncations performed.

NOT APPLICABLE (floating point expm / Lanczos numerics): convergence order in dt, norm / energy / charge conservation.
"""
import numpy as np

from symx.seqtools import choice, StopPath

PROPERTY = 'C14'
LEVEL = 'model_checking'
BOUNDS = {
    'quick': 'TFIChain L=4 (TDVP: L=3 and 4), finite; TEBD orders 1, 2, 4, "4_opt"; 2 calls, each run / run_evolution / evolve '
             '(symbolic selector) with N_steps in 1..3 (symbolic selector) and its own symbolic dt (|dt| <= 100), symbolic start '
             'time and start truncation error, one symbolic eps_k (0 <= eps_k <= 1) and ov_k per truncation; update_imag: N_steps<=3; '
             'time-dependent variants: 2 calls, N_steps in 1..2',
    'thorough': 'same engines; splits into calls: 3 calls with N_steps in 1..2 and 2 calls with N_steps in 1..6 (TDVP, ExpMPO: '
                '3 calls x 1..2 and 2 calls x 1..3; time-dependent variants: 2 calls x 1..3); schedule alone for N_steps <= 6',
}
OUTSIDE = ('NOT APPLICABLE: convergence order of the Trotter / TDVP / W_II error, norm, energy and charge conservation (floating point '
           'expm / Lanczos); everything inside the stubbed workhorses (update_bond, _calc_U_bond, update_local, MPO.make_U / apply); '
           'infinite MPS; run_GS (data-dependent loop); eng.trunc_err after direct evolve() calls (not '
           'documented whether evolve accumulates: only its return value is checked)')
STUBS = [
    'np.max in tenpy.algorithms.mps_common (return value of Sweep.sweep) -> fresh symbol m with m >= x_i and m == some x_i (no fork)',
    'TEBDEngine._calc_U_bond -> token (bond, dt), None where H_bond is None; update_bond / update_bond_imag -> TruncationError(eps_k, ov_k)',
    'Sweep.prepare_update_local -> None; TDVP update_local -> {err: TruncationError(eps_k, 1 - 2 eps_k)} (two-site) / {} (single-site)',
    'MPO.make_U -> token (dt, approximation) with apply() -> TruncationError(eps_k, ov_k)',
]
ASSUMPTIONS = [
    'floats are reals; the order-4 Suzuki-Trotter constants are the exact rationals of the float constants in '
    'suzuki_trotter_time_steps, schedule sums compared with tolerance 1e-12*N_steps*|dt| (orders 1, 2: exact)',
    '|dt| <= 100 with max_delta_t / max_dt raised accordingly, 0 <= eps_k <= 1 with max_trunc_err raised (the consistency '
    'checks of tenpy are not under test)',
    'two-site TDVP: ov_k = 1 - 2 eps_k (contract of truncate(), C15), because TDVPEngine.evolve rebuilds ov from eps',
]

TOL = 1.e-12


def setup_symbolic(case):
    """Sweep.sweep returns np.max(trunc_err_list) (unused by TDVP): on symbolic eps_k numpy's max would fork on every
    ordering of the eps_k; the facade returns a fresh symbol constrained by the definition of max instead (exact)."""
    import z3
    from symx import stubs, scalars as S, engine as E
    import tenpy.algorithms.mps_common as mps_common

    def sym_max(a, *args, **kw):
        vals = list(a) if isinstance(a, (list, tuple)) else a
        if args or kw or not S.has_sym(vals):
            return np.max(a, *args, **kw)
        ctx = E.cur()
        m = ctx.fresh('max')
        mz = m.z3()[0]
        zs = [S.R.lift(x).z3()[0] for x in vals]
        ctx.solver.add(z3.And([mz >= z for z in zs]))
        ctx.solver.add(z3.Or([mz == z for z in zs]))
        return m

    stubs.facade_for(mps_common, widen=False, overrides={'max': sym_max})


# ------------------------------------------------------------------------------------------ fixtures
class _Rec:
    """what the recording stubs saw"""

    def __init__(self, ctx, contract_ov=False):
        self.ctx = ctx
        self.k = 0
        self.contract_ov = contract_ov
        self.eps = []
        self.ov = []
        self.bond_time = {}
        self.applied = []
        self.updates = []

    def trunc(self):
        from tenpy.linalg.truncation import TruncationError
        ctx = self.ctx
        k = self.k
        self.k += 1
        if self.contract_ov:
            # ov_k = 1 - 2 eps_k (contract of truncate): parametrised by w = ov_k in [-1, 1], so that the engine's own
            # 1 - 2*eps is the monomial w again and products of overlaps stay monomials
            o = _bounded(ctx, f'ov{k}', -1, 1)
            e = (1. - o) * 0.5
        else:
            e = _bounded(ctx, f'eps{k}', 0, 1)
            o = ctx.real(f'ov{k}')
        self.eps.append(e)
        self.ov.append(o)
        return TruncationError(e, o)

    def mark(self):
        return (len(self.eps), dict(self.bond_time), len(self.applied), len(self.updates))


_MODELS = {}


def _model(L, time_dependent=False):
    from tenpy.models.tf_ising import TFIChain
    if not time_dependent:
        if L not in _MODELS:
            _MODELS[L] = TFIChain(dict(L=L, J=1., g=1.5, bc_MPS='finite', conserve=None))
        return _MODELS[L]  # read-only for the time-independent engines

    if time_dependent:

        class TimeDependentTFI(TFIChain):
            """reads the option 'time' (so that update_time_parameter re-initialises it); H does not depend on it"""

            def init_terms(self, model_params):
                model_params.get('time', 0., 'real')
                super().init_terms(model_params)

        return TimeDependentTFI(dict(L=L, J=1., g=1.5, bc_MPS='finite', conserve=None, time=None))
    return TFIChain(dict(L=L, J=1., g=1.5, bc_MPS='finite', conserve=None))


def _psi(M):
    from tenpy.networks.mps import MPS
    L = M.lat.N_sites
    return MPS.from_product_state(M.lat.mps_sites(), ['up', 'down'] * (L // 2) + ['up'] * (L % 2), bc='finite')


def _start(ctx):
    from tenpy.linalg.truncation import TruncationError
    t0 = ctx.real('t0')
    e0 = ctx.real('eps_start', nonneg=True)
    o0 = ctx.real('ov_start')
    return t0, e0, o0, TruncationError(e0, o0)


def _bounded(ctx, name, lo, hi):
    """fresh real input restricted to [lo, hi] (an assumption on a fresh input is always satisfiable: no feasibility query)"""
    if ctx.symbolic:
        x = ctx.real(name, nonneg=(lo == 0))
        for c in (x <= hi, x >= lo):
            if c is not True:
                ctx.solver.add(c.t)
                ctx.pc.append(c.t)
        return x
    x = ctx.real(name, nonneg=(lo == 0))
    if name not in ctx.model:
        x = min(max(x, lo), hi)
    ctx.assume(lo <= x <= hi)
    return x


def _dt(ctx, c):
    return _bounded(ctx, f'dt{c}', -100, 100)


def _close(ctx, x, y, n, dt, label, exact):
    """x == y exactly, or |x - y| <= TOL * n * |dt| for the schedules built from irrational constants"""
    if exact:
        return ctx.prove_eq(x, y, label)
    d = x - y
    b = TOL * n * dt
    return ctx.prove(ctx.Or(ctx.And(d <= b, d >= -b), ctx.And(d <= -b, d >= b)), label + f' (tolerance {TOL}*N*|dt|)')


class _Account:
    """the independent sums the engine's attributes are compared with"""

    def __init__(self, ctx, eng, rec, t0, e0, o0):
        self.ctx, self.eng, self.rec = ctx, eng, rec
        self.time = t0
        self.eps = e0
        self.ov = o0

    def after_call(self, method, n, dt, mark, ret, time_unit=None):
        ctx, eng, rec = self.ctx, self.eng, self.rec
        self.time = self.time + n * (dt if time_unit is None else time_unit)
        ok = ctx.prove_eq(eng.evolved_time, self.time, f'evolved_time == start + sum N_steps*dt after {method}()')
        new_eps = rec.eps[mark[0]:]
        new_ov = rec.ov[mark[0]:]
        s = 0. * dt
        p = 1. + 0. * dt
        for e, o in zip(new_eps, new_ov):
            s = s + e
            p = p * o
        if not ok:
            raise StopPath()
        # first divergence only: the (high-degree) product obligations are stated when the sums are right
        if ret is not None:
            if not ctx.prove_eq(ret.eps, s, f'{method}() returns the sum of the truncation errors it performed'):
                raise StopPath()
            ok = ctx.prove_eq(ret.ov, p, f'{method}() returns the product of the overlaps of its truncations') and ok
        if method in ('run', 'run_evolution', 'update_imag'):
            self.eps = self.eps + s
            self.ov = self.ov * p
            if not ctx.prove_eq(eng.trunc_err.eps, self.eps,
                                f'trunc_err.eps == start + sum of eps_k of the truncations performed, after {method}()'):
                raise StopPath()
            ok = ctx.prove_eq(eng.trunc_err.ov, self.ov,
                              f'trunc_err.ov == start * product of ov_k of the truncations performed, after {method}()') and ok
        else:
            # direct evolve(): whether the attribute accumulates is not documented; re-synchronise
            self.eps = eng.trunc_err.eps
            self.ov = eng.trunc_err.ov
        ctx.note('truncations', len(new_eps))
        if not ok:
            raise StopPath()


def _calls(ctx, n_calls, n_max):
    for c in range(n_calls):
        method = ('run', 'run_evolution', 'evolve')[choice(ctx, f'method{c}', 3)]
        n = 1 + choice(ctx, f'N{c}', n_max)
        yield c, method, n, _dt(ctx, c)


def _do_call(eng, method, n, dt):
    if method == 'run':
        eng.options['dt'] = dt
        eng.options['N_steps'] = n
        eng.run()
        return None
    if method == 'run_evolution':
        eng.run_evolution(n, dt)
        return None
    eng.prepare_evolve(dt)
    return eng.evolve(n, dt)


# ------------------------------------------------------------------------------------------ TEBD
class _UToken:

    def __init__(self, bond, dt, type_evo):
        self.bond, self.dt, self.type_evo = bond, dt, type_evo


def _stub_tebd(eng, rec, ctx):

    def calc_U_bond(i_bond, dt, type_evo, E_offset):
        if eng.model.H_bond[i_bond] is None:
            return None
        return _UToken(i_bond, dt, type_evo)

    def update_bond(i, U_bond):
        ctx.prove(U_bond.bond == i, 'update_bond(i, U) gets the U of bond i')
        rec.bond_time[i] = rec.bond_time.get(i, 0.) + U_bond.dt
        rec.updates.append(i)
        return rec.trunc()

    eng._calc_U_bond = calc_U_bond
    eng.update_bond = update_bond
    eng.update_bond_imag = update_bond


def tebd_case(ctx, engine, order, n_calls, n_max, L=4):
    from tenpy.algorithms import tebd
    cls = getattr(tebd, engine)
    td = engine.startswith('TimeDependent')
    M = _model(L, td)
    t0, e0, o0, start = _start(ctx)
    eng = cls(_psi(M), M, dict(order=order, start_time=t0, start_trunc_err=start, trunc_params=dict(chi_max=8),
                               max_delta_t=1.e9, max_trunc_err=1.e9))
    rec = _Rec(ctx)
    _stub_tebd(eng, rec, ctx)
    acc = _Account(ctx, eng, rec, t0, e0, o0)
    exact = order in (1, 2)
    try:
        for c, method, n, dt in _calls(ctx, n_calls, n_max):
            mark = rec.mark()
            ret = _do_call(eng, method, n, dt)
            # (a) the Suzuki-Trotter schedule sums to N_steps*dt on every even and every odd bond
            ok = True
            for i in range(1, L):
                applied = rec.bond_time.get(i, 0.) - mark[1].get(i, 0.)
                ok = _close(ctx, applied, n * dt, n, dt, f'the steps applied to an {"odd" if i % 2 else "even"} bond sum to N_steps*dt', exact) and ok
            ctx.prove(0 not in rec.bond_time, 'no update on the trivial bond of a finite MPS')
            if not ok:
                raise StopPath()
            acc.after_call(method, n, dt, mark, ret)
    except StopPath:
        pass


def tebd_imag_case(ctx, n_max, L=4):
    """second-order imaginary-time sweeps of update_imag (as used by run_GS)"""
    from tenpy.algorithms import tebd
    M = _model(L)
    t0, e0, o0, start = _start(ctx)
    eng = tebd.TEBDEngine(_psi(M), M, dict(order=2, start_time=t0, start_trunc_err=start, trunc_params=dict(chi_max=8), max_delta_t=1.e9))
    rec = _Rec(ctx)
    _stub_tebd(eng, rec, ctx)
    acc = _Account(ctx, eng, rec, t0, e0, o0)
    try:
        for c in range(2):
            n = 1 + choice(ctx, f'N{c}', n_max)
            dtau = _dt(ctx, c)
            mark = rec.mark()
            eng.calc_U(2, dtau, type_evo='imag')
            ret = eng.update_imag(n, call_canonical_form=False)
            for i in range(1, L):
                applied = rec.bond_time.get(i, 0.) - mark[1].get(i, 0.)
                ctx.prove_eq(applied, n * dtau, 'update_imag: the half steps applied to a bond sum to N_steps*delta_tau')
            acc.after_call('update_imag', n, dtau, mark, ret, time_unit=-1.j * dtau)
    except StopPath:
        pass


def rue_case(ctx, n_calls, n_max, L=4, engine=None):
    """RandomUnitaryEvolution: dt is only the unit of evolved_time; every bond is updated once per step"""
    from tenpy.algorithms import tebd
    M = _model(L)
    t0, e0, o0, start = _start(ctx)
    eng = tebd.RandomUnitaryEvolution(_psi(M), dict(start_time=t0, start_trunc_err=start, trunc_params=dict(chi_max=8)))
    rec = _Rec(ctx)
    _stub_tebd(eng, rec, ctx)

    def calc_U():
        eng._U = [[None if i == 0 else _UToken(i, 1, 'random') for i in range(L)]]

    eng.calc_U = calc_U
    acc = _Account(ctx, eng, rec, t0, e0, o0)
    try:
        for c, method, n, dt in _calls(ctx, n_calls, n_max):
            mark = rec.mark()
            ret = _do_call(eng, method, n, dt)
            for i in range(1, L):
                ctx.prove(rec.bond_time.get(i, 0) - mark[1].get(i, 0) == n, 'every bond is updated exactly once per step')
            acc.after_call(method, n, dt, mark, ret)
    except StopPath:
        pass


# ------------------------------------------------------------------------------------------ TDVP
def tdvp_case(ctx, engine, n_calls, n_max, L=4):
    from tenpy.algorithms import tdvp
    cls = getattr(tdvp, engine)
    td = engine.startswith('TimeDependent')
    two_site = 'TwoSite' in engine
    M = _model(L, td)
    t0, e0, o0, start = _start(ctx)
    eng = cls(_psi(M), M, dict(start_time=t0, start_trunc_err=start, trunc_params=dict(chi_max=8), max_dt=1.e9))
    rec = _Rec(ctx, contract_ov=True)

    def prepare_update_local():
        return None

    def update_local(theta, **kwargs):
        rec.updates.append((eng.i0, eng.move_right, eng.dt))
        if two_site:
            return {'err': rec.trunc(), 'N': 1, 'U': None, 'VH': None}
        return {}

    eng.prepare_update_local = prepare_update_local
    eng.update_local = update_local
    acc = _Account(ctx, eng, rec, t0, e0, o0)
    per_sweep = (2 * (L - 2) + 1) if two_site else (2 * (L - 1) + 1)
    try:
        for c, method, n, dt in _calls(ctx, n_calls, n_max):
            mark = rec.mark()
            ret = _do_call(eng, method, n, dt)
            ups = rec.updates[mark[3]:]
            ok = ctx.prove(len(ups) == n * per_sweep, 'N_steps sweeps, each visiting every position right and left')
            ok = ctx.prove_eq(np.array([u[2] for u in ups], dtype=object), np.array([dt] * len(ups), dtype=object),
                              'every local update of the call uses the time step dt of the call') and ok
            sites = [u[0] for u in ups[:per_sweep]]
            n_pos = (L - 1) if two_site else L
            ok = ctx.prove(sites == list(range(n_pos - 1)) + list(range(n_pos - 1, -1, -1)), 'sweep schedule: left to right and back') and ok
            if not ok:
                raise StopPath()
            acc.after_call(method, n, dt, mark, ret)
    except StopPath:
        pass


# ------------------------------------------------------------------------------------------ ExpMPOEvolution
def expmpo_case(ctx, engine, order, n_calls, n_max, L=4):
    from tenpy.algorithms import mpo_evolution
    from tenpy.networks.mpo import MPO
    cls = getattr(mpo_evolution, engine)
    td = engine.startswith('TimeDependent')
    M = _model(L, td)
    t0, e0, o0, start = _start(ctx)
    rec = _Rec(ctx)

    class _UMPO:

        def __init__(self, dt, approximation):
            self.dt, self.approximation = dt, approximation

        def apply(self, psi, options):
            rec.applied.append(self.dt)
            return rec.trunc()

    def make_U(self, dt, approximation='II'):
        return _UMPO(dt, approximation)

    orig = MPO.make_U
    MPO.make_U = make_U
    try:
        eng = cls(_psi(M), M, dict(order=order, start_time=t0, start_trunc_err=start, trunc_params=dict(chi_max=8),
                                   max_dt=1.e9, max_trunc_err=1.e9))
        acc = _Account(ctx, eng, rec, t0, e0, o0)
        for c, method, n, dt in _calls(ctx, n_calls, n_max):
            mark = rec.mark()
            ret = _do_call(eng, method, n, dt)
            new = rec.applied[mark[2]:]
            tot = 0. * dt
            for a in new:
                tot = tot + a
            ok = ctx.prove(len(new) == n * order, 'order U_MPO applications per step')
            ok = ctx.prove_eq(tot, n * dt * -1.j, 'the (complex) steps of the applied U_MPO sum to -i*N_steps*dt') and ok
            if not ok:
                raise StopPath()
            acc.after_call(method, n, dt, mark, ret)
    except StopPath:
        pass
    finally:
        MPO.make_U = orig


# ------------------------------------------------------------------------------------------ schedule only
def schedule_case(ctx, order, n_steps):
    """suzuki_trotter_decomposition x suzuki_trotter_time_steps alone (static methods), dt symbolic"""
    from tenpy.algorithms.tebd import TEBDEngine
    dt = _dt(ctx, 0)
    fr = TEBDEngine.suzuki_trotter_time_steps(order)
    tot = [0. * dt, 0. * dt]
    steps = TEBDEngine.suzuki_trotter_decomposition(order, n_steps)
    for j, k in steps:
        tot[k] = tot[k] + fr[j] * dt
    exact = order in (1, 2)
    for k, nm in enumerate(('even', 'odd')):
        _close(ctx, tot[k], n_steps * dt, max(n_steps, 1), dt, f'decomposition sums to N_steps*dt on {nm} bonds', exact)
    ctx.prove(all(a[1] != b[1] for a, b in zip(steps[:-1], steps[1:])), 'even and odd layers alternate')
    ctx.prove(TEBDEngine.suzuki_trotter_decomposition(order, 0) == [], 'N_steps = 0: nothing to do')


# ------------------------------------------------------------------------------------------ cases
def CASES(tier, seed):
    thorough = tier == 'thorough'
    o = dict(max_paths=400000, max_wall_s=1500 if thorough else 200, hard_timeout_s=1700 if thorough else 230, validate_paths=2)
    # (number of calls, N_steps per call in 1..n_max): the split of the evolution into calls
    splits = [(3, 2), (2, 6)] if thorough else [(2, 3)]
    splits_td = [(2, 3)] if thorough else [(2, 2)]  # time-dependent variants re-initialise the model after every step
    splits_tdvp = [(3, 2), (2, 3)] if thorough else [(2, 3)]
    cases = []
    for order in (1, 2, 4, '4_opt'):
        for n in range(0, (6 if thorough else 3) + 1):
            cases.append(dict(name=f'schedule[order={order},N={n}]', fn='schedule_case', params=dict(order=order, n_steps=n), opts=dict(o)))

    def add(engine, fn, extra, split_list, tag):
        for n_calls, n_max in split_list:
            cases.append(dict(name=f'accounting[{engine},{tag}calls={n_calls}xN<={n_max}]', fn=fn,
                              params=dict(engine=engine, n_calls=n_calls, n_max=n_max, **extra), opts=dict(o)))

    for order in (1, 2, 4, '4_opt'):
        for engine in ('TEBDEngine', 'QRBasedTEBDEngine'):
            if engine == 'QRBasedTEBDEngine' and order not in (2, '4_opt') and not thorough:
                continue
            add(engine, 'tebd_case', dict(order=order), splits, f'order={order},')
        if order in (1, 2) or thorough:
            add('TimeDependentTEBD', 'tebd_case', dict(order=order), splits_td, f'order={order},')
    for n_calls, n_max in splits:
        cases.append(dict(name=f'accounting[RandomUnitaryEvolution,calls={n_calls}xN<={n_max}]', fn='rue_case',
                          params=dict(n_calls=n_calls, n_max=n_max), opts=dict(o)))
    cases.append(dict(name='accounting[TEBDEngine.update_imag]', fn='tebd_imag_case', params=dict(n_max=6 if thorough else 3), opts=dict(o)))
    for engine in ('TwoSiteTDVPEngine', 'SingleSiteTDVPEngine', 'TimeDependentTwoSiteTDVP', 'TimeDependentSingleSiteTDVP'):
        td = engine.startswith('TimeDependent')
        for L in (3, 4):
            add(engine, 'tdvp_case', dict(L=L), splits_td if td else splits_tdvp, f'L={L},')
    for engine in ('ExpMPOEvolution', 'TimeDependentExpMPOEvolution'):
        td = engine.startswith('TimeDependent')
        for order in (1, 2):
            add(engine, 'expmpo_case', dict(order=order), splits_td if td else splits_tdvp, f'order={order},')
    return cases
