"""C09 MPS transformations implement the documented map on states (partial claim, DESIGN 5 C09).

Oracle: the dense state of the MPS before / after, computed by the harness from the tensors
(``dense_of``: norm * S_0 B_0 B_1 ... with both outer virtual legs kept; for infinite MPS on a window of two unit cells).
Symbolic: all tensor entries, singular values (S = t*t), norms, operator entries, prefactors alpha / beta.

Claimed: apply_local_op (1-site; unitary=True with symbolic operator, unitary=None with named operators),
apply_product_op, apply_local_term (canonicalize=False; fermionic terms incl. an odd number of JW operators on
charge-conserving chains), spatial_inversion (and twice), add (symbolic alpha, beta, norms), group_sites,
enlarge_mps_unit_cell, roll_mps_unit_cell, extract_segment.
"""
import numpy as np

from catalogue import build as Bd
from catalogue import mps_factory as F

PROPERTY = 'C09'
LEVEL = 'model_checking'
BOUNDS = {
    'quick': 'apply_local_term with odd fermionic terms in every order of positions on FermionSite(parity) L=3,4 (thorough: all operator triples, FermionSite(N) L=4); canonical_form is stubbed (recording stub / no-op) wherever a routine ends with it; L<=3 (infinite: unit cell 2, window of 2 cells), chi<=2 (one chi=3 bond), SpinHalfSite(None,Sz), FermionSite(None,N), '
             'stored forms B, A and mixed, every site index / shift / segment chosen by a symbolic selector',
    'thorough': 'L=4 chi 1,2,3,2,1, SpinHalfFermionSite(N,Sz), unit cell 3, group_sites(n=3)',
}
OUTSIDE = ('canonical_form itself (factorisation chain): in the autodetect.* cases it is replaced by a recording stub in BOTH modes and only '
           'the request (whether, with which renormalize argument) and the tensors before canonicalisation are decided; '
           'everything that performs a factorisation: apply_local_op with n-site operators (from_full), swap_sites / permute_sites / '
           'compute_K, group_split, compress / compress_svd, enlarge_chi (QR), subspace_expansion, perturb, extract_enlarged_segment '
           '(calls canonical_form_finite before the boundary bookkeeping that the read candidate defect is in), canonical_form itself: '
           'where a routine ends with canonical_form (add, non-unitary apply_*), that call is replaced by a no-op in the symbolic run and '
           'the state *before* canonicalisation is compared (the concrete replay runs the real canonical_form)')
STUBS = ['BLAS contract stub', 'numpy facade for tenpy.networks.mps', 'Array.conj hook',
         'MPS.canonical_form / canonical_form_finite replaced by a no-op in the symbolic run of the cases add / apply.nonunitary',
         'psi.canonical_form replaced by a recording stub (symbolic and concrete mode) in the autodetect.* cases']
ASSUMPTIONS = ['floats are reals', 'singular values S = t*t > 0', 'apply_*: the operator does not annihilate the tensor (norm >= 1e-12; otherwise '
               'the documented ValueError is raised)']


def setup_symbolic(case):
    from symx import stubs
    import tenpy.networks.mps as M
    stubs.install_blas()
    stubs.facade_for(M)
    if case is not None and case.get('params', {}).get('stub_canonical'):
        def _noop(self, *a, **k):
            return None
        M.MPS.canonical_form = _noop
        M.MPS.canonical_form_finite = _noop


def _build(ctx, p, name='k', forms=None, **kw):
    return F.build(ctx, name, p['kind'], p['L'], p['chis'], p['bc'], forms if forms is not None else p.get('forms', 'B'),
                   cplx=True, sqrt_S=True, variant=p.get('variant', 0), **kw)


def dense_of(psi, i0=None, i1=None):
    """norm * (S_i0 B_i0 ... B_i1) from the MPS as it is now: tensors with form None are taken as stored"""
    L = psi.L
    if i0 is None:
        i0, i1 = 0, L - 1

    def ten(i, first):
        f = psi.form[i % L]
        if f is None:
            return psi.get_B(i, None).transpose(['vL', 'p', 'vR']).to_ndarray()
        return psi.get_B(i, 'Th' if first else 'B').transpose(['vL', 'p', 'vR']).to_ndarray()  # read by labels

    th = ten(i0, True)
    for i in range(i0 + 1, i1 + 1):
        th = np.tensordot(th, ten(i, False), axes=(th.ndim - 1, 0))
    return th * psi.norm


def _window(sm, cells=2):
    """finite / segment: the whole chain; infinite: `cells` unit cells (charge-free chi=2 tensors in the quick tier: L+1 sites)"""
    if sm.bc != 'infinite':
        return (0, sm.L - 1)
    return (0, cells * sm.L - 1) if cells == 2 else (0, sm.L)


def _apply_dense(th, M, k, n=1):
    """apply the matrix M (D x D on n sites) to physical legs k..k+n-1 of th (vL, p0.., vR)"""
    shp = th.shape
    D = int(np.prod(shp[1 + k:1 + k + n]))
    a = int(np.prod(shp[:1 + k]))
    b = int(np.prod(shp[1 + k + n:]))
    out = np.tensordot(M, th.reshape(a, D, b), axes=(1, 1))  # (D, a, b)
    return out.transpose(1, 0, 2).reshape(shp)


def _sym_op1(ctx, site, name='o', qtotal=None):
    op = Bd.tensor(ctx, name, [site.leg, site.leg.conj()], qtotal, cplx=True, labels=['p', 'p*'])
    return op, op.to_ndarray()


# ------------------------------------------------------------------------------------------------
def apply_op_case(ctx, **p):
    sm = _build(ctx, p)
    psi = sm.psi
    L = sm.L
    nrm = ctx.real('norm', pos=True)
    psi.norm = nrm
    w0, w1 = _window(sm, p.get('cells', 2))
    before = sm.theta(w0, w1) * nrm
    mode = p['mode']
    try:
        if mode == 'local_sym':
            i = ctx.choice('i', L) if sm.bc != 'infinite' else [-1, 0, 1, L][ctx.choice('i', 4)]
            op, M = _sym_op1(ctx, sm.sites[sm.site(i)])
            psi.apply_local_op(i, op, unitary=True, understood_infinite=True)
            want = before
            for k in range(w0, w1 + 1):
                if sm.site(k) == sm.site(i):
                    want = _apply_dense(want, M, k - w0)
        elif mode == 'local_named':
            i = ctx.choice('i', L)
            names = p['names']
            nm = names[ctx.choice('op', len(names))]
            psi.apply_local_op(i, nm, unitary=None, renormalize=False, understood_infinite=True)
            want = before
            site = sm.sites[sm.site(i)]
            jw = F.needs_JW(site, nm)
            for k in range(w0, w1 + 1):
                if sm.site(k) == sm.site(i):
                    want = _apply_dense(want, F.op_matrix(site, nm), k - w0)
                elif jw and k < i:
                    want = _apply_dense(want, F.op_matrix(sm.sites[sm.site(k)], 'JW'), k - w0)
        elif mode == 'product':
            ops = []
            Ms = []
            for i in range(L):
                if ctx.choice(f'named{i}', 2):
                    nm = p['names'][ctx.choice(f'op{i}', len(p['names']))]
                    ops.append(nm)
                    Ms.append(F.op_matrix(sm.sites[i], nm))
                else:
                    op, M = _sym_op1(ctx, sm.sites[i], f'o{i}')
                    ops.append(op)
                    Ms.append(M)
            psi.apply_product_op(ops, unitary=True)
            want = before
            for k in range(w0, w1 + 1):
                want = _apply_dense(want, Ms[sm.site(k)], k - w0)
            ctx.prove(all(f == (0., 1.) for f in psi.form), 'apply_product_op converts to B form')
        elif mode == 'term':
            terms = p['terms']
            term = [tuple(t) for t in terms[ctx.choice('term', len(terms))]]
            psi.apply_local_term(term, canonicalize=False)
            M, par = F.term_operator(sm, term, w0, w1)  # JW strings start at site w0 = 0 (finite chains)
            want = _apply_dense(before, M, 0, w1 - w0 + 1)
        else:
            raise ValueError(mode)
    except ValueError as e:
        if 'destroys state' in str(e):
            ctx.prove(True, 'documented: refuses operators that annihilate the tensor')
            return
        raise
    ctx.prove_eq(dense_of(psi, w0, w1), want, f'{mode}: dense state after == operator applied to the dense state before (norm tracked)')
    try:
        psi.test_sanity()
    except Exception as e:  # noqa
        ctx.fail(f'{mode}: the MPS passes its own test_sanity afterwards', f'{type(e).__name__}: {str(e)[:100]}')


class _Recorder:
    """stands in for psi.canonical_form (instance attribute, both modes): canonical_form itself is a chain of
    factorisations and outside the claim; what is decided is *whether* and *how* it is requested"""

    def __init__(self):
        self.calls = []

    def __call__(self, *a, **kw):
        self.calls.append((a, kw))


def _is_unitary(M):
    return float(np.max(np.abs(M @ M.conj().T - np.eye(M.shape[0])))) < 1.e-12


def autodetect_case(ctx, **p):
    """the `unitary=None` auto-detection of apply_product_op / apply_local_op and the canonicalize flag of apply_local_term"""
    sm = _build(ctx, p)
    psi = sm.psi
    L = sm.L
    rec = _Recorder()
    psi.canonical_form = rec
    nrm = ctx.real('norm', pos=True)
    psi.norm = nrm
    names = p.get('names')
    mode = p['mode']
    renorm = bool(ctx.choice('renormalize', 2))
    if mode == 'product':
        flag = [None, True, False][ctx.choice('unitary_arg', 3)] if p.get('explicit') else None
        ops = [names[ctx.choice(f'op{i}', len(names))] for i in range(L)]
        Ms = [F.op_matrix(sm.sites[i], nm) for i, nm in enumerate(ops)]
        psi.apply_product_op(list(ops), unitary=flag, renormalize=renorm)
        any_nonunitary = any(not _is_unitary(M) for M in Ms)
        ctx.note('lists_with_nonunitary_after_unitary', int(any_nonunitary and _is_unitary(Ms[[k for k, nm in enumerate(ops) if nm != 'Id'][0]])))
        if flag is None:
            if any_nonunitary:
                ctx.prove(len(rec.calls) == 1, 'apply_product_op(unitary=None): canonical_form requested when some operator is non-unitary')
            else:
                # (the tree also canonicalises when every operator is unitary: superfluous but state and norm are right, so
                # C09 does not demand the converse; see notes/C09.md)
                ctx.prove(len(rec.calls) <= 1, 'apply_product_op(unitary=None): at most one canonical_form request')
        else:
            ctx.prove(len(rec.calls) == (0 if flag else 1), 'apply_product_op(unitary=True/False): canonical_form requested iff unitary is False')
        for i in range(L):
            got = psi._B[i].transpose(['vL', 'p', 'vR']).to_ndarray()
            ctx.prove_eq(got, np.tensordot(Ms[i], sm.B(i), axes=(1, 1)).transpose(1, 0, 2), 'apply_product_op: tensor after == op . B (B form)')
    elif mode == 'local':
        i = ctx.choice('i', L)
        nm = names[ctx.choice('op', len(names))]
        M = F.op_matrix(sm.sites[i], nm)
        try:
            psi.apply_local_op(i, nm, unitary=None, renormalize=renorm, understood_infinite=True)
        except ValueError as e:
            if 'destroys state' in str(e):
                ctx.prove(True, 'documented: refuses operators that annihilate the tensor')
                return
            raise
        ctx.prove(len(rec.calls) == (0 if _is_unitary(M) else 1), 'apply_local_op(unitary=None): canonical_form requested iff the operator is non-unitary')
        for j in range(L):
            got = psi._B[j].transpose(['vL', 'p', 'vR']).to_ndarray()
            want = sm.Tdense(j) if j != i else np.tensordot(M, sm.Tdense(j), axes=(1, 1)).transpose(1, 0, 2)
            ctx.prove_eq(got, want, 'apply_local_op: stored tensor after == op . stored tensor on site i, untouched elsewhere')
        ctx.prove(list(psi.form) == list(sm.forms), 'apply_local_op keeps the recorded forms')
    elif mode == 'term':
        terms = p['terms']
        term = [tuple(t) for t in terms[ctx.choice('term', len(terms))]]
        canon = bool(ctx.choice('canonicalize', 2))
        try:
            psi.apply_local_term(term, canonicalize=canon, renormalize=renorm)
        except ValueError as e:
            if 'destroys state' in str(e):
                ctx.prove(True, 'documented: refuses operators that annihilate the tensor')
                return
            raise
        ctx.prove(len(rec.calls) == (1 if canon else 0), 'apply_local_term: canonical_form requested iff canonicalize')
        w0, w1 = 0, L - 1
        M, par = F.term_operator(sm, term, w0, w1)
        ctx.prove_eq(dense_of(psi, w0, w1), _apply_dense(sm.theta(w0, w1) * nrm, M, 0, L), 'apply_local_term: dense state before canonicalisation == term applied')
    else:
        raise ValueError(mode)
    for a, kw in rec.calls:
        ctx.prove(a == () and kw == {'renormalize': renorm}, 'canonical_form is called with the renormalize argument of the caller')
    ctx.prove(psi.norm is nrm, 'the norm attribute is only changed by canonical_form')


def inversion_case(ctx, **p):
    sm = _build(ctx, p)
    psi = sm.psi
    L = sm.L
    before = sm.theta(0, L - 1)
    stored = [T.copy() for T in sm.Td]
    forms0 = list(psi.form)
    r = psi.spatial_inversion()
    ctx.prove(r is psi, 'spatial_inversion returns self')
    ctx.prove(list(psi.sites) == list(sm.sites[::-1]), 'sites reversed')
    ctx.prove(list(psi.form) == [(f[1], f[0]) for f in forms0[::-1]], 'forms reversed and mirrored')
    got = dense_of(psi)
    want = before.transpose(list(range(before.ndim))[::-1])
    if sm.bc == 'infinite':
        # the window state S_0 B_0 .. B_{L-1} of the mirrored chain is Gamma..S read backwards: A-form product times S_L
        pass
    ctx.prove_eq(got, want, 'spatial_inversion: dense state == dense state with the order of all legs reversed')
    psi.spatial_inversion()
    ctx.prove(list(psi.form) == forms0 and list(psi.sites) == list(sm.sites), 'twice: forms / sites restored')
    for i in range(L):
        ctx.prove_eq(psi._B[i].to_ndarray(), stored[i], 'spatial_inversion twice restores every stored tensor')
    for a, b in zip(psi._S, sm.S):
        ctx.prove_eq(a, b, 'spatial_inversion twice restores the singular values')


def add_case(ctx, **p):
    """alpha |a> + beta |b> (the final canonical_form_finite is a no-op in the symbolic run)"""
    a = _build(ctx, p, 'a')
    b = F.same_structure(ctx, 'b', a, sqrt_S=True)
    na, nb = ctx.real('norm_a', pos=True), ctx.real('norm_b', pos=True)
    a.psi.norm, b.psi.norm = na, nb
    # a vanishing prefactor is a path of its own (shortcut in iscale_prefactor); (0, 0) gives the zero vector, which
    # canonical_form cannot normalise, and is excluded
    zsel = ctx.choice('zero_prefactor', 3)
    alpha = ctx.cplx('alpha') if zsel != 1 else 0.
    beta = ctx.cplx('beta') if zsel != 2 else 0.
    if zsel != 1:
        ctx.assume(alpha != 0)
    if zsel != 2:
        ctx.assume(beta != 0)
    da, db = a.full_state() * na, b.full_state() * nb
    res = a.psi.add(b.psi, alpha, beta)
    got = dense_of(res)
    # the sum lives on the direct sum of the outer virtual spaces for segment b.c.; for finite b.c. the outer legs are trivial
    if a.bc == 'finite':
        ctx.prove_eq(got, alpha * da + beta * db, 'add: dense state == alpha |a> + beta |b> (norms included)')
    for i in range(a.L):
        ctx.prove_eq(a.psi._B[i].to_ndarray(), a.Td[i], 'add leaves the first operand unchanged')
        ctx.prove_eq(b.psi._B[i].to_ndarray(), b.Td[i], 'add leaves the second operand unchanged')
    ctx.prove(list(res.sites) == list(a.sites) and res.bc == a.bc, 'add: sites / bc of the result')


def group_case(ctx, **p):
    sm = _build(ctx, p)
    psi = sm.psi
    L = sm.L
    n = p['n']
    w0, w1 = 0, L - 1
    Bs = [sm.B(i) for i in range(L)]
    psi.group_sites(n)
    ctx.prove(psi.L == -(-L // n) and psi.grouped == n, 'group_sites: new length, grouped counter')
    k = ctx.choice('k', psi.L)
    T = psi._B[k].copy(deep=True)
    nk = psi.sites[k].n_sites
    ctx.prove(T.get_leg_labels() == ['vL', 'p', 'vR'] and all(f == (0., 1.) for f in psi.form), 'grouped tensors: labels and B form')
    T.iset_leg_labels(['vL', '(' + '.'.join(f'p{j}' for j in range(nk)) + ')', 'vR'])
    T = T.split_legs(1)
    want = Bs[k * n]
    for j in range(1, nk):
        want = np.tensordot(want, Bs[k * n + j], axes=(want.ndim - 1, 0))
    ctx.prove_eq(T.to_ndarray(), want, 'group_sites: grouped tensor, split again, == B_i B_{i+1} ... (B form)')
    ctx.prove_eq(psi.get_SL(k), sm.S[sm.bond(k * n)], 'group_sites keeps the singular values of the remaining bonds')
    try:
        psi.sites[k].leg.test_equal(psi._B[k].get_leg('p'))
        psi.test_sanity()
    except ValueError as e:
        ctx.fail('group_sites: physical leg equals the GroupedSite leg / test_sanity', str(e)[:80])
    # an operator of the GroupedSite acts on the right sub-site
    if p.get('opname'):
        j = ctx.choice('sub', nk)
        nm = p['opname']
        ev = psi.expectation_value(f'{nm}{j}', sites=[k])
        th = sm.theta(k * n, k * n + nk - 1)
        mats = [F.op_matrix(sm.sites[sm.site(k * n + jj)], nm if jj == j else 'Id') for jj in range(nk)]
        ctx.prove_eq(ev, np.array([F.expect(th, F.kron_all(mats), th)]), 'grouped MPS: <op_j> of the GroupedSite == <op> on sub-site j')


def unitcell_case(ctx, **p):
    sm = _build(ctx, p)
    psi = sm.psi
    L = sm.L
    mode = p['mode']
    if mode == 'enlarge':
        factor = 2 + ctx.choice('factor', 2)
        before = sm.theta(0, factor * L - 1)
        psi.enlarge_mps_unit_cell(factor)
        ctx.prove(psi.L == factor * L and psi.unit_cell_width == factor * L and len(psi._S) == factor * L, 'enlarge_mps_unit_cell: new sizes')
        ctx.prove(list(psi.form) == list(sm.forms) * factor, 'enlarge_mps_unit_cell: forms repeated')
        ctx.prove_eq(dense_of(psi, 0, factor * L - 1), before, 'enlarge_mps_unit_cell: same state on the enlarged cell')
        ctx.prove_eq(dense_of(psi, factor * L - 1, factor * L), sm.theta(factor * L - 1, factor * L), 'enlarge_mps_unit_cell: same state across the new cell boundary')
    elif mode == 'roll':
        shifts = [1, -1, 2, L + 1]
        sh = shifts[ctx.choice('shift', len(shifts))]
        # documented: new unit cell [D, A, B, C] for shift=1, i.e. new site i is old site i - shift
        before = sm.theta(-sh, 2 * L - 1 - sh)
        psi.roll_mps_unit_cell(sh)
        ctx.prove(list(psi.sites) == [sm.sites[(i - sh) % L] for i in range(L)], 'roll_mps_unit_cell: sites rolled')
        ctx.prove_eq(dense_of(psi, 0, 2 * L - 1), before, 'roll_mps_unit_cell: new site i carries the state of old site i - shift')
        psi.test_sanity()
    elif mode == 'segment':
        if sm.bc == 'infinite':
            pairs = [(0, L - 1), (1, L), (-1, L), (L, 2 * L)]
        else:
            pairs = [(a, b) for a in range(L) for b in range(a, L)]
        first, last = pairs[ctx.choice('seg', len(pairs))]
        nrm = ctx.real('norm', pos=True)
        psi.norm = nrm
        seg = psi.extract_segment(first, last)
        ctx.prove(seg.bc == 'segment' and seg.L == last - first + 1 and seg.norm is nrm, 'extract_segment: bc, length, norm')
        ctx.prove(list(seg.sites) == [sm.sites[sm.site(i)] for i in range(first, last + 1)], 'extract_segment: sites')
        ctx.prove_eq(dense_of(seg), sm.theta(first, last) * nrm, 'extract_segment: state on the segment == window state of the original')
        ctx.prove_eq(seg.get_SL(0), sm.S[sm.bond(first)], 'extract_segment: left-most singular values')
        ctx.prove_eq(seg.get_SR(seg.L - 1), sm.S[sm.bond(last + 1)], 'extract_segment: right-most singular values')
        for i in range(L):
            ctx.prove_eq(psi._B[i].to_ndarray(), sm.Td[i], 'extract_segment leaves the original unchanged')
        # independence: writing into the copy does not change the original
        seg._B[0]._data[0][...] = 0
        ctx.prove_eq(psi._B[sm.site(first)].to_ndarray(), sm.Td[sm.site(first)], 'extract_segment returns independent tensor data')
    else:
        raise ValueError(mode)


# ------------------------------------------------------------------------------------------------
def _geoms(tier):
    g = [
        dict(kind='spin', L=3, chis=[1, 2, 2, 1], bc='finite'),
        dict(kind='fermN', L=3, chis=[1, 2, 3, 1], bc='finite', variant=1),
        dict(kind='spinSz', L=2, chis=[2, 2, 2], bc='segment', variant=1),
        dict(kind='spin', L=2, chis=[2, 2, 2], bc='infinite'),
        dict(kind='fermN', L=2, chis=[2, 2, 2], bc='infinite'),
    ]
    if tier == 'thorough':
        g += [
            dict(kind='ferm', L=4, chis=[1, 2, 3, 2, 1], bc='finite'),
            dict(kind='shfNSz', L=3, chis=[1, 3, 3, 1], bc='finite', variant=1),
            dict(kind='spinSz', L=3, chis=[2, 2, 2, 2], bc='infinite', variant=1),
            dict(kind='ferm', L=3, chis=[2, 3, 2, 2], bc='segment'),
        ]
    return g


def _gname(g):
    return f"{g['kind']},L={g['L']},chi={'-'.join(map(str, g['chis']))},{g['bc']}"


def CASES(tier, seed):
    cases = []
    thorough = tier == 'thorough'
    O = dict(max_paths=4000, max_wall_s=1500 if thorough else 200, validate_paths=3, hard_timeout_s=1700 if thorough else 230)

    def add(name, fn, g, **kw):
        prm = dict(g)
        prm.update(kw)
        if g['bc'] == 'infinite' and g['kind'] in ('spin', 'ferm') and not thorough:
            prm['cells'] = 1
        o = dict(O)
        if fn == 'apply_op_case':
            # `opB.norm() < 1e-12` is a non-linear feasibility question (sum of squares < 1e-24) the solver answers `unknown`;
            # a short time-out makes the engine explore both sides (over-approximation; the ValueError side is accepted)
            o['branch_timeout_ms'] = 1500
        cases.append(dict(name=name, fn=fn, params=prm, opts=o))

    # apply_local_term with an odd number of fermionic operators listed in EVERY order of positions: the string to the left of
    # the left-most site is represented through the virtual charges (N or parity conservation)
    import itertools
    odd_geoms = [dict(kind='fermP', L=3, chis=[1, 2, 2, 1], bc='finite'), dict(kind='fermP', L=4, chis=[1, 2, 2, 2, 1], bc='finite'),
                 dict(kind='fermN', L=4, chis=[1, 2, 3, 2, 1], bc='finite', variant=1)]
    for g in odd_geoms:
        L = g['L']
        if L == 4 and g['kind'] == 'fermN' and not thorough:
            continue  # sized by CPU time (each term forks on `norm < 1e-12` per site)
        sels = (('Cd', 'N'), ('C', 'dN'), ('Cd', 'C', 'Cd'), ('C', 'Cd', 'N'), ('C', 'C', 'Cd'))
        if L == 4 and not thorough:
            sels = (('Cd', 'N'), ('Cd', 'C', 'Cd'))
        terms = []
        for opsel in sels:
            for pos in itertools.permutations(range(L), len(opsel)):
                terms.append([(o, q) for o, q in zip(opsel, pos)])
        for forms in ('B', (['A', 'B', 'Th', 'C'] * 2)[:L]):
            if L == 4 and forms != 'B' and not thorough:
                continue
            add(f"apply_local_term.odd_unsorted[forms={'B' if forms == 'B' else 'mixed'}][{_gname(g)}]", 'apply_op_case', g, mode='term', terms=terms, forms=forms)
            cases[-1]['opts']['branch_timeout_ms'] = 600
    for g in _geoms(tier):
        gn = _gname(g)
        kind, L, bc = g['kind'], g['L'], g['bc']
        mixed = (['A', 'B', 'Th', 'C'] * 2)[:L]
        spinlike = kind.startswith('spin')
        if spinlike:
            unitary_names = ['Sigmaz'] if kind != 'spin' else ['Sigmax', 'Sigmay', 'Sigmaz']
            nonunitary = ['Sp', 'Sz']
            terms = [[('Sp', 0), ('Sm', 1)], [('Sz', 1), ('Sp', 0), ('Sz', 0)]] + ([[('Sm', 2), ('Sp', 0)]] if L >= 3 else [])
        elif kind.startswith('ferm'):
            # 'JW' itself carries a JW string: refused for infinite MPS and where the signs cannot be read off the charges
            unitary_names = ['JW'] if (bc != 'infinite' and kind != 'ferm') else ['Id']
            nonunitary = ['N', 'Cd'] if bc == 'finite' and kind != 'ferm' else ['N']
            terms = [[('Cd', 0), ('C', 1)], [('C', 1), ('Cd', 0)], [('N', 0), ('Cd', 1), ('C', 1)]] + ([[('Cd', 2), ('C', 0)]] if L >= 3 else [])
            if bc == 'finite' and kind != 'ferm':
                terms += [[('Cd', 1)], [('C', 0), ('N', 1)]] + ([[('Cd', 2), ('N', 0)]] if L >= 3 else [])  # odd number of JW operators
        else:
            unitary_names = ['JW'] if kind == 'shfNSz' else ['Id']
            nonunitary = ['Nu']
            terms = [[('Cdu', 0), ('Cu', 1)], [('Cd', 1), ('Cdd', 0)], [('Cdu', 1)]]
        for forms in ('B', mixed):
            fn_ = 'B' if forms == 'B' else 'mixed'
            add(f'apply_local_op.symbolic_unitary_flag[forms={fn_}][{gn}]', 'apply_op_case', g, mode='local_sym', forms=forms)
            add(f'apply_local_op.named_unitary[forms={fn_}][{gn}]', 'apply_op_case', g, mode='local_named', names=unitary_names, forms=forms)
            add(f'apply_product_op[forms={fn_}][{gn}]', 'apply_op_case', g, mode='product', names=unitary_names, forms=forms)
            if bc != 'infinite':
                add(f'apply_local_term[forms={fn_}][{gn}]', 'apply_op_case', g, mode='term', terms=terms, forms=forms)
        # auto-detection of unitarity / canonicalize flag (canonical_form replaced by a recording stub)
        if spinlike:
            alphabet = ['Sigmaz', 'Id', 'Sz', 'Sp', 'Sm'] + (['Sigmax'] if kind in ('spin', 'spinP') else [])
        elif kind.startswith('ferm'):
            alphabet = ['Id', 'N', 'dN']  # ('JW' carries a string: apply_op_case)
        else:
            alphabet = ['Id', 'Nu', 'Sz'] if kind.startswith('shf') else ['Id']
        if kind != 'spin+ferm':
            add(f'autodetect.apply_product_op[{gn}]', 'autodetect_case', g, mode='product', names=alphabet)
            add(f'autodetect.apply_product_op.explicit_flag[{gn}]', 'autodetect_case', g, mode='product', names=alphabet[:3], explicit=True)
            add(f'autodetect.apply_local_op[{gn}]', 'autodetect_case', g, mode='local', names=alphabet, forms=mixed)
            cases[-1]['opts']['branch_timeout_ms'] = 1500
            if bc != 'infinite':
                add(f'autodetect.apply_local_term[{gn}]', 'autodetect_case', g, mode='term', terms=terms)
                cases[-1]['opts']['branch_timeout_ms'] = 1500
        if bc == 'finite':
            add(f'apply_local_op.nonunitary[{gn}]', 'apply_op_case', g, mode='local_named', names=nonunitary, stub_canonical=True)
            add(f'add[{gn}]', 'add_case', g, stub_canonical=True)
        if bc != 'infinite':
            for forms in ('B', 'A', mixed):
                fn_ = forms if isinstance(forms, str) else 'mixed'
                add(f'spatial_inversion[forms={fn_}][{gn}]', 'inversion_case', g, forms=forms)
        else:
            add(f'spatial_inversion[forms=mixed][{gn}]', 'inversion_case', g, forms=mixed)
        for forms in ('B', mixed):
            fn_ = 'B' if forms == 'B' else 'mixed'
            for n in ((2, ) if not thorough else (2, 3)):
                if n > L:
                    continue
                add(f'group_sites[n={n},forms={fn_}][{gn}]', 'group_case', g, n=n, forms=forms, opname='Sz' if spinlike else ('N' if kind.startswith('ferm') else 'Nu'))
            add(f'extract_segment[forms={fn_}][{gn}]', 'unitcell_case', g, mode='segment', forms=forms)
            if bc == 'infinite':
                add(f'enlarge_mps_unit_cell[forms={fn_}][{gn}]', 'unitcell_case', g, mode='enlarge', forms=forms)
                add(f'roll_mps_unit_cell[forms={fn_}][{gn}]', 'unitcell_case', g, mode='roll', forms=forms)
    return cases
