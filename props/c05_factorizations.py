"""C05 Matrix factorisations are exact, structured and charge-compatible (tenpy's part, modulo LAPACK contracts).

The real `np_conserved.svd / qr / lq / eigh / eig / eigvalsh / eigvals / speigs / expm / pinv / polar / orthogonal_columns`
run on matrices with symbolic entries; every per-block LAPACK call returns fresh symbols constrained by the
documented contract only (`symx/lapack.py`).  What is decided is tenpy's block / charge bookkeeping around LAPACK.

Tier A: every charge of every leg block (and qtotal, qtotal_LR, qtotal_Q) is a symbolic integer, so legs that are
not sorted / not bunched / not blocked (hidden LegPipe and back), sectors present on one side only, empty tensors
... are *paths*.  Tier B: concrete charge structures (listed in STRUCTS) with a symbolic flag per allowed block that
decides whether the block is stored (missing blocks), complex entries, non-zero qtotal, Z_N charges.

The concrete replay runs the same functions with the real LAPACK, so every obligation is phrased on the outputs
(U S V against A, ...), never on stub symbols.
"""
import itertools

import numpy as np

from catalogue import build as Bd

PROPERTY = 'C05'
LEVEL = 'model_checking'
BOUNDS = {
    'quick': 'rank-2 tensors; Tier A: 2 blocks per leg (sizes 1-2), one charge with mod in {1,2,3}, both leg directions, symbolic '
             'qtotal / qtotal_LR / qtotal_Q; Tier B: the structures in STRUCTS (<= 3 blocks per leg, block sizes <= 2, U1, Z2, Z3, U1xZ2), '
             'every subset of stored blocks, real and complex entries; options enumerated: full_matrices, compute_uv, cutoff (symbolic), '
             'qtotal_LR (none/L/R/both/inconsistent), inner_qconj, inner_labels, mode, pos_diag_R/L, qtotal_Q, sort, UPLO, polar left',
    'thorough': 'additionally Tier A with 3 blocks per leg and two charges (U1 x Z2), complex Tier A, 3x3 blocks in Tier B',
}
OUTSIDE = ('numerical accuracy of LAPACK / ARPACK and the NaN fallback driver (anynan is stubbed to False for symbolic blocks); float '
           'rounding in `cutoff`; the ordering `which` of speigs; compiled kernels (C04); charges beyond int64')
STUBS = [
    'symx/lapack.py: svd_flat -> U diag(S) V = A, U^dag U = 1 (+ U U^dag = 1 if square), V V^dag = 1 (+ V^dag V = 1 if square), '
    'S >= 0 descending, S[0] = 0 iff A = 0',
    'symx/lapack.py: np.linalg.qr -> Q R = A, Q isometry (unitary if square), R upper triangular with real diagonal (geqrf), '
    'r_jj = 0 iff column j of A vanishes',
    'symx/lapack.py: qr_li -> keeps k = generic rank of the block (rank is a harness input: blocks built as X.Y), Q R = A exactly, '
    'Q isometry, R in row echelon form on the generic pivot columns, real diagonal with |r_jj| > cutoff on leading pivots',
    'symx/lapack.py: np.linalg.eigh -> H V = V diag(W), V unitary, W real ascending (H from the UPLO triangle); eigvalsh -> same W',
    'symx/lapack.py: np.linalg.eig -> A V = V diag(W), columns of V normalised; eigvals -> same W',
    'symx/lapack.py: scipy.linalg.expm -> fresh symbols, functional per path, expm(0) = 1',
    'symx/lapack.py: tools.math.speigs (_sp_speigs) -> min(k, d) eigenpairs of the given block, A V = V diag(W), columns normalised',
    'symx/stubs.py: BLAS contract, numpy facade on np_conserved / tools.misc (np.real, np.abs, np.conj, linalg.norm on object arrays)',
    'symx/ideal.py: obligations that are combinations (monomial multipliers, rational coefficients found by z3, re-checked '
    'exactly) of the contract hypotheses',
]
ASSUMPTIONS = [
    'floats are reals, charges mathematical integers',
    'LAPACK returns an exactly vanishing diagonal entry r_jj of R exactly when column j of the block is zero (exact for j = 0; for j > 0 '
    'this restricts exact rank deficiency to zero columns)',
    'every stub is functional per path (same block -> same factors): LAPACK is deterministic',
    'cutoff > 0 symbolic; the comparison S > cutoff is a fork (no rounding)',
    'cutoff cases of qr / lq and svd[cut=f]: every stored block has exactly the rank chosen by the harness (its generic rank) and its '
    'non-vanishing singular values / pivots exceed the fixed cutoff 1e-10',
]

# ------------------------------------------------------------------------------------------------------------------
# Tier B charge structures: (mods, leg0 = (sizes, charges, qconj), leg1 = ... | 'conj', qtotal)
STRUCTS = {
    # blocked, sorted U(1); sector 2 only on the left, sector -1 only on the right
    'u1': dict(mods=[1], l0=([2, 1, 1], [[0], [1], [2]], 1), l1=([1, 1, 2], [[-1], [0], [1]], -1), qtotal=[0]),
    # not blocked: repeated / unsorted charges -> hidden pipes on both legs
    'u1_unblocked': dict(mods=[1], l0=([1, 1, 1], [[1], [0], [1]], 1), l1=([1, 2], [[1], [0]], -1), qtotal=[0]),
    # non-zero total charge, same direction on both legs
    'u1_qtot': dict(mods=[1], l0=([1, 2], [[0], [1]], 1), l1=([2, 1], [[0], [1]], 1), qtotal=[1]),
    'z2': dict(mods=[2], l0=([2, 1], [[0], [1]], -1), l1=([1, 2], [[1], [0]], 1), qtotal=[1]),
    'z3': dict(mods=[3], l0=([1, 1, 1], [[0], [1], [2]], 1), l1=([1, 2], [[2], [0]], -1), qtotal=[2]),
    'u1z2': dict(mods=[1, 2], l0=([1, 2], [[0, 1], [1, 0]], 1), l1=([2, 1], [[0, 1], [1, 0]], -1), qtotal=[0, 0]),
    # square, contractible legs, zero total charge (eig, eigh, expm)
    'sq_u1': dict(mods=[1], l0=([2, 1, 1], [[0], [1], [3]], 1), l1='conj', qtotal=[0]),
    'sq_u1_unblocked': dict(mods=[1], l0=([1, 1, 1], [[1], [0], [1]], -1), l1='conj', qtotal=[0]),
    'sq_z3': dict(mods=[3], l0=([1, 2], [[2], [1]], 1), l1='conj', qtotal=[0]),
    'sq_u1z2': dict(mods=[1, 2], l0=([2, 1], [[0, 1], [-1, 0]], 1), l1='conj', qtotal=[0, 0]),
    # two charges, sectors agree pairwise in one component (speigs); 'sq_u1z2_3' has a 3-dim block (ARPACK in the concrete run)
    'sq_u1z2_b': dict(mods=[1, 2], l0=([1, 2, 1], [[0, 0], [0, 1], [1, 0]], 1), l1='conj', qtotal=[0, 0]),
    'sq_u1z2_m': dict(mods=[1, 2], l0=([2, 1, 2], [[0, 1], [1, 1], [1, 0]], -1), l1='conj', qtotal=[0, 0]),
    'sq_u1z2_3': dict(mods=[1, 2], l0=([3, 1], [[0, 1], [0, 0]], 1), l1='conj', qtotal=[0, 0]),
    # tall matrices for orthogonal_columns (M > N)
    'tall_u1': dict(mods=[1], l0=([2, 2, 1], [[0], [1], [2]], 1), l1=([1, 1], [[0], [1]], -1), qtotal=[0]),
    'tall_unblocked': dict(mods=[1], l0=([1, 2, 1], [[1], [0], [1]], 1), l1=([1, 1], [[1], [0]], -1), qtotal=[0]),
    # thorough tier
    'u1_big': dict(mods=[1], l0=([3, 2], [[0], [1]], 1), l1=([2, 3], [[0], [1]], -1), qtotal=[0]),
    'sq_u1_big': dict(mods=[1], l0=([3, 1], [[0], [1]], 1), l1='conj', qtotal=[0]),
}
# Tier A shapes: block sizes per leg (charges symbolic)
SHAPES_A = {
    'a22': dict(s0=[1, 2], s1=[2, 1]),
    'a21': dict(s0=[1, 1], s1=[2]),
    'a33': dict(s0=[1, 1, 1], s1=[1, 2, 1]),
    'asq2': dict(s0=[1, 2], square=True),
    'asq3': dict(s0=[1, 1, 1], square=True),
    'atall': dict(s0=[2, 1], s1=[1, 1]),
}


def setup_symbolic(case):
    from symx import lapack, stubs
    import tenpy.tools.misc as misc
    lapack.install()
    stubs.facade_for(misc, widen=False)
    if case.get('params', {}).get('tier', 'B') == 'A':
        stubs.install_symbolic_charges()


# ------------------------------------------------------------------------------------------------------------------
def npc():
    return Bd.npc()


def dag(x):
    return np.conj(np.asarray(x)).T


def D(T):
    return T.to_ndarray()


def build(ctx, tier, struct, mods=None, qconjs=(1, -1), cplx=False, subset='all', qtotal='zero', hermitian=False, lowrank=False):
    """the input matrix; returns (A, chinfo)"""
    if tier == 'A':
        sh = SHAPES_A[struct]
        ch = Bd.chinfo(mods)
        l0 = Bd.leg(ctx, 'l0', sh['s0'], ch, qconjs[0])
        l1 = l0.conj() if sh.get('square') else Bd.leg(ctx, 'l1', sh['s1'], ch, qconjs[1])
        qt = Bd.qvec(ctx, 'qt', ch) if qtotal == 'sym' else None
    else:
        st = STRUCTS[struct]
        ch = Bd.chinfo(st['mods'])
        s0, c0, q0 = st['l0']
        l0 = Bd.leg(ctx, 'l0', s0, ch, q0, tier='B', concrete_charges=c0)
        if st['l1'] == 'conj':
            l1 = l0.conj()
        else:
            s1, c1, q1 = st['l1']
            l1 = Bd.leg(ctx, 'l1', s1, ch, q1, tier='B', concrete_charges=c1)
        qt = np.array(st['qtotal'], dtype=np.int64)
    A = Bd.tensor(ctx, 'a', [l0, l1], qt, cplx=cplx, labels=['vL', 'vR'], subset=subset)
    if lowrank:
        set_block_ranks(ctx, A, cplx)
    if hermitian:
        Ad = A.conj().itranspose()
        Ad.iset_leg_labels(['vL', 'vR'])
        A = A + Ad
        A.iset_leg_labels(['vL', 'vR'])
    ctx.note('stored_blocks', A.stored_blocks)
    if A.stored_blocks:
        ctx.note('nonempty_inputs')
    if not (A.legs[0].is_blocked() and A.legs[1].is_blocked()):
        ctx.note('inputs_with_unblocked_leg')
    return A, ch


def set_block_ranks(ctx, A, cplx):
    """the rank of every stored block becomes a harness input: a symbolic selector r in 0..min(m,n) per block; for r below
    min(m,n) the block is replaced by a product X.Y with inner dimension r (r = 0: a stored block of zeros), so that the
    symbolic run (stubs keep the generic rank, symx.lapack.generic_rank) and the concrete replay (a true rank-r block for the
    real LAPACK) agree on the number of kept columns / singular values"""
    for i, (blk, qi) in enumerate(zip(A._data, A._qdata)):
        m, n = blk.shape
        tag = 'a' + ''.join(str(int(q)) for q in qi)
        r = ctx.choice('rk_' + tag, min(m, n) + 1)
        ctx.note(f'block_rank_{r}_of_{min(m, n)}')
        if r == min(m, n):
            continue
        if r == 0:
            A._data[i] = np.zeros((m, n), dtype=blk.dtype) if not ctx.symbolic else _obj_zeros((m, n))
            continue
        X = ctx.array('X' + tag, (m, r), cplx=cplx)
        Y = ctx.array('Y' + tag, (r, n), cplx=cplx)
        A._data[i] = np.dot(X, Y)


def _obj_zeros(shape):
    from symx.scalars import R
    z = np.empty(shape, dtype=object)
    for idx in np.ndindex(*shape):
        z[idx] = R({})
    return z


def qvalue(ctx, tier, name, ch, const=1):
    """a total charge to request: symbolic (Tier A) or the concrete valid vector (const, const, ...)"""
    if tier == 'A':
        return Bd.qvec(ctx, name, ch)
    return ch.make_valid(np.array([const] * ch.qnumber, dtype=np.int64))


def charge_rule(ctx, T, what, suffix=''):
    """own formula: every stored block satisfies sum_legs charge*qconj == qtotal (mod), plus tenpy's own test_sanity.
    Returns False if the tensor is not even structurally sane (later dense checks are then skipped)."""
    try:
        T.test_sanity()
    except (ValueError, AssertionError) as e:
        ctx.fail(f'{what}: test_sanity{suffix}', (str(e) or type(e).__name__)[:120])
        return False
    ch = T.chinfo
    for qi in T._qdata:
        tot = sum(T.legs[k].charges[int(q)] * T.legs[k].qconj for k, q in enumerate(qi))
        ctx.prove(Bd.valid_mod(ctx, np.asarray(tot - T.qtotal), ch), f'{what}: charge rule on every stored block{suffix}')
    for blk, qi in zip(T._data, T._qdata):
        shp = tuple(int(T.legs[k].slices[int(q) + 1] - T.legs[k].slices[int(q)]) for k, q in enumerate(qi))
        ctx.prove(tuple(blk.shape) == shp, f'{what}: block shapes match the legs')
    return True


def has_nan(ctx, *tensors):
    """NaN / inf in the stored blocks (symbolic mode: the poison value of a division by an exact zero)"""
    for T in tensors:
        for blk in T._data:
            if ctx.symbolic:
                if any(getattr(v, 'poison', False) for v in blk.reshape(-1)):
                    return True
            elif not np.all(np.isfinite(blk)):
                return True
    return False


def sectors_covered(ctx, A, axis):
    """own formula: every charge value occurring on leg `axis` of A has at least one stored block"""
    leg = A.legs[axis]
    have = [leg.charges[int(q)] for q in A._qdata[:, axis]]
    for b in range(leg.block_number):
        if not any(Bd.eq_all(ctx, leg.charges[b], h) for h in have):
            return False
    return True


def same_qtotal(ctx, T, q, ch, what):
    ctx.prove_eq(np.asarray(T.qtotal), np.asarray(ch.make_valid(q)), what)


def contractible(ctx, la, lb, what):
    """tenpy's own test and the formula: same slices, charge*qconj opposite for every index"""
    try:
        la.test_contractible(lb)
    except ValueError as e:
        ctx.fail(what + ' (test_contractible)', str(e)[:100])
        return
    ctx.prove(la.ind_len == lb.ind_len and np.array_equal(la.slices, lb.slices), what + ' (slices)')
    if la.ind_len:
        tot = la.to_qflat() * la.qconj + lb.to_qflat() * lb.qconj
        ctx.prove(Bd.valid_mod(ctx, tot.reshape(-1), _Rep(la.chinfo)), what + ' (charges opposite per index)')


class _Rep:
    """make_valid on a flattened (n*qnumber) vector"""

    def __init__(self, ch):
        self.ch = ch
        self.qnumber = ch.qnumber
        self.mod = ch.mod

    def make_valid(self, x):
        x = np.asarray(x).reshape(-1, self.ch.qnumber)
        return self.ch.make_valid(x)


def same_leg(ctx, la, lb, what):
    try:
        la.test_equal(lb)
    except ValueError as e:
        ctx.fail(what, str(e)[:100])
        return
    ctx.prove(True, what)


def is_identity(ctx, X, label):
    X = np.asarray(X)
    return ctx.prove_eq(X, np.eye(X.shape[0]), label)


def unchanged(ctx, A, dA0, what):
    ctx.prove_eq(D(A), dA0, f'{what}: operand unchanged')


# ------------------------------------------------------------------------------------------------------------------
QLR_MODES = ('none', 'L', 'R', 'both', 'bad')
# (use qtotal_Q, inner_qconj, inner_labels): pairwise covering
QR_COMBOS = ((False, 1, [None, None]), (True, -1, ['iL', 'iR']), (True, 1, [None, None]), (False, -1, ['iL', 'iR']))


def svd_case(ctx, tier, struct, mods=None, qconjs=(1, -1), cplx=False, subset='all', qtotal='zero', full_matrices=False,
             compute_uv=True, cutoff=False, qlr=None):
    N = npc()
    fixed = cutoff == 'fixed'  # fixed small cutoff and blocks of chosen rank: the kept number is determined by the inputs
    A, ch = build(ctx, tier, struct, mods, qconjs, cplx, subset, qtotal, lowrank=fixed)
    dA = D(A)
    modes = tuple(qlr) if qlr else QLR_MODES
    mode = modes[ctx.choice('qLR', len(modes))]
    inner_qconj, lab = ((1, [None, None]), (-1, ['iL', 'iR']))[ctx.choice('iqc_lab', 2)]
    qL = qvalue(ctx, tier, 'qL', ch) if mode in ('L', 'both', 'bad') else None
    qR = qvalue(ctx, tier, 'qR', ch, 2) if mode == 'R' else None
    if mode == 'both':
        qR = ch.make_valid(A.qtotal - qL)
    elif mode == 'bad':
        qR = ch.make_valid(A.qtotal - qL + 1)
    exp_L = ch.make_valid(A.qtotal - A.qtotal) if mode == 'none' else (qL if qL is not None else ch.make_valid(A.qtotal - qR))
    exp_R = A.qtotal if mode == 'none' else (qR if qR is not None else ch.make_valid(A.qtotal - qL))
    cut = (1.e-10 if fixed else ctx.real('cutoff', pos=True)) if cutoff else None
    kw = dict(qtotal_LR=[qL, qR], inner_labels=lab, inner_qconj=inner_qconj)
    tag = f'svd[fm={int(full_matrices)},uv={int(compute_uv)},cut={"f" if fixed else int(bool(cutoff))}]'

    # documented argument errors
    if full_matrices and ((not compute_uv) or cutoff):
        try:
            N.svd(A, full_matrices, compute_uv, cut, **kw)
            ctx.fail(f'{tag}: contradictory options must raise ValueError')
        except ValueError:
            ctx.prove(True, f'{tag}: contradictory options raise ValueError')
        return
    if mode == 'bad':
        try:
            N.svd(A, full_matrices, compute_uv, cut, **kw)
            ctx.fail(f'{tag}: inconsistent qtotal_LR must raise ValueError')
        except ValueError:
            ctx.prove(True, f'{tag}: inconsistent qtotal_LR raises ValueError')
        return

    # reference run without cutoff (the stubs are functional, LAPACK is deterministic)
    try:
        S0 = N.svd(A, False, False, None, **kw)
    except RuntimeError:
        S0 = None
        ctx.prove(A.stored_blocks == 0, f'{tag}: "no singular values" is raised without cutoff only for a tensor without stored blocks')
        ctx.note('svd_of_empty_tensor_raises')
    if fixed and S0 is not None:
        for s in S0:  # the non-vanishing singular values of the rank-r blocks are well above the fixed cutoff (ASSUMPTIONS)
            ctx.assume(ctx.Or(s == 0, s > cut))
    try:
        res = N.svd(A, full_matrices, compute_uv, cut, **kw)
    except RuntimeError:
        if S0 is None:
            return
        if cut is None:
            ctx.fail(f'{tag}: RuntimeError although singular values exist')
            return
        for s in S0:
            ctx.prove(s <= cut, f'{tag}: "no singular values" raised only if none exceeds the cutoff')
        return
    if S0 is None:
        ctx.fail(f'{tag}: inconsistent RuntimeError between compute_uv=False and this call')
        return
    unchanged(ctx, A, dA, tag)
    if not compute_uv:
        S = res
        keep = [i for i, s in enumerate(S0) if cut is None or bool(s > cut)]
        ctx.prove_eq(S, S0[keep], f'{tag}: compute_uv=False returns the singular values above the cutoff')
        for s in S:
            ctx.prove(s >= 0, f'{tag}: S >= 0')
        return
    U, S, V = res
    ctx.note('svd_results')
    for s in S:
        ctx.prove(s >= 0, f'{tag}: S >= 0')
        if cut is not None:
            ctx.prove(s > cut, f'{tag}: kept singular values exceed the cutoff')
    sfxL = sfxR = ''
    if full_matrices:
        zero = ch.make_valid()
        if not Bd.eq_all(ctx, ch.make_valid(exp_L), zero):
            sfxL = ' [full_matrices with qtotal_L != 0]'
        if not Bd.eq_all(ctx, ch.make_valid(exp_R), zero):
            sfxR = ' [full_matrices with qtotal_R != 0]'
    okU = charge_rule(ctx, U, f'{tag}: U', sfxL)
    okV = charge_rule(ctx, V, f'{tag}: VH', sfxR)
    if not (okU and okV):
        return
    same_qtotal(ctx, U, exp_L, ch, f'{tag}: U.qtotal == requested qtotal_L')
    same_qtotal(ctx, V, exp_R, ch, f'{tag}: VH.qtotal == requested qtotal_R')
    ctx.prove(U.get_leg_labels() == ['vL', lab[0]] and V.get_leg_labels() == [lab[1], 'vR'], f'{tag}: labels')
    same_leg(ctx, U.legs[0], A.legs[0], f'{tag}: U keeps the left leg of A')
    same_leg(ctx, V.legs[1], A.legs[1], f'{tag}: VH keeps the right leg of A')
    dU, dV = D(U), D(V)
    if full_matrices:
        ctx.prove(dU.shape == (dA.shape[0], dA.shape[0]) and dV.shape == (dA.shape[1], dA.shape[1]), f'{tag}: shapes (M,M), (N,N)')
        mL = '' if sectors_covered(ctx, A, 0) else ' [a charge sector of the left leg has no stored block]'
        mR = '' if sectors_covered(ctx, A, 1) else ' [a charge sector of the right leg has no stored block]'
        is_identity(ctx, np.dot(dag(dU), dU), f'{tag}: U unitary (U^dagger U = 1){mL}')
        is_identity(ctx, np.dot(dU, dag(dU)), f'{tag}: U unitary (U U^dagger = 1){mL}')
        is_identity(ctx, np.dot(dV, dag(dV)), f'{tag}: VH unitary (VH VH^dagger = 1){mR}')
        is_identity(ctx, np.dot(dag(dV), dV), f'{tag}: VH unitary (VH^dagger VH = 1){mR}')
        return
    K = len(S)
    ctx.prove(dU.shape == (dA.shape[0], K) and dV.shape == (K, dA.shape[1]), f'{tag}: shapes (M,K), (K,N)')
    contractible(ctx, U.get_leg(1), V.get_leg(0), f'{tag}: new inner legs contractible')
    ctx.prove(V.legs[0].qconj == inner_qconj and U.legs[1].qconj == -inner_qconj, f'{tag}: inner_qconj honoured')
    is_identity(ctx, np.dot(dag(dU), dU), f'{tag}: U isometry')
    is_identity(ctx, np.dot(dV, dag(dV)), f'{tag}: VH isometry')
    if cut is None:
        ctx.prove_eq(np.dot(dU * S[np.newaxis, :], dV), dA, f'{tag}: U diag(S) VH == A')
        return
    # with cutoff: exactly the part of the full decomposition whose singular values exceed the cutoff
    U0, S0b, V0 = N.svd(A, False, True, None, **kw)
    keep = [i for i, s in enumerate(S0b) if bool(s > cut)]
    for i, s in enumerate(S0b):
        if i not in keep:
            ctx.prove(s <= cut, f'{tag}: discarded singular values do not exceed the cutoff')
    ctx.prove_eq(S, S0b[keep], f'{tag}: kept singular values = those above the cutoff')
    ctx.prove_eq(dU, D(U0)[:, keep], f'{tag}: U = columns of the full U above the cutoff')
    ctx.prove_eq(dV, D(V0)[keep, :], f'{tag}: VH = rows of the full VH above the cutoff')
    ctx.prove_eq(V.legs[0].to_qflat(), V0.legs[0].to_qflat()[keep], f'{tag}: inner charges = those of the kept singular values')


# ------------------------------------------------------------------------------------------------------------------
def qr_case(ctx, tier, struct, mods=None, qconjs=(1, -1), cplx=False, subset='all', qtotal='zero', mode='reduced', cutoff=False,
            pos_diag=False, lq=False):
    N = npc()
    A, ch = build(ctx, tier, struct, mods, qconjs, cplx, subset, qtotal, lowrank=bool(cutoff))
    dA = D(A)
    combos = QR_COMBOS if tier == 'B' else QR_COMBOS[:2]
    use_qQ, inner_qconj, lab = combos[ctx.choice('opt', len(combos))]
    qQ = qvalue(ctx, tier, 'qQ', ch) if use_qQ else None
    # the cutoff of qr is a fixed small number and the rank of every stored block is an input (set_block_ranks): the stub
    # keeps the generic rank, the real qr_li keeps the same number of columns of the true rank-r block, Q R == A to rounding
    cut = 1.e-10 if cutoff else None
    fname = 'lq' if lq else 'qr'
    tag = f'{fname}[mode={mode},cut={int(cutoff)},pos={int(pos_diag)}]'
    blocked = A.legs[0].is_blocked() and A.legs[1].is_blocked()
    if lq:
        L, Q = N.lq(A, mode=mode, inner_labels=lab, cutoff=cut, pos_diag_L=pos_diag, qtotal_Q=qQ, inner_qconj=inner_qconj)
        # A = L Q  <=>  A^T = Q^T L^T : transposed factors play the roles of Q and R
        Qm, Rm = Q.transpose(), L.transpose()
        ctx.prove(L.get_leg_labels() == ['vL', lab[0]] and Q.get_leg_labels() == [lab[1], 'vR'], f'{tag}: labels')
        same_leg(ctx, L.legs[0], A.legs[0], f'{tag}: L keeps the left leg of A')
        same_leg(ctx, Q.legs[1], A.legs[1], f'{tag}: Q keeps the right leg of A')
        contractible(ctx, L.get_leg(1), Q.get_leg(0), f'{tag}: new inner legs contractible')
        ctx.prove(L.legs[1].qconj == inner_qconj, f'{tag}: inner_qconj honoured')
        dAm = dA.T
    else:
        Qm, Rm = N.qr(A, mode=mode, inner_labels=lab, cutoff=cut, pos_diag_R=pos_diag, qtotal_Q=qQ, inner_qconj=inner_qconj)
        ctx.prove(Qm.get_leg_labels() == ['vL', lab[0]] and Rm.get_leg_labels() == [lab[1], 'vR'], f'{tag}: labels')
        same_leg(ctx, Qm.legs[0], A.legs[0], f'{tag}: Q keeps the left leg of A')
        same_leg(ctx, Rm.legs[1], A.legs[1], f'{tag}: R keeps the right leg of A')
        contractible(ctx, Qm.get_leg(1), Rm.get_leg(0), f'{tag}: new inner legs contractible')
        ctx.prove(Rm.legs[0].qconj == inner_qconj, f'{tag}: inner_qconj honoured')
        dAm = dA
    ctx.note('qr_results')
    unchanged(ctx, A, dA, tag)
    if has_nan(ctx, Qm, Rm):
        ctx.fail(f'{tag}: NaN in the factors (division by a vanishing diagonal entry of R)')
        return
    okQ = charge_rule(ctx, Qm, f'{tag}: Q')
    okR = charge_rule(ctx, Rm, f'{tag}: R')
    if not (okQ and okR):
        return
    zero = ch.make_valid(A.qtotal - A.qtotal)
    same_qtotal(ctx, Qm, qQ if use_qQ else zero, ch, f'{tag}: Q.qtotal == requested qtotal_Q')
    same_qtotal(ctx, Rm, A.qtotal - (qQ if use_qQ else zero), ch, f'{tag}: R.qtotal == A.qtotal - qtotal_Q')
    dQ, dR = D(Qm), D(Rm)
    M, Nn = dAm.shape
    if mode == 'complete':
        ctx.prove(dQ.shape == (M, M) and dR.shape == (M, Nn), f'{tag}: shapes (M,M), (M,N)')
    else:
        ctx.prove(dQ.shape[0] == M and dR.shape[1] == Nn and dQ.shape[1] == dR.shape[0] and dQ.shape[1] <= min(M, Nn),
                  f'{tag}: shapes (M,K), (K,N), K <= min(M,N)')
    ctx.prove_eq(np.dot(dQ, dR), dAm, f'{tag}: Q R == A')
    is_identity(ctx, np.dot(dag(dQ), dQ), f'{tag}: Q isometry (Q^dagger Q = 1)')
    if mode == 'complete':
        is_identity(ctx, np.dot(dQ, dag(dQ)), f'{tag}: Q unitary, identity on sectors without stored block (Q Q^dagger = 1)')
    if blocked:
        # documented: upper triangular if both legs are sorted by charge (here: per stored block)
        for blk in Rm._data:
            low = [blk[i, j] for i in range(blk.shape[0]) for j in range(min(i, blk.shape[1]))]
            if low:
                ctx.prove_eq(np.array(low, dtype=blk.dtype), np.zeros(len(low)), f'{tag}: R upper triangular per block')
            if pos_diag:
                # positive, except that a diagonal entry of a rank deficient block can only be made non-negative: zero is
                # accepted exactly for a zero column of the block of A (the exact rank deficiency inside the claim, ASSUMPTIONS)
                sl1 = Rm.legs[1].slices
                qj = int(Rm._qdata[[id(b) for b in Rm._data].index(id(blk)), 1])
                for k in range(min(blk.shape)):
                    d = blk[k, k]
                    ctx.prove_eq(np.imag(d) if not ctx.symbolic else d.imag, 0., f'{tag}: diagonal of R real')
                    dr = d.real if ctx.symbolic else np.real(d)
                    col = dAm[:, int(sl1[qj]) + k]
                    colzero = ctx.And(*[x == 0 for x in col]) if len(col) else True
                    ctx.prove(dr >= 0, f'{tag}: diagonal of R non-negative')
                    ctx.prove(ctx.Or(dr > 0, colzero), f'{tag}: diagonal of R positive unless the column of A vanishes')


# ------------------------------------------------------------------------------------------------------------------
SORTS = (None, 'm>', 'm<', '>', '<')


def _sorted_ok(ctx, w, sort):
    """formula: the 1D array w is ordered as `sort` documents (None: ascending as returned by LAPACK for eigh)"""
    ok = True
    for a, b in zip(w[:-1], w[1:]):
        if sort == 'm>':
            ok = ctx.And(ok, _abs2(ctx, a) >= _abs2(ctx, b))
        elif sort == 'm<':
            ok = ctx.And(ok, _abs2(ctx, a) <= _abs2(ctx, b))
        elif sort == '>':
            ok = ctx.And(ok, _re(ctx, a) >= _re(ctx, b))
        else:
            ok = ctx.And(ok, _re(ctx, a) <= _re(ctx, b))
    return ok


def _re(ctx, x):
    return x.real if ctx.symbolic else np.real(x)


def _abs2(ctx, x):
    if ctx.symbolic:
        from symx.scalars import R
        return R.lift(x).abs2()
    return abs(x)**2


def eig_case(ctx, tier, struct, mods=None, qconjs=(1, -1), cplx=False, subset='all', hermitian=True, sort=None, UPLO='L'):
    N = npc()
    A, ch = build(ctx, tier, struct, mods, qconjs, cplx, subset, 'zero', hermitian=hermitian)
    dA = D(A)
    fname = 'eigh' if hermitian else 'eig'
    tag = f'{fname}[sort={sort}' + (f',UPLO={UPLO}]' if hermitian else ']')
    if hermitian:
        ctx.prove_eq(dag(dA), dA, f'{tag}: harness input is hermitian')
        W, V = N.eigh(A, UPLO, sort)
        W2 = N.eigvalsh(A, UPLO, sort)
    else:
        W, V = N.eig(A, sort)
        W2 = N.eigvals(A, sort)
    ctx.note('eig_results')
    unchanged(ctx, A, dA, tag)
    dV = D(V)
    n = dA.shape[0]
    ctx.prove(dV.shape == (n, n) and len(W) == n, f'{tag}: shapes')
    ctx.prove_eq(np.dot(dA, dV), dV * np.asarray(W)[np.newaxis, :], f'{tag}: A V == V diag(W)')
    if hermitian:
        is_identity(ctx, np.dot(dag(dV), dV), f'{tag}: V unitary (V^dagger V = 1)')
        is_identity(ctx, np.dot(dV, dag(dV)), f'{tag}: V unitary (V V^dagger = 1)')
        for w in W:
            ctx.prove_eq(_im(ctx, w), 0., f'{tag}: eigenvalues real')
    else:
        g = np.dot(dag(dV), dV)
        ctx.prove_eq(np.array([g[k, k] for k in range(n)]), np.ones(n), f'{tag}: eigenvectors normalised')
    ctx.prove_eq(W2, W, f'{fname[:3]}vals{"h" if hermitian else ""}[sort={sort}]: equals the eigenvalues of {fname}')
    charge_rule(ctx, V, f'{tag}: V')
    same_qtotal(ctx, V, ch.make_valid(), ch, f'{tag}: V.qtotal == 0')
    ctx.prove(V.get_leg_labels() == ['vL', 'eig'], f'{tag}: labels')
    same_leg(ctx, V.legs[0], A.legs[0], f'{tag}: V keeps the left leg of A')
    contractible(ctx, V.legs[1], V.conj().legs[1], f'{tag}: eig leg contractible with its conjugate')
    # sorted as documented within every charge block of the 'eig' leg
    sl = V.legs[1].slices
    for b in range(V.legs[1].block_number):
        w = W[int(sl[b]):int(sl[b + 1])]
        if len(w) > 1 and (hermitian or sort is not None):
            ctx.prove(_sorted_ok(ctx, w, sort), f'{tag}: eigenvalues sorted within each charge block')


def _im(ctx, x):
    if ctx.symbolic:
        from symx.scalars import R
        return R.lift(x).imag
    return np.imag(x)


def eig_qtotal_case(ctx, tier, struct, mods=None, qconjs=(1, -1)):
    """documented: non-trivial qtotal -> ValueError / NotImplementedError"""
    N = npc()
    A, ch = build(ctx, tier, struct, mods, qconjs, False, 'all', 'zero')
    q1 = qvalue(ctx, tier, 'q1', ch)
    nontrivial = not Bd.eq_all(ctx, ch.make_valid(q1), ch.make_valid())
    B = A.gauge_total_charge(0, q1)
    for nm, f, exc in (('eigh', N.eigh, ValueError), ('eig', N.eig, ValueError), ('eigvalsh', N.eigvalsh, ValueError),
                       ('eigvals', N.eigvals, ValueError), ('expm', N.expm, (NotImplementedError, ValueError))):
        try:
            f(B)
            raised = False
        except exc:
            raised = True
        ctx.prove(raised == nontrivial, f'{nm}: raises exactly for non-trivial qtotal / non-contractible legs')


# ------------------------------------------------------------------------------------------------------------------
def _expm_flat(ctx, blk):
    if ctx.symbolic:
        from symx import lapack
        import scipy.linalg
        return lapack.install()['expm'](np.asarray(blk, dtype=object))
    import scipy.linalg
    return scipy.linalg.expm(blk)


def expm_case(ctx, tier, struct, mods=None, qconjs=(1, -1), cplx=False, subset='all'):
    N = npc()
    A, ch = build(ctx, tier, struct, mods, qconjs, cplx, subset, 'zero')
    dA = D(A)
    E = N.expm(A)
    ctx.note('expm_results')
    unchanged(ctx, A, dA, 'expm')
    charge_rule(ctx, E, 'expm: result')
    same_qtotal(ctx, E, ch.make_valid(), ch, 'expm: qtotal == 0')
    ctx.prove(E.get_leg_labels() == A.get_leg_labels(), 'expm: labels')
    same_leg(ctx, E.legs[0], A.legs[0], 'expm: left leg')
    same_leg(ctx, E.legs[1], A.legs[1], 'expm: right leg')
    # oracle: exp of a matrix that commutes with the charge is the direct sum of the exponentials of its charge sectors;
    # sectors are found here from the flat charges of the leg (independent of tenpy's blocking / pipes)
    qf = A.legs[0].to_qflat()
    n = dA.shape[0]
    todo = list(range(n))
    ref = np.zeros((n, n), dtype=dA.dtype)
    while todo:
        i0 = todo[0]
        idx = [i for i in todo if Bd.eq_all(ctx, qf[i], qf[i0])]
        todo = [i for i in todo if i not in idx]
        ref[np.ix_(idx, idx)] = _expm_flat(ctx, dA[np.ix_(idx, idx)])
    ctx.prove_eq(D(E), ref, 'expm: direct sum of the exponentials of the charge sectors (identity where no block is stored)')


# ------------------------------------------------------------------------------------------------------------------
def speigs_case(ctx, tier, struct, mods=None, qconjs=(1, -1), cplx=True, subset='choose', k=1, eigv=True):
    """npc.speigs(a, charge_sector, k): the eigensolver gets the block of exactly the requested sector, the vectors are
    eigenvectors of `a` living in that sector with qtotal == charge_sector"""
    N = npc()
    A, ch = build(ctx, tier, struct, mods, qconjs, cplx, subset, 'zero')
    dA = D(A)
    leg = A.legs[0]
    n = leg.ind_len
    tag = f'speigs[k={k}]'
    mode = ctx.choice('sector', leg.block_number + 1)
    if mode == leg.block_number:  # a sector that is (possibly) absent from the leg
        sector = qvalue(ctx, tier, 'qs', ch, 3)
    else:
        sector = ch.make_valid(leg.get_charge(mode))
    qf = leg.to_qflat()
    idx = [i for i in range(n) if Bd.eq_all(ctx, ch.make_valid(qf[i] * leg.qconj), ch.make_valid(sector))]
    blocked = leg.is_blocked()
    stored = any(int(leg.slices[int(a)]) in idx and int(leg.slices[int(b)]) in idx for a, b in A._qdata)
    real_declared = (not cplx) and blocked
    if ctx.symbolic and real_declared:
        # model of the declared dtype: the concrete twin of this tensor is float64 (its entries are real symbols); tenpy derives
        # the dtype of the returned vectors from it.  (Only on blocked legs: no hidden pipe that would allocate float buffers.)
        A.dtype = np.dtype(np.float64)
    try:
        res = N.speigs(A, sector, k, return_eigenvectors=eigv) if not eigv else N.speigs(A, sector, k)
    except ValueError:
        ctx.prove(not idx, f'{tag}: ValueError only for a charge sector that is absent from the leg')
        return
    except TypeError as e:
        ctx.fail(f'{tag}: TypeError' + (' [no stored block in the requested sector]' if not stored else ''), str(e)[:100])
        return
    finally:
        if ctx.symbolic:
            A.dtype = np.dtype(object)
    ctx.note('speigs_results')
    ctx.prove(bool(idx), f'{tag}: an absent charge sector raises ValueError')
    unchanged(ctx, A, dA, tag)
    restr = dA[np.ix_(idx, idx)]
    if ctx.symbolic and stored:
        import symx.engine as E
        given = E.cur().__dict__.get('_speigs_blocks', [])
        ctx.prove(len(given) >= 1, f'{tag}: the eigensolver is called for a stored block')
        if given:
            ctx.prove_eq(given[-1], restr, f'{tag}: the block handed to the eigensolver is the restriction of a to the requested sector')
    Wall = res if not eigv else res[0]
    if not ctx.symbolic and stored:
        # concrete twin of the obligation above: the eigenvalues are eigenvalues of the restriction of a to the requested sector
        ex = np.linalg.eigvals(restr)
        scale = max(1., float(np.max(np.abs(ex)))) if len(ex) else 1.
        ctx.prove(all(np.min(np.abs(ex - w)) < 1.e-8 * scale for w in Wall),
                  f'{tag}: the block handed to the eigensolver is the restriction of a to the requested sector')
    if not eigv:
        W = res
        ctx.prove(len(W) == min(k, len(idx)), f'{tag}: min(k, dimension of the sector) eigenvalues')
        return
    W, V = res
    ctx.prove(len(W) == len(V) == min(k, len(idx)), f'{tag}: min(k, dimension of the sector) eigenpairs')
    for w, v in zip(W, V):
        if real_declared or not ctx.symbolic:
            ok = v.dtype.kind in 'cO' if ctx.symbolic else all(np.can_cast(b.dtype, v.dtype, 'same_kind') for b in v._data)
            if not ok:
                ctx.fail(f'{tag}: eigenvector declared with a real dtype holds complex data [real input]')
                return
        if ctx.symbolic:
            v.dtype = np.dtype(object)
        if not charge_rule(ctx, v, f'{tag}: eigenvector'):
            return
        same_qtotal(ctx, v, sector, ch, f'{tag}: eigenvector has qtotal == charge_sector')
        same_leg(ctx, v.legs[0], A.legs[0], f'{tag}: eigenvector lives on the first leg of a')
        dv = D(v)
        ctx.prove_eq(np.dot(dA, dv), w * dv, f'{tag}: a v == w v')
        out = [i for i in range(n) if i not in idx]
        ctx.prove_eq(dv[out], np.zeros(len(out)), f'{tag}: eigenvector vanishes outside the requested sector')
        ctx.prove_eq(np.dot(restr, dv[idx]), w * dv[idx], f'{tag}: (w, v) is an eigenpair of the restriction of a to the sector')
        ctx.prove_eq(np.sum(np.conj(dv) * dv), 1., f'{tag}: eigenvector normalised')


# ------------------------------------------------------------------------------------------------------------------
def pinv_case(ctx, tier, struct, mods=None, qconjs=(1, -1), cplx=False, subset='all', qtotal='zero', mp=True):
    N = npc()
    A, ch = build(ctx, tier, struct, mods, qconjs, cplx, subset, qtotal)
    dA = D(A)
    cut = ctx.real('cutoff', pos=True)
    try:
        P = N.pinv(A, cut)
    except RuntimeError:
        try:
            S0 = N.svd(A, compute_uv=False)
        except RuntimeError:
            ctx.prove(A.stored_blocks == 0, 'pinv: "no singular values" without stored blocks')
            return
        for s in S0:
            ctx.prove(s <= cut, 'pinv: "no singular values" raised only if none exceeds the cutoff')
        return
    ctx.note('pinv_results')
    unchanged(ctx, A, dA, 'pinv')
    charge_rule(ctx, P, 'pinv: result')
    contractible(ctx, P.legs[1], A.legs[0], 'pinv: second leg contractible with first leg of A')
    contractible(ctx, P.legs[0], A.legs[1], 'pinv: first leg contractible with second leg of A')
    same_qtotal(ctx, P, -A.qtotal, ch, 'pinv: qtotal == -A.qtotal')
    ctx.prove(P.get_leg_labels() == ['vR*', 'vL*'], 'pinv: labels')
    dP = D(P)
    # documented definition: (U diag(1/S) VH)^dagger of svd(a, cutoff)
    U, S, V = N.svd(A, cutoff=cut)
    dU, dV = D(U), D(V)
    ctx.prove_eq(dP, dag(np.dot(dU * (1. / S)[np.newaxis, :], dV)), 'pinv: equals (U diag(1/S) VH)^dagger of svd(a, cutoff)')
    if not mp:
        return
    # Moore-Penrose identities that hold for every cutoff
    AP = np.dot(dA, dP)
    PA = np.dot(dP, dA)
    ctx.prove_eq(dag(AP), AP, 'pinv: A P hermitian')
    ctx.prove_eq(dag(PA), PA, 'pinv: P A hermitian')
    ctx.prove_eq(np.dot(dP, AP), dP, 'pinv: P A P == P')
    S0 = N.svd(A, compute_uv=False)
    if len(S0) == len(S):
        ctx.note('pinv_nothing_cut')
        ctx.prove_eq(np.dot(AP, dA), dA, 'pinv: A P A == A when no singular value is cut')


# ------------------------------------------------------------------------------------------------------------------
def polar_case(ctx, tier, struct, mods=None, qconjs=(1, -1), cplx=False, subset='all', qtotal='zero', left=False):
    N = npc()
    A, ch = build(ctx, tier, struct, mods, qconjs, cplx, subset, qtotal)
    dA = D(A)
    lab = [None, None] if ctx.choice('lab', 2) == 0 else ['iL', 'iR']
    tag = f'polar[left={int(left)}]'
    try:
        S0 = N.svd(A, compute_uv=False)
    except RuntimeError:
        S0 = None
    try:
        u, p, s = N.polar(A, left=left, inner_labels=lab)
    except RuntimeError:
        if S0 is None:
            ctx.prove(A.stored_blocks == 0, f'{tag}: "no singular values" without stored blocks')
        else:
            for x in S0:
                ctx.prove(x <= 1.e-16, f'{tag}: "no singular values" raised only if none exceeds the cutoff')
        return
    ctx.note('polar_results')
    unchanged(ctx, A, dA, tag)
    charge_rule(ctx, u, f'{tag}: u')
    charge_rule(ctx, p, f'{tag}: p')
    du, dp = D(u), D(p)
    ctx.prove_eq(dag(dp), dp, f'{tag}: p hermitian')
    same_leg(ctx, u.legs[0], A.legs[0], f'{tag}: u keeps the left leg of A')
    same_leg(ctx, u.legs[1], A.legs[1], f'{tag}: u keeps the right leg of A')
    same_qtotal(ctx, u, A.qtotal, ch, f'{tag}: u.qtotal == A.qtotal')
    same_qtotal(ctx, p, ch.make_valid(), ch, f'{tag}: p.qtotal == 0')
    if left:
        contractible(ctx, p.legs[1], u.legs[0], f'{tag}: p contractible with u')
    else:
        contractible(ctx, u.legs[1], p.legs[0], f'{tag}: u contractible with p')
    for x in s:
        ctx.prove(x > 1.e-16, f'{tag}: returned singular values exceed the cutoff')
    # documented construction from svd(a, cutoff): u = W VH, p = VH^dagger s VH  |  W s W^dagger
    W, s2, VH = N.svd(A, cutoff=1.e-16, inner_labels=lab)
    dW, dVH = D(W), D(VH)
    ctx.prove_eq(s, s2, f'{tag}: s are the singular values')
    ctx.prove_eq(du, np.dot(dW, dVH), f'{tag}: u == W VH')
    if left:
        ctx.prove_eq(dp, np.dot(dW * s2[np.newaxis, :], dag(dW)), f'{tag}: p == W diag(s) W^dagger')
    else:
        ctx.prove_eq(dp, np.dot(dag(dVH) * s2[np.newaxis, :], dVH), f'{tag}: p == VH^dagger diag(s) VH')
    if S0 is not None and len(S0) == len(s):
        ctx.note('polar_nothing_cut')
        ctx.prove_eq(np.dot(dp, du) if left else np.dot(du, dp), dA, f'{tag}: ' + ('p u == A' if left else 'u p == A'))


# ------------------------------------------------------------------------------------------------------------------
def ortho_case(ctx, tier, struct, mods=None, qconjs=(1, -1), cplx=False, subset='all', qtotal='zero'):
    N = npc()
    A, ch = build(ctx, tier, struct, mods, qconjs, cplx, subset, qtotal)
    dA = D(A)
    lab = None if ctx.choice('lab', 2) == 0 else 'new'
    M, Nn = dA.shape
    if M < Nn:
        try:
            N.orthogonal_columns(A, lab)
            ctx.fail('orthogonal_columns: M < N must raise ValueError')
        except ValueError:
            ctx.prove(True, 'orthogonal_columns: M < N raises ValueError')
        return
    O = N.orthogonal_columns(A, lab)
    ctx.note('ortho_results')
    unchanged(ctx, A, dA, 'orthogonal_columns')
    charge_rule(ctx, O, 'orthogonal_columns: result')
    dO = D(O)
    ctx.prove(O.get_leg_labels() == ['vL', lab if lab is not None else 'vR'], 'orthogonal_columns: labels')
    same_leg(ctx, O.legs[0], A.legs[0], 'orthogonal_columns: keeps the left leg of A')
    same_qtotal(ctx, O, A.qtotal, ch, 'orthogonal_columns: qtotal == A.qtotal')
    ctx.prove(O.legs[1].qconj == A.legs[1].qconj, 'orthogonal_columns: qconj of the new leg')
    if M == Nn:
        ctx.prove(dO.shape == (M, 0), 'orthogonal_columns: square input gives an empty result')
        return
    ctx.prove(dO.shape[0] == M and dO.shape[1] >= M - Nn, 'orthogonal_columns: at least M-N columns')
    is_identity(ctx, np.dot(dag(dO), dO), 'orthogonal_columns: orthonormal columns')
    ctx.prove_eq(np.dot(dag(dO), dA), np.zeros((dO.shape[1], Nn)), 'orthogonal_columns: orthogonal to the columns of A')


# ------------------------------------------------------------------------------------------------------------------
def CASES(tier, seed):
    cases = []
    thorough = tier == 'thorough'
    O = dict(max_paths=60000, max_wall_s=500, validate_paths=2, hard_timeout_s=600, skip_repeated_violation=True, ideal_timeout_ms=20000)
    if thorough:
        O = dict(max_paths=400000, max_wall_s=2600, validate_paths=2, hard_timeout_s=2800, skip_repeated_violation=True,
                 ideal_timeout_ms=60000, prove_timeout_ms=120000)
    seen = set()

    def add(fn, name, **params):
        if name in seen:
            return
        seen.add(name)
        o = dict(O)
        if params.get('cutoff') == 'fixed':
            o['generic_rank_exact'] = True
        cases.append(dict(name=name, fn=fn, params=params, opts=o))

    def c_(cplx):
        return 'c' if cplx else 'r'

    def svd(tr, st, cplx=False, fm=False, uv=True, cut=False, **kw):
        ctag = 'f' if cut == 'fixed' else int(bool(cut))
        add('svd_case', f'{tr}.svd[{st},{kw.pop("tag", c_(cplx))},fm={int(fm)},uv={int(uv)},cut={ctag}]', tier=tr, struct=st, cplx=cplx,
            full_matrices=fm, compute_uv=uv, cutoff=cut, **kw)

    def qr(tr, st, cplx=False, mode='reduced', cut=False, pos=False, lq=False, **kw):
        add('qr_case', f'{tr}.{"lq" if lq else "qr"}[{st},{kw.pop("tag", c_(cplx))},mode={mode},cut={int(cut)},pos={int(pos)}]', tier=tr,
            struct=st, cplx=cplx, mode=mode, cutoff=cut, pos_diag=pos, lq=lq, **kw)

    def eig(tr, st, cplx=False, herm=True, sort=None, UPLO='L', **kw):
        nm = f'{tr}.{"eigh" if herm else "eig"}[{st},{kw.pop("tag", c_(cplx))},sort={sort}' + (f',UPLO={UPLO}]' if herm else ']')
        add('eig_case', nm, tier=tr, struct=st, cplx=cplx, hermitian=herm, sort=sort, UPLO=UPLO, **kw)

    def simple(fn, fname, tr, st, cplx=False, **kw):
        extra = ''.join(f',{k}={int(v)}' for k, v in kw.items() if k == 'left')
        add(fn, f'{tr}.{fname}[{st},{kw.pop("tag", c_(cplx))}{extra}]', tier=tr, struct=st, cplx=cplx, **kw)

    B = dict(subset='choose')
    # ------------------------------------------------------------------ Tier B
    for cplx in (False, True):
        for fm, uv, cut in ((False, True, False), (True, True, False), (False, True, True)):
            svd('B', 'u1', cplx, fm, uv, cut, **B)
    for fm, uv, cut in ((False, False, False), (False, False, True), (True, False, False), (True, True, True)):
        svd('B', 'u1', False, fm, uv, cut, **B)
    for fm, uv, cut in ((False, True, False), (True, True, False), (False, True, True)):
        svd('B', 'u1_unblocked', False, fm, uv, cut, **B)
    svd('B', 'u1_unblocked', True, **B)
    svd('B', 'u1_qtot', False, **B)
    svd('B', 'u1_qtot', False, fm=True, **B)
    svd('B', 'u1_qtot', True, cut=True, **B)
    svd('B', 'z2', False, **B)
    svd('B', 'z2', False, cut=True, **B)
    svd('B', 'z3', False, **B)
    svd('B', 'z3', False, fm=True, **B)
    svd('B', 'u1z2', False, **B)
    # fixed cutoff, rank of every block chosen by the harness (kept number input determined)
    svd('B', 'u1', False, cut='fixed', **B)
    svd('B', 'u1', True, cut='fixed', uv=False, **B)
    svd('B', 'u1_unblocked', False, cut='fixed', **B)
    svd('B', 'u1_qtot', False, cut='fixed', **B)
    for mode, pos in itertools.product(('reduced', 'complete'), (False, True)):
        qr('B', 'u1', False, mode, False, pos, **B)
        qr('B', 'u1', False, mode, False, pos, lq=True, **B)
    qr('B', 'u1', False, 'reduced', True, False, **B)
    qr('B', 'u1', False, 'reduced', True, True, **B)
    qr('B', 'u1', False, 'complete', True, False, **B)  # (known finding; only on a structure where it is input-determined)
    qr('B', 'u1', False, 'reduced', True, False, lq=True, **B)
    qr('B', 'u1', True, 'reduced', False, True, **B)
    qr('B', 'u1', True, 'complete', False, False, **B)
    for mode, cut, pos in (('reduced', False, False), ('complete', False, False), ('reduced', False, True), ('reduced', True, False)):
        qr('B', 'u1_unblocked', False, mode, cut, pos, **B)
    qr('B', 'u1_unblocked', False, lq=True, **B)
    qr('B', 'u1_qtot', False, **B)
    qr('B', 'u1_qtot', False, 'complete', False, True, **B)
    qr('B', 'u1_qtot', False, 'reduced', True, False, **B)  # 2x2 block of chosen rank 0, 1, 2 with cutoff
    qr('B', 'u1_qtot', True, 'reduced', True, True, **B)
    qr('B', 'u1_qtot', False, 'reduced', True, False, lq=True, **B)
    qr('B', 'u1_qtot', True, **B)
    qr('B', 'z2', False, **B)
    qr('B', 'z2', False, 'complete', **B)
    qr('B', 'z2', False, 'complete', lq=True, **B)
    qr('B', 'z3', False, 'complete', **B)
    qr('B', 'z3', False, 'reduced', False, True, **B)
    qr('B', 'u1z2', False, **B)
    for st, cplx in (('u1', False), ('u1', True), ('u1_unblocked', False), ('u1_qtot', False), ('z2', False), ('z3', False), ('u1z2', False)):
        simple('pinv_case', 'pinv', 'B', st, cplx, **B)
        simple('polar_case', 'polar', 'B', st, cplx, left=False, **B)
        simple('polar_case', 'polar', 'B', st, cplx, left=True, **B)
    simple('polar_case', 'polar', 'B', 'sq_u1', False, left=False, **B)
    simple('polar_case', 'polar', 'B', 'sq_u1', False, left=True, **B)
    for sort in SORTS:
        eig('B', 'sq_u1', False, True, sort, **B)
        eig('B', 'sq_u1', False, False, sort, **B)
    for sort in (None, 'm>'):
        eig('B', 'sq_u1', False, True, sort, 'U', **B)
        eig('B', 'sq_u1', True, False, sort, **B)
    for sort in (None, 'm>', '<'):
        eig('B', 'sq_u1', True, True, sort, **B)
    for sort in (None, 'm<', '>'):
        eig('B', 'sq_u1_unblocked', False, True, sort, **B)
    for sort in (None, '<'):
        eig('B', 'sq_u1_unblocked', False, False, sort, **B)
        eig('B', 'sq_u1z2', False, True, sort, **B)
    eig('B', 'sq_z3', False, True, None, **B)
    eig('B', 'sq_z3', False, True, 'm>', 'U', **B)
    eig('B', 'sq_z3', False, False, '>', **B)
    eig('B', 'sq_u1z2', False, False, None, **B)
    for st in ('sq_u1', 'sq_u1_unblocked', 'sq_z3', 'sq_u1z2'):
        simple('expm_case', 'expm', 'B', st, False, **B)
        add('eig_qtotal_case', f'B.eig-qtotal[{st}]', tier='B', struct=st)
    simple('expm_case', 'expm', 'B', 'sq_u1', True, **B)
    simple('expm_case', 'expm', 'B', 'sq_u1_unblocked', True, **B)
    for st, cplx, k in (('sq_u1z2_b', True, 1), ('sq_u1z2_b', True, 2), ('sq_u1z2_b', False, 1), ('sq_u1z2_m', True, 1), ('sq_u1z2_m', True, 3),
                        ('sq_u1z2_3', True, 1), ('sq_u1', True, 2), ('sq_u1_unblocked', True, 1), ('sq_z3', True, 1)):
        add('speigs_case', f'B.speigs[{st},{c_(cplx)},k={k}]', tier='B', struct=st, cplx=cplx, k=k, **B)
    add('speigs_case', 'B.speigs[sq_u1z2_b,c,k=2,eigenvalues only]', tier='B', struct='sq_u1z2_b', cplx=True, k=2, eigv=False, **B)
    for st, cplx in (('tall_u1', False), ('tall_u1', True), ('tall_unblocked', False), ('u1', False), ('sq_u1', False)):
        simple('ortho_case', 'orthogonal_columns', 'B', st, cplx, **B)
    # ------------------------------------------------------------------ Tier A (symbolic charges)
    for mods in ([1], [3], [2]):
        full = mods != [2]
        for qc in ((1, -1), (1, 1), (-1, 1)):
            if qc != (1, -1) and mods != [1]:
                continue
            kw = dict(mods=mods, qconjs=list(qc), qtotal='sym', tag=f'mod={mods},qconj={qc}')
            svd('A', 'a22', **kw)
            qr('A', 'a22', **kw)
            if qc != (1, -1) or not full:
                continue
            lite = {} if thorough else dict(qlr=['none', 'both'])
            svd('A', 'a22', fm=True, **lite, **kw)
            if mods == [1] or thorough:
                svd('A', 'a22', cut=True, **lite, **kw)
            svd('A', 'a22', cut='fixed', **dict(qlr=['none', 'both']), **kw)
            qr('A', 'a22', mode='complete', **kw)
            if mods == [1] or thorough:
                qr('A', 'a22', pos=True, **kw)
            qr('A', 'a21', cut=True, **kw)
            qr('A', 'a22', lq=True, **kw)
            simple('ortho_case', 'orthogonal_columns', 'A', 'atall', **kw)
            simple('pinv_case', 'pinv', 'A', 'a21', **kw)
            simple('polar_case', 'polar', 'A', 'a21' if not thorough else 'a22', left=False, **kw)
            simple('polar_case', 'polar', 'A', 'a21' if not thorough else 'a22', left=True, **kw)
        for qc0 in (1, -1):
            if qc0 == -1 and mods != [1]:
                continue
            kw = dict(mods=mods, qconjs=[qc0, -qc0], tag=f'mod={mods},qconj={qc0}')
            eig('A', 'asq2', **kw)
            simple('expm_case', 'expm', 'A', 'asq2', **kw)
            if full:
                eig('A', 'asq2', herm=False, sort='<', **kw)
            if mods == [1] and qc0 == 1:
                eig('A', 'asq2', sort='m>', **kw)
        add('eig_qtotal_case', f'A.eig-qtotal[asq2,mod={mods}]', tier='A', struct='asq2', mods=mods, qconjs=[1, -1])
    # speigs with two symbolic charges (U1 x Z2): blocks whose charges agree in one component only are paths
    for qc0 in (1, -1):
        add('speigs_case', f'A.speigs[asq2,mod=[1, 2],qconj={qc0},k=1]', tier='A', struct='asq2', mods=[1, 2], qconjs=[qc0, -qc0], cplx=True,
            subset='all', k=1)
    add('speigs_case', 'A.speigs[asq2,mod=[3],qconj=1,k=2]', tier='A', struct='asq2', mods=[3], qconjs=[1, -1], cplx=True, subset='all', k=2)
    if not thorough:
        return cases
    # ------------------------------------------------------------------ thorough: the full option product and larger shapes
    rect_B = ['u1', 'u1_unblocked', 'u1_qtot', 'z2', 'z3', 'u1z2']
    sq_B = ['sq_u1', 'sq_u1_unblocked', 'sq_z3', 'sq_u1z2']
    for st in rect_B:
        for cplx in (False, True):
            for fm, uv, cut in ((False, True, False), (True, True, False), (False, False, False), (False, True, True), (False, False, True),
                                (False, True, 'fixed')):
                svd('B', st, cplx, fm, uv, cut, **B)
            for mode, cut, pos in itertools.product(('reduced', 'complete'), (False, True), (False, True)):
                if mode == 'complete' and cut:
                    continue
                qr('B', st, cplx, mode, cut, pos, **B)
                if not cplx:
                    qr('B', st, cplx, mode, cut, pos, lq=True, **B)
            simple('pinv_case', 'pinv', 'B', st, cplx, **(dict(B, mp=False) if (cplx and st == 'u1_unblocked') else B))
            simple('polar_case', 'polar', 'B', st, cplx, left=False, **B)
            simple('polar_case', 'polar', 'B', st, cplx, left=True, **B)
    for st in sq_B:
        for cplx in (False, True):
            for sort in SORTS:
                for UPLO in ('L', 'U'):
                    eig('B', st, cplx, True, sort, UPLO, **B)
                eig('B', st, cplx, False, sort, **B)
            simple('expm_case', 'expm', 'B', st, cplx, **B)
    for st in ('tall_u1', 'tall_unblocked'):
        simple('ortho_case', 'orthogonal_columns', 'B', st, True, **B)
    for mods in ([1], [2], [3]):
        for qc in ((1, -1), (1, 1), (-1, 1)):
            kw = dict(mods=mods, qconjs=list(qc), qtotal='sym', tag=f'mod={mods},qconj={qc}')
            for fm, cut in ((False, False), (True, False), (False, True)):
                svd('A', 'a22', fm=fm, cut=cut, **kw)
            for mode, pos in (('reduced', False), ('complete', False), ('reduced', True)):
                qr('A', 'a22', mode=mode, pos=pos, **kw)
            qr('A', 'a21', cut=True, **kw)
            qr('A', 'a22', lq=True, **kw)
            simple('ortho_case', 'orthogonal_columns', 'A', 'atall', **kw)
            simple('pinv_case', 'pinv', 'A', 'a22', mp=False, **kw)  # (Moore-Penrose identities of the 3x3 block: solver unknown)
            simple('pinv_case', 'pinv', 'A', 'a21', **kw)
            simple('polar_case', 'polar', 'A', 'a22', left=False, **kw)
            simple('polar_case', 'polar', 'A', 'a22', left=True, **kw)
        for qc0 in (1, -1):
            kw = dict(mods=mods, qconjs=[qc0, -qc0], tag=f'mod={mods},qconj={qc0}')
            for sort in (None, 'm>'):
                eig('A', 'asq2', sort=sort, **kw)
            eig('A', 'asq2', herm=False, sort='<', **kw)
    for mods in ([1], [3], [1, 2]):
        sh = 'a33' if len(mods) == 1 else 'a22'
        shs = 'asq3' if len(mods) == 1 else 'asq2'
        kw = dict(mods=mods, qconjs=[1, -1], qtotal='sym', tag=f'mod={mods}')
        lite = dict(qlr=['none', 'both']) if sh == 'a33' else {}
        svd('A', sh, **lite, **kw)
        svd('A', sh, fm=True, **lite, **kw)
        qr('A', sh, mode='complete', **kw)
        qr('A', sh, pos=True, **kw)
        kw = dict(mods=mods, qconjs=[1, -1], tag=f'mod={mods}')
        eig('A', shs, **kw)
        simple('expm_case', 'expm', 'A', shs, **kw)
    for mods in ([1], [2]):
        svd('A', 'a22', cplx=True, mods=mods, qconjs=[1, -1], qtotal='sym', tag=f'mod={mods},complex')
        eig('A', 'asq2', cplx=True, mods=mods, qconjs=[1, -1], tag=f'mod={mods},complex')
    for cplx in (False, True):
        svd('B', 'u1_big', cplx, **B)
        svd('B', 'u1_big', cplx, cut=True, subset='all')
        qr('B', 'u1_big', cplx, pos=True, **B)
        simple('polar_case', 'polar', 'B', 'u1_big', cplx, left=False, subset='all')
        simple('polar_case', 'polar', 'B', 'u1_big', cplx, left=True, subset='all')
        eig('B', 'sq_u1_big', cplx, **B)
        simple('expm_case', 'expm', 'B', 'sq_u1_big', cplx, **B)
    return cases
