"""C06 Leg fusion is a lossless, consistently ordered bijection.

Tier A: every charge value of every block of every leg is a symbolic integer (valid for the ChargeInfo);
the real LegPipe / LegCharge / combine_legs / split_legs code runs on them, lexsort / bunch / dict
look-ups fork on the symbolic comparisons, so the explored paths are exactly the distinct
coincidence patterns of fused charges.
"""
import itertools

import numpy as np

from catalogue import build as Bd

PROPERTY = 'C06'
LEVEL = 'model_checking'
BOUNDS = {
    'quick': 'pipes of 1-3 legs, <=2 blocks per leg, block sizes in {1,2}, mod in {1,2,3}, one charge, both qconj of '
             'legs and pipe, sort/bunch on/off; leg operations on legs with <=3 blocks; get_qindex with unbounded symbolic index',
    'thorough': 'additionally 3 blocks per leg for 2 legs, 2 charges (U1 x Z2), 4 incoming legs with 2 blocks, nested pipes',
}
OUTSIDE = 'charge values beyond int64 (mathematical integers); compiled kernels (C04)'
STUBS = ['QTYPE=object (symbolic charges)', 'BLAS contract stub (unused here)']
ASSUMPTIONS = ['charges are mathematical integers', 'Z_N charges of input legs lie in [0,N) (LegCharge.test_sanity)']


def setup_symbolic(case):
    Bd.setup_symbolic_tierA()


def _I(ctx, x):
    return x


def pipe_case(ctx, sizes, mods, qconjs, pipe_qconj, sort, bunch, with_tensor=True, cplx=False):
    """sizes: list (per leg) of block-size lists"""
    npc = Bd.npc()
    ch = Bd.chinfo(mods)
    legs = [Bd.leg(ctx, f'l{k}', sz, ch, qc) for k, (sz, qc) in enumerate(zip(sizes, qconjs))]
    before = [(l.slices.copy(), l.charges.copy(), l.qconj, l.sorted, l.bunched) for l in legs]
    pipe = npc.LegPipe(legs, qconj=pipe_qconj, sort=sort, bunch=bunch)
    pipe.test_sanity()
    LegCharge_sanity(ctx, pipe, ch, 'pipe')
    shape = [l.ind_len for l in legs]
    n = int(np.prod(shape))
    ctx.prove(pipe.ind_len == n, 'pipe.ind_len == product of incoming lengths')
    ctx.note(f'pipe_blocks_{pipe.block_number}')
    # (b) bijection
    outs = {}
    pq = pipe.to_qflat()
    lq = [l.to_qflat() for l in legs]
    for idx in itertools.product(*[range(s) for s in shape]):
        o = int(pipe.map_incoming_flat(list(idx)))
        outs[idx] = o
        # (c) fusion rule: pipe.charge * qconj == sum leg.charge * leg.qconj (mod)
        fused = sum(lq[k][i] * legs[k].qconj for k, i in enumerate(idx))
        ctx.prove(Bd.valid_mod(ctx, pq[o] * pipe.qconj - fused, ch), 'fusion rule of outgoing charges')
    ctx.prove(sorted(outs.values()) == list(range(n)), 'map_incoming_flat is a bijection onto range(ind_len)')
    # flags truthful, as formulas over the symbolic charges (not via tenpy's is_sorted / is_bunched)
    if pipe.sorted:
        ctx.prove(Bd.lex_nondecreasing(ctx, pipe.charges), 'pipe.sorted flag truthful')
    if pipe.bunched:
        ctx.prove(Bd.rows_differ(ctx, pipe.charges), 'pipe.bunched flag truthful')
    if sort and bunch:
        ctx.prove(pipe.sorted and pipe.bunched, 'sort & bunch requested => flags set')
    # conj is contractible, to_LegCharge keeps charges
    pc = pipe.conj()
    try:
        pc.test_contractible(pipe)
        pipe.test_contractible(pc)
    except ValueError as e:
        ctx.fail('pipe.conj() contractible with pipe', str(e)[:100])
    ctx.prove(pc.qconj == -pipe.qconj and all(a.qconj == -b.qconj for a, b in zip(pc.legs, pipe.legs)),
              'conj flips qconj of pipe and of incoming legs')
    oc = pipe.outer_conj()
    # outer_conj: same incoming legs, outgoing charges negated with flipped qconj => same charge per index
    ctx.prove(Bd.valid_mod(ctx, np.array(oc.to_qflat() * oc.qconj - pq * pipe.qconj).reshape(-1), _rep(ch, n)),
              'outer_conj represents the same charges per index') if pipe.qconj == 1 else None
    lc = pipe.to_LegCharge()
    ctx.prove_eq(lc.to_qflat(), pq, 'to_LegCharge keeps charges per index')
    ctx.prove(type(lc) is npc.LegCharge and lc.qconj == pipe.qconj, 'to_LegCharge type / qconj')
    # incoming legs untouched
    for l, (sl, chg, qc, so, bu) in zip(legs, before):
        ctx.prove(np.array_equal(l.slices, sl) and l.qconj == qc and l.sorted == so and l.bunched == bu,
                  'incoming leg structure unchanged')
        ctx.prove_eq(l.charges, chg, 'incoming leg charges unchanged')
    if not with_tensor:
        return
    # (e) agreement with where combine_legs puts tensor entries, and split(combine) == id
    extra = Bd.leg(ctx, 'x', [1, 1], ch, -1)
    qt = Bd.qvec(ctx, 'qt', ch)
    A = Bd.tensor(ctx, 'a', legs + [extra], qt, cplx=cplx, labels=[f'p{k}' for k in range(len(legs))] + ['x'])
    ctx.note('stored_blocks', A.stored_blocks)
    if A.stored_blocks > 0:
        ctx.note('nonempty_tensors')
    dA = A.to_ndarray()
    C = A.combine_legs(list(range(len(legs))), pipes=pipe)
    C.test_sanity()
    dC = C.to_ndarray()
    ref = np.empty(dC.shape, dtype=dC.dtype)
    for idx, o in outs.items():
        ref[o, :] = dA[idx]
    ctx.prove_eq(dC, ref, 'combine_legs places entries where map_incoming_flat says')
    ctx.prove(C.get_leg_labels() == ['(' + '.'.join(f'p{k}' for k in range(len(legs))) + ')', 'x'], 'combined label')
    Sp = C.split_legs(0)
    Sp.test_sanity()
    ctx.prove_eq(Sp.to_ndarray(), dA, 'split_legs(combine_legs(A)) == A')
    ctx.prove(Sp.get_leg_labels() == A.get_leg_labels(), 'labels restored by split')
    ctx.prove_eq(Sp.qtotal, A.qtotal, 'qtotal restored')
    for l0, l1 in zip(A.legs, Sp.legs):
        try:
            l0.test_equal(l1)
        except ValueError as e:
            ctx.fail('legs restored by split', str(e)[:100])
    ctx.prove_eq(A.to_ndarray(), dA, 'operand of combine_legs unchanged')


def _rep(ch, n):
    """ChargeInfo-like helper applying make_valid on a flattened (n*qnumber) vector"""

    class _R:
        qnumber = ch.qnumber
        mod = ch.mod

        @staticmethod
        def make_valid(x):
            x = np.asarray(x).reshape(-1, ch.qnumber) if ch.qnumber else np.asarray(x).reshape(-1, 0)
            return ch.make_valid(x)

    return _R


def LegCharge_sanity(ctx, leg, ch, what):
    sl = leg.slices
    ok = (sl[0] == 0) and all(sl[i] <= sl[i + 1] for i in range(len(sl) - 1)) and int(sl[-1]) == leg.ind_len
    ctx.prove(bool(ok) and leg.block_number == len(sl) - 1 == leg.charges.shape[0], f'{what}: slices consistent')
    for j, m in enumerate(ch.mod):
        if m != 1:
            for v in leg.charges[:, j]:
                ctx.prove((v >= 0) & (v < int(m)), f'{what}: charges valid modulo')


def nested_pipe_case(ctx, mods, qconj_inner, qconj_outer):
    npc = Bd.npc()
    ch = Bd.chinfo(mods)
    l0 = Bd.leg(ctx, 'l0', [1, 1], ch, 1)
    l1 = Bd.leg(ctx, 'l1', [1, 2], ch, -1)
    l2 = Bd.leg(ctx, 'l2', [1, 1], ch, 1)
    qt = Bd.qvec(ctx, 'qt', ch)
    A = Bd.tensor(ctx, 'a', [l0, l1, l2], qt, labels=['a', 'b', 'c'])
    dA = A.to_ndarray()
    inner = A.combine_legs([0, 1], qconj=qconj_inner)
    outer = inner.combine_legs([0, 1], qconj=qconj_outer)
    outer.test_sanity()
    ctx.prove(outer.get_leg_labels() == ['((a.b).c)'], 'nested label')
    back = outer.split_legs().split_legs()
    back.test_sanity()
    ctx.prove_eq(back.to_ndarray(), dA, 'nested split(combine) == id')
    ctx.prove(back.get_leg_labels() == ['a', 'b', 'c'], 'nested labels restored')
    # the flat index of the nested pipe agrees with the placement of entries
    p_out = outer.legs[0]
    p_in = p_out.legs[0]
    dO = outer.to_ndarray()
    for i, j, k in itertools.product(range(2), range(3), range(2)):
        o = p_out.map_incoming_flat([p_in.map_incoming_flat([i, j]), k])
        ctx.prove_eq(dO[int(o)], dA[i, j, k], 'nested pipe index map agrees with entries')


def two_pipes_case(ctx, mods, qconjs, cplx=False):
    """two pipes combined and split in ONE call (also when no block is compatible with the symbolic qtotal, i.e. the
    tensor has no stored block), and conj() of a tensor with nested pipes split down to the innermost legs"""
    npc = Bd.npc()
    ch = Bd.chinfo(mods)
    legs = [Bd.leg(ctx, f'l{k}', sz, ch, qc) for k, (sz, qc) in enumerate(zip([[1, 1], [1, 2], [2], [1]], qconjs))]
    qt = Bd.qvec(ctx, 'qt', ch)
    A = Bd.tensor(ctx, 'a', legs, qt, cplx=cplx, labels=['a', 'b', 'c', 'd'])
    ctx.note('stored_blocks_%d' % min(A.stored_blocks, 3))
    dA = A.to_ndarray()
    C = A.combine_legs([[0, 1], [2, 3]])
    C.test_sanity()
    ctx.prove(C.get_leg_labels() == ['(a.b)', '(c.d)'], 'labels of two pipes')
    ctx.prove_eq(C.to_ndarray().shape, (legs[0].ind_len * legs[1].ind_len, legs[2].ind_len * legs[3].ind_len), 'shape of two pipes') \
        if False else ctx.prove(C.shape == (legs[0].ind_len * legs[1].ind_len, legs[2].ind_len * legs[3].ind_len), 'shape of two pipes')
    # entries sit where the two index maps say
    p0, p1 = C.legs
    dC = C.to_ndarray()
    ref = np.empty(dC.shape, dtype=dC.dtype)
    for i, j, k, l in itertools.product(*[range(x.ind_len) for x in legs]):
        ref[int(p0.map_incoming_flat([i, j])), int(p1.map_incoming_flat([k, l]))] = dA[i, j, k, l]
    ctx.prove_eq(dC, ref, 'two pipes: entries where the index maps say')
    S = C.split_legs()  # both pipes at once
    S.test_sanity()
    ctx.prove(S.rank == 4 and S.shape == A.shape, 'split of two pipes restores rank and shape')
    ctx.prove(S.get_leg_labels() == ['a', 'b', 'c', 'd'], 'split of two pipes restores labels')
    for l0, l1 in zip(A.legs, S.legs):
        try:
            l0.test_equal(l1)
        except ValueError as e:
            ctx.fail('split of two pipes restores every leg', str(e)[:100])
    if S.shape == A.shape:
        ctx.prove_eq(S.to_ndarray(), dA, 'split(combine) == id for two pipes in one call')
    # split only the second / only the first pipe
    S1 = C.split_legs(1)
    S1.test_sanity()
    ctx.prove(S1.get_leg_labels() == ['(a.b)', 'c', 'd'] and S1.shape == (C.shape[0], ) + A.shape[2:], 'split of the second pipe only')
    S0 = C.split_legs(0)
    S0.test_sanity()
    ctx.prove(S0.get_leg_labels() == ['a', 'b', '(c.d)'] and S0.shape == A.shape[:2] + (C.shape[1], ), 'split of the first pipe only')
    # groups listed in an order different from their position in the result / explicit new_axes
    for groups, new_axes, want in (([[2, 3], [0, 1]], None, ['(a.b)', '(c.d)']), ([[0, 1], [2, 3]], [1, 0], ['(c.d)', '(a.b)']),
                                   ([[2, 3], [0, 1]], [0, 1], ['(c.d)', '(a.b)']), ([['d', 'c'], ['b', 'a']], None, ['(b.a)', '(d.c)'])):
        D = A.combine_legs(groups, new_axes=new_axes)
        D.test_sanity()
        ctx.prove(D.get_leg_labels() == want, f'labels for groups {groups} new_axes {new_axes}')
        if D.get_leg_labels() != want:
            continue
        dD = D.to_ndarray()
        refD = np.empty(dD.shape, dtype=dD.dtype)
        for idx in itertools.product(*[range(x.ind_len) for x in legs]):
            byname = dict(zip('abcd', idx))
            pos = []
            for lab in want:
                names = lab[1:-1].split('.')
                pos.append(int(D.get_leg(lab).map_incoming_flat([byname[nm] for nm in names])))
            refD[tuple(pos)] = dA[idx]
        ctx.prove_eq(dD, refD, f'entries for groups {groups} new_axes {new_axes}')
        back = D.split_legs().transpose(['a', 'b', 'c', 'd'])
        ctx.prove_eq(back.to_ndarray(), dA, f'split after combine with groups {groups} new_axes {new_axes}')
    # nested pipe, conjugated, then split down to the innermost legs: every leg is the conjugate of the original one
    N = A.combine_legs([0, 1]).combine_legs([0, 1])  # ((a.b).c), d
    Nc = N.conj()
    Nc.test_sanity()
    B = Nc.split_legs(0).split_legs(0)
    B.test_sanity()
    ctx.prove(B.get_leg_labels() == ['a*', 'b*', 'c*', 'd*'], 'labels after conj of nested pipes and split')
    Ac = A.conj()
    for l0, l1 in zip(Ac.legs, B.legs):
        try:
            l0.test_equal(l1)
        except ValueError as e:
            ctx.fail('conj of nested pipes conjugates the innermost legs', str(e)[:100])
        ctx.prove(l0.qconj == l1.qconj, 'conj of nested pipes: direction of the innermost legs')
    ctx.prove_eq(B.to_ndarray(), np.conj(dA) if cplx else dA, 'split(conj(nested combine)) == conj')
    ctx.prove_eq(B.qtotal, Ac.qtotal, 'qtotal after conj of nested pipes')
    try:
        for la, lb in zip(A.legs, B.legs):
            la.test_contractible(lb)
    except ValueError as e:
        ctx.fail('legs after conj+split contractible with the original legs', str(e)[:100])


def leg_ops_case(ctx, sizes, mods, qconj, op):
    npc = Bd.npc()
    ch = Bd.chinfo(mods)
    leg = Bd.leg(ctx, 'l', sizes, ch, qconj)
    n = leg.ind_len
    q0 = leg.to_qflat().copy()
    state0 = (leg.slices.copy(), leg.charges.copy(), leg.qconj, leg.sorted, leg.bunched)

    def unchanged():
        ctx.prove(np.array_equal(leg.slices, state0[0]) and leg.qconj == state0[2] and leg.sorted == state0[3]
                  and leg.bunched == state0[4], 'original leg structure unchanged')
        ctx.prove_eq(leg.charges, state0[1], 'original leg charges unchanged')

    def truthful(l2, what):
        if l2.sorted:
            ctx.prove(Bd.lex_nondecreasing(ctx, l2.charges), f'{what}: sorted flag truthful')
        if l2.bunched:
            ctx.prove(Bd.rows_differ(ctx, l2.charges), f'{what}: bunched flag truthful')
        LegCharge_sanity(ctx, l2, ch, what)

    def contractible(l2, what):
        try:
            l2.conj().test_contractible(l2)
        except ValueError as e:
            ctx.fail(f'{what}: conj contractible', str(e)[:80])

    if op in ('sort', 'sort_nobunch'):
        perm, l2 = leg.sort(bunch=(op == 'sort'))
        pf = leg.perm_flat_from_perm_qind(perm)
        ctx.prove(sorted(int(i) for i in pf) == list(range(n)), 'perm_flat is a permutation')
        ctx.prove_eq(l2.to_qflat(), q0[np.asarray(pf, dtype=np.intp)], 'sort keeps charge attached to each index')
        ctx.prove(bool(l2.sorted), 'sorted flag set')
        if op == 'sort':
            ctx.prove(bool(l2.bunched) and l2.is_blocked(), 'sort(bunch=True) => blocked')
        truthful(l2, 'sort')
        contractible(l2, 'sort')
        unchanged()
    elif op == 'bunch':
        idx, l2 = leg.bunch()
        ctx.prove_eq(l2.to_qflat(), q0, 'bunch keeps charge per index')
        ctx.prove(bool(l2.bunched), 'bunched flag set')
        ctx.prove(int(idx[-1]) == leg.block_number and int(idx[0]) == 0, 'bunch idx endpoints')
        truthful(l2, 'bunch')
        contractible(l2, 'bunch')
        unchanged()
    elif op == 'project':
        mask = np.array([ctx.flag(f'm{i}') for i in range(n)], dtype=bool)
        map_qind, block_masks, l2 = leg.project(mask)
        keep = [i for i in range(n) if mask[i]]
        ctx.prove(l2.ind_len == len(keep), 'project: length')
        if keep:
            ctx.prove_eq(l2.to_qflat(), q0[keep], 'project keeps charge of surviving indices')
        ctx.prove(len(block_masks) == l2.block_number, 'project: one mask per remaining block')
        for qo, qn in enumerate(map_qind):
            blk = mask[leg.slices[qo]:leg.slices[qo + 1]]
            if qn >= 0:
                ctx.prove(np.array_equal(block_masks[qn], blk) and blk.any(), 'project: block mask of kept block')
            else:
                ctx.prove(not blk.any(), 'project: dropped block had no kept index')
        truthful(l2, 'project')
        contractible(l2, 'project')
        unchanged()
    elif op == 'extend':
        ex = Bd.leg(ctx, 'e', [1, 2], ch, ctx.choice('eqconj', 2) * 2 - 1)
        qe = ex.to_qflat() * ex.qconj
        l2 = leg.extend(ex)
        q2 = l2.to_qflat() * l2.qconj
        ctx.prove(l2.ind_len == n + ex.ind_len and l2.qconj == leg.qconj, 'extend: length / qconj')
        ctx.prove_eq(q2[:n], q0 * leg.qconj, 'extend keeps old charges')
        ctx.prove(Bd.valid_mod(ctx, (q2[n:] - qe).reshape(-1), _rep(ch, 3)), 'extend appends the extra charges (as charge*qconj)')
        truthful(l2, 'extend')
        l3 = leg.extend(2)
        ctx.prove(l3.ind_len == n + 2, 'extend(int)')
        ctx.prove_eq(l3.to_qflat()[n:], np.zeros((2, ch.qnumber), dtype=int), 'extend(int) appends zero charges')
        unchanged()
    elif op == 'flip':
        l2 = leg.flip_charges_qconj()
        ctx.prove(l2.qconj == -leg.qconj, 'flip: qconj')
        ctx.prove(Bd.valid_mod(ctx, (l2.to_qflat() * l2.qconj - q0 * leg.qconj).reshape(-1), _rep(ch, n)),
                  'flip_charges_qconj represents the same charges')
        try:
            leg.test_equal(l2)
        except ValueError as e:
            ctx.fail('flip: test_equal', str(e)[:80])
        truthful(l2, 'flip')
        l3 = leg.conj()
        ctx.prove(l3.qconj == -leg.qconj, 'conj: qconj')
        ctx.prove_eq(l3.to_qflat(), q0, 'conj keeps stored charges')
        truthful(l3, 'conj')
        contractible(l2, 'flip')
        unchanged()
    elif op == 'get_qindex':
        i = ctx.int('i')
        try:
            q, w = leg.get_qindex(i)
            raised = False
        except IndexError:
            raised = True
        valid = (i >= -n) & (i < n)
        if raised:
            ctx.prove(~valid if ctx.symbolic and not isinstance(valid, bool) else (not valid),
                      'get_qindex raises IndexError only for invalid indices')
        else:
            ctx.prove(valid, 'get_qindex raises IndexError for every invalid index')
            ii = i + n if bool(i < 0) else i
            ctx.prove((leg.slices[int(q)] <= ii) & (ii < leg.slices[int(q) + 1]), 'get_qindex returns the block containing the index')
            ctx.prove(w == ii - leg.slices[int(q)], 'get_qindex: index within block')
    elif op == 'from_qflat':
        l2 = npc.LegCharge.from_qflat(ch, q0, qconj)
        ctx.prove_eq(l2.to_qflat(), q0, 'from_qflat(to_qflat) keeps charges per index')
        truthful(l2, 'from_qflat')
        unchanged()
    elif op == 'from_qdict':
        if leg.is_blocked():
            qd = leg.to_qdict()
            l2 = npc.LegCharge.from_qdict(ch, qd, qconj)
            ctx.prove_eq(l2.to_qflat(), q0, 'from_qdict(to_qdict) keeps charges per index')
            truthful(l2, 'from_qdict')
            ctx.note('blocked_legs')
        else:
            try:
                leg.to_qdict()
                ctx.fail('to_qdict must raise for non-blocked legs')
            except ValueError:
                ctx.prove(True, 'to_qdict raises for non-blocked legs')
        unchanged()
    elif op == 'sort_legcharge':
        other = Bd.leg(ctx, 'o', [1, 2], ch, -qconj)
        qt = Bd.qvec(ctx, 'qt', ch)
        A = Bd.tensor(ctx, 'a', [leg, other], qt, labels=['a', 'b'])
        dA = A.to_ndarray()
        perms, Bs = A.sort_legcharge(sort=True, bunch=True)
        Bs.test_sanity()
        ref = dA[np.ix_(np.asarray(perms[0], dtype=np.intp), np.asarray(perms[1], dtype=np.intp))]
        ctx.prove_eq(Bs.to_ndarray(), ref, 'sort_legcharge: result == operand permuted by the returned permutations')
        for l2 in Bs.legs:
            ctx.prove(l2.is_blocked() and bool(l2.sorted) and bool(l2.bunched), 'sort_legcharge: legs blocked')
            truthful(l2, 'sort_legcharge')
        ctx.prove_eq(A.to_ndarray(), dA, 'sort_legcharge: operand unchanged')
        Bk = A.as_completely_blocked()
        if isinstance(Bk, tuple):
            Bk = Bk[-1]
    else:
        raise ValueError(op)


def CASES(tier, seed):
    cases = []
    two = [[1, 2], [2, 1]]
    O = dict(max_paths=60000, max_wall_s=600, validate_paths=3)
    # pipes
    for mods in ([1], [2], [3]):
        for sort, bunch in ((True, True), (False, False), (True, False), (False, True)):
            for pq in (1, -1):
                qcs_list = [(1, -1)] if (sort, bunch) != (True, True) else [(1, 1), (1, -1), (-1, -1)]
                for qcs in qcs_list:
                    cases.append(dict(name=f"pipe2[mod={mods},qconj={qcs},pipe={pq},sort={sort},bunch={bunch}]", fn='pipe_case',
                                      params=dict(sizes=two, mods=mods, qconjs=list(qcs), pipe_qconj=pq, sort=sort, bunch=bunch),
                                      opts=O))
        cases.append(dict(name=f"pipe1[mod={mods}]", fn='pipe_case',
                          params=dict(sizes=[[1, 2]], mods=mods, qconjs=[1], pipe_qconj=-1, sort=True, bunch=True), opts=O))
        cases.append(dict(name=f"pipe2-singleblock[mod={mods}]", fn='pipe_case',
                          params=dict(sizes=[[2], [1, 1]], mods=mods, qconjs=[1, -1], pipe_qconj=1, sort=True, bunch=True), opts=O))
        cases.append(dict(name=f"pipe2-allsingle[mod={mods}]", fn='pipe_case',
                          params=dict(sizes=[[2], [2]], mods=mods, qconjs=[1, -1], pipe_qconj=-1, sort=True, bunch=True), opts=O))
    O3 = O if tier == 'quick' else dict(max_paths=400000, max_wall_s=3000, validate_paths=3, hard_timeout_s=3400)
    # (three U(1) legs with a tensor on top exceed 16k paths per 10 minutes: the tensor part is checked for Z2 only)
    cases.append(dict(name="pipe3[mod=[1]]", fn='pipe_case',
                      params=dict(sizes=[[1, 1], [1, 1], [1, 1]], mods=[1], qconjs=[1, -1, 1], pipe_qconj=1, sort=True, bunch=True,
                                  with_tensor=False), opts=O3))
    cases.append(dict(name="pipe3[mod=[2]]", fn='pipe_case',
                      params=dict(sizes=[[1, 1], [1, 1], [1, 1]], mods=[2], qconjs=[1, 1, -1], pipe_qconj=-1, sort=True, bunch=True,
                                  with_tensor=(tier == 'thorough')), opts=O3))
    cases.append(dict(name="pipe2-cplx[mod=[1]]", fn='pipe_case',
                      params=dict(sizes=two, mods=[1], qconjs=[1, -1], pipe_qconj=1, sort=True, bunch=True, cplx=True), opts=O))
    for mods in ([1], [3]):
        for qi, qo in ((1, 1), (-1, 1), (1, -1)):
            cases.append(dict(name=f"nested[mod={mods},inner={qi},outer={qo}]", fn='nested_pipe_case',
                              params=dict(mods=mods, qconj_inner=qi, qconj_outer=qo), opts=O))
    for mods in ([1], [2], [3]):
        for qcs in ((1, -1, 1, -1), (1, 1, -1, -1)):
            cases.append(dict(name=f"two_pipes[mod={mods},qconj={qcs}]", fn='two_pipes_case',
                              params=dict(mods=mods, qconjs=list(qcs), cplx=(mods == [1] and qcs[1] == -1)), opts=O))
    # leg operations
    for mods in ([1], [2], [3]):
        for op in ('sort', 'sort_nobunch', 'bunch', 'project', 'extend', 'flip', 'get_qindex', 'from_qflat', 'from_qdict',
                   'sort_legcharge'):
            for qc in ((1, -1) if op in ('flip', 'extend', 'sort_legcharge') else (1, )):
                sizes = [1, 2, 1] if op not in ('project', 'sort_legcharge') else [1, 2]
                cases.append(dict(name=f"leg.{op}[mod={mods},qconj={qc}]", fn='leg_ops_case',
                                  params=dict(sizes=sizes, mods=mods, qconj=qc, op=op), opts=O))
    if tier == 'thorough':
        T = dict(max_paths=400000, max_wall_s=3000, validate_paths=3, hard_timeout_s=3400)
        for mods in ([1], [2], [3]):
            cases.append(dict(name=f"pipe2x3blocks[mod={mods}]", fn='pipe_case',
                              params=dict(sizes=[[1, 1, 1], [1, 2, 1]], mods=mods, qconjs=[1, -1], pipe_qconj=1, sort=True, bunch=True,
                                          with_tensor=False), opts=T))
        cases.append(dict(name="pipe2[mod=[1,2]]", fn='pipe_case',
                          params=dict(sizes=two, mods=[1, 2], qconjs=[1, -1], pipe_qconj=1, sort=True, bunch=True), opts=T))
        cases.append(dict(name="pipe4[mod=[2]]", fn='pipe_case',
                          params=dict(sizes=[[1, 1]] * 4, mods=[2], qconjs=[1, -1, 1, -1], pipe_qconj=1, sort=True, bunch=True,
                                      with_tensor=False), opts=T))
        for op in ('sort', 'bunch', 'project', 'from_qflat'):
            cases.append(dict(name=f"leg.{op}[mod=[1,2]]", fn='leg_ops_case',
                              params=dict(sizes=[1, 2, 1], mods=[1, 2], qconj=1, op=op), opts=T))
    return cases
