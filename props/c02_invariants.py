"""C02 Charge rule and storage invariants are closed under every operation.

Inductive step: one catalogue operation (catalogue/ops.py) from an arbitrary valid pre-state
(stored-block subsets incl. none, _qdata in non-sorted order with truthful _qdata_sorted=False, leg flags
computed or False), at TENPY_OPTIMIZE 0/1/3; post-state checked with own formulas
(catalogue.ops.check_invariants), qtotal against the documented function, and every result is fed to the
flag consumers (+, tensordot, inner, sort_legcharge, LegCharge.sort/bunch) whose outcome is compared
with the dense oracle (2-step histories).
"""
import numpy as np

from catalogue import build as Bd
from catalogue import ops as C
from props import c01_algebra as P1

PROPERTY = 'C02'
LEVEL = 'model_checking'
BOUNDS = {
    'quick': 'Tier A (symbolic charges, entries): rank<=2, 2 blocks per leg, mod in {1,2,3}; pre-states: all blocks stored / symbolic subset / none, '
             '_qdata sorted or reversed (flag False), leg flags computed or False; optimization levels 0,1,3; Tier B: the C01 structures '
             '(size-0 blocks, duplicates, unsorted, 2 charges) with reversed / rotated _qdata; every result followed by the flag consumers',
    'thorough': 'Tier A additionally rank 3, all variants; Tier B more structures',
}
OUTSIDE = ('dtype of blocks in symbolic mode (object); compiled kernels (C04); histories longer than 2 are covered by induction only; '
           'ipurge_zeros with a positive cutoff (block norms = sqrt variables compared with the cutoff, followed by a consumer, stalls z3): C02 runs only '
           'its cutoff=0 variant (same _qdata / flag code path), the positive cutoff is checked in C01 and C03; setitem/int_first_npc runs in Tier B only')
STUBS = P1.STUBS
ASSUMPTIONS = P1.ASSUMPTIONS + ['pre-states satisfy the representation invariant (checked by the same formulas before the operation)']


def setup_symbolic(case):
    C.setup_symbolic(case['params']['struct']['tier'])


def inv_case(ctx, struct, ops, cplx=False, subset='all', prestate='sorted', legflags='computed', opt_level=1, consume=True):
    from tenpy.tools import optimization
    optimization.set_level(opt_level)
    try:
        _inv_case(ctx, struct, ops, cplx, subset, prestate, legflags, consume)
    finally:
        optimization.set_level(1)


def _inv_case(ctx, struct, ops, cplx, subset, prestate, legflags, consume):
    W = C.World(ctx, struct, cplx=cplx, subset=subset, prestate=prestate, legflags=legflags)
    name, v = ops[ctx.choice('op', len(ops))]
    tag = name if v == 'd' else f'{name}/{v}'
    sc = C.build_scenario(ctx, W, name, v)
    if sc is None:
        return
    for k, o in enumerate(sc.operands):
        C.check_invariants(ctx, o, f'pre-state operand {k}', sanity=False)
    ok, res = C.execute(ctx, sc, tag)
    if not ok:
        return
    ctx.note('ops_executed')
    for k, o in enumerate(sc.operands):
        if not (sc.inplace and k == 0):
            C.check_invariants(ctx, o, f'{tag}: operand {k} afterwards', sanity=False)
    if sc.scalar:
        ctx.prove(not C.is_array(res), f'{tag}: returns a scalar')
        return
    R = sc.get(res)
    if not C.is_array(R):
        ctx.fail(f'{tag}: returns an Array', repr(type(R)))
        return
    full = res[1] if (name == 'as_completely_blocked') else R
    if sc.results is not None:
        for k, Rk in enumerate(sc.results(res)):
            C.check_invariants(ctx, Rk, f'{tag}: result {k}')
        for Rk, want in sc.qtotals(res):
            ctx.prove(C.mod_equal(ctx, Rk.qtotal, want, Rk.chinfo), f'{tag}: qtotal is the documented function of the operands')
    else:
        C.check_invariants(ctx, full, f'{tag}: result')
    ch = sc.ch or W.ch
    if getattr(sc, 'qtotal_fn', None) is not None:
        sc.qtotal = sc.qtotal_fn()
    if sc.qtotal is not None and np.shape(R.qtotal) == (ch.qnumber, ):
        ctx.prove(C.mod_equal(ctx, R.qtotal, sc.qtotal, ch), f'{tag}: qtotal is the documented function of the operands')
    if consume:
        C.consumers(ctx, W, full, tag, which=tuple(consume) if isinstance(consume, (list, tuple)) else ALL_CONSUMERS)


# operations for which the symbolic choice of the stored-block subset is run in the quick tier (missing blocks matter most)
CHOOSE_OPS = {('add', 'same'), ('tensordot', 'full'), ('inner', 'range'), ('transpose', 'none'), ('combine_legs', 'all'), ('take_slice', 'one'),
              ('iproject', 'mask'), ('ipurge_zeros', 'cutoff'), ('trace', 'rank3_labels'), ('qr', 'qtotal_Q')}
# core selection for the slow Z3 structure in the quick tier
CORE_OPS = CHOOSE_OPS | {('tensordot', 'labels'), ('outer', 'd'), ('conj', 'd'), ('itranspose', 'perm'), ('iswapaxes', 'first_last'), ('sub', 'same'),
                         ('split_legs', 'unsorted'), ('getitem', 'negstep'), ('setitem', 'slice_npc'), ('sort_legcharge', 'default'),
                         ('concatenate', 'axis0'), ('gauge_total_charge', 'flip'), ('qr', 'complete_qconj'), ('svd', 'qtotal_LR'), ('squeeze', 'none'), ('extend', 'leg'), ('add_trivial_leg', 'front'),
                         ('permute', 'first'), ('scale_axis', 'first'), ('drop_charge', 'last'), ('from_ndarray', 'roundtrip'), ('copy', 'shallow')}
MIXED_OPS = [('outer', 'd'), ('tensordot', 'axes0'), ('tensordot', 'int1'), ('tensordot', 'full'), ('inner', 'range'), ('add', 'same'), ('sub', 'permuted'),
             ('binary_blockwise', 'subtract'), ('iadd_prefactor_other', 'same'), ('concatenate', 'axis0'), ('grid_outer', 'qtotal_detected'),
             ('setitem', 'slice_npc')]
MIXED_OPS_A_QUICK = {('outer', 'd'), ('tensordot', 'axes0'), ('add', 'same'), ('concatenate', 'axis0')}
PROJ_OPS = [('iproject', 'mask'), ('getitem', 'mask')]
QUICK_CONSUMERS = ('add', 'tensordot', 'sort_legcharge', 'legsort')
ALL_CONSUMERS = ('add', 'radd', 'tensordot', 'inner', 'sort_legcharge', 'legsort')


def CASES(tier, seed):
    cases = []
    quick = tier == 'quick'
    opsA = [(n, v) for n, s in C.OPS.items() if 'A' in s.tiers for v in P1._variants(s, tier) if (n, v) not in C.TIER_A_EXCLUDED]
    opsB = [(n, v) for n, s in C.OPS.items() if 'B' in s.tiers for v in s.variants]
    # ipurge_zeros with a positive cutoff compares sqrt variables (block norms) with the cutoff; followed by the consumers this
    # occasionally stalls z3 beyond any case limit.  Its values are C01's subject; C02 keeps the cutoff-0 variant (same code path
    # for _qdata / flags) and C01 / C03 keep both.
    opsA = [o for o in opsA if tuple(o) != ('ipurge_zeros', 'cutoff')]
    opsB = [o for o in opsB if tuple(o) != ('ipurge_zeros', 'cutoff')]
    OA = dict(max_paths=80000, max_wall_s=220 if quick else 1600, validate_paths=2, hard_timeout_s=235 if quick else 1750)
    structsA = P1.structs_A(tier)
    c_all = dict(subset='all', prestate='reversed', legflags='computed', opt_level=1)
    c_choose = dict(subset='choose', prestate='sorted', legflags='false', opt_level=0)
    c_lvl3 = dict(subset='all', prestate='reversed', legflags='false', opt_level=3)
    c_none = dict(subset='none', prestate='sorted', legflags='computed', opt_level=1)
    c_lvl0 = dict(subset='all', prestate='rotated', legflags='computed', opt_level=0)
    plan = []  # (structure index, combination, cost limit of the operations)
    for si, st in enumerate(structsA):
        m = st['mods'][0]
        first = st['legs'][0]['qconj'] == 1 and st['legs'][1]['qconj'] == -1
        if quick:
            if m == 1 and first:
                plan += [(si, c_all, 30), (si, c_none, 30)]
            elif m == 2 and first:
                plan += [(si, c_lvl3, 30)]
            elif m == 2 and not first:
                plan += [(si, c_choose, 30)]
            elif m == 3 and first:
                plan += [(si, c_lvl0, 30)]
        else:  # thorough (sized by CPU time: ~17000 core-seconds): 100 = all variants, -3 = the quick variants, -1 = CORE_OPS, -2 = CHOOSE_OPS
            second = st['legs'][0]['qconj'] == -1
            c_perm = dict(c_lvl0, prestate='rotated')  # a symbolic choice of the row permutation ('choice') triples the paths per operand: 7700 core-s
            if m == 1 and first:
                plan += [(si, c_all, 100), (si, c_none, -3), (si, c_choose, -2)]
            elif m == 1 and second:
                plan += [(si, c_lvl3, -1)]
            elif m == 2 and first:
                plan += [(si, c_perm, -3)]
            elif m == 2 and second:
                plan += [(si, c_all, -1)]
            elif m == 3 and first:
                plan += [(si, c_lvl3, -1)]
            elif m == 3 and second:
                plan += [(si, c_lvl0, -2)]
    for si, cb, lim in plan:
        st = structsA[si]
        ops = [o for o in opsA if P1.COST_A.get(tuple(o), 1.5) < lim]
        if lim == -3:
            ops = [(n, v) for n, sp in C.OPS.items() if 'A' in sp.tiers for v in sp.quick]
        elif lim < 0:
            sel = CORE_OPS if lim == -1 else CHOOSE_OPS
            ops = [o for o in opsA if tuple(o) in sel and tuple(o) != ('ipurge_zeros', 'cutoff')]
        if quick:  # Tier A quick: core selection (every variant runs in Tier B and in the thorough tier)
            sel = CHOOSE_OPS if (cb['subset'] == 'choose' or st['mods'][0] == 3) else CORE_OPS
            # ipurge_zeros/cutoff (norm > cutoff on sqrt variables, then a consumer) occasionally hangs z3 beyond the case limit: Tier B / C01 only
            ops = [o for o in ops if tuple(o) in sel and tuple(o) != ('ipurge_zeros', 'cutoff')]
        target = 1 if cb['subset'] == 'choose' else 9
        for ci, chunk in enumerate(P1._balanced(ops, P1.COST_A, target)):
            cases.append(dict(name=f"A[mod={st['mods']},qconj={[l['qconj'] for l in st['legs']]},{cb['subset']},{cb['prestate']},"
                                   f"flags={cb['legflags']},opt={cb['opt_level']}]ops{ci}:{P1._opsname(chunk)}",
                              fn='inv_case', params=dict(struct=st, ops=chunk, cplx=(si % 2 == 0),
                                                         consume=list((('add', 'sort_legcharge') if cb['subset'] == 'choose' else QUICK_CONSUMERS) if quick else ALL_CONSUMERS),
                                                         **cb), opts=OA))
    # Tier A structure with a three-block leg for the projecting operations (bunched-but-not-blocked legs: charges q, p, q)
    st3 = dict(tier='A', mods=[1], rank=2, legs=[dict(sizes=[1, 2], qconj=1), dict(sizes=[1, 1, 1], qconj=-1), dict(sizes=[1, 1], qconj=1)])
    for ci, o in enumerate(PROJ_OPS):
        cases.append(dict(name=f"A3[mod=[1],three-block leg,all,sorted,flags=computed,opt=0]ops{ci}:{o[0]}/{o[1]}", fn='inv_case',
                          params=dict(struct=st3, ops=[o], cplx=False, consume=['legsort', 'sort_legcharge'], **dict(c_all, prestate='sorted', opt_level=0)),
                          opts=OA))
    # pre-states in which exactly one operand has its blocks in non-sorted order (flag truthfully False), the other one sorted:
    # every operation with two or more tensor operands, both ways round, followed by the + consumer
    stm = structsA[0]
    for ps in ('reversed_first', 'reversed_others'):
        for ci, chunk in enumerate(P1._chunks([o for o in MIXED_OPS if (not quick) or tuple(o) in MIXED_OPS_A_QUICK], 1)):
            cases.append(dict(name=f"A-mixed[mod={stm['mods']},all,{ps},flags=computed,opt=1]ops{ci}:{P1._opsname(chunk)}", fn='inv_case',
                              params=dict(struct=stm, ops=chunk, cplx=False, consume=['add', 'radd'], **dict(c_all, prestate=ps)), opts=OA))
    sBm = P1.structs_B(tier, seed)
    for si in ([1, 2, 8] if quick else [k for k in range(len(sBm)) if sBm[k]['rank'] <= 3 and P1.dense_size(sBm[k]) <= 40]):
        for ps in ('reversed_first', 'reversed_others'):
            cases.append(dict(name=f"B-mixed[{si},mod={sBm[si]['mods']},rank={sBm[si]['rank']},all,{ps}]ops:{P1._opsname(MIXED_OPS)}", fn='inv_case',
                              params=dict(struct=sBm[si], ops=MIXED_OPS, cplx=(si % 2 == 1), subset='all', prestate=ps, legflags='computed', opt_level=1,
                                          consume=['add', 'radd']), opts=dict(max_paths=40000, max_wall_s=220 if quick else 1600, validate_paths=2,
                                                                              hard_timeout_s=235 if quick else 1750)))
    OB = dict(max_paths=40000, max_wall_s=220 if quick else 1600, validate_paths=2, hard_timeout_s=235 if quick else 1750)
    for si, st in enumerate(P1.structs_B(tier, seed)):
        if (quick and si in (3, 4, 5, 6)) or st['rank'] > 3 or P1.dense_size(st) > 64:
            continue  # rank 4 / large structures: C01 thorough only
        cb = dict(subset='draw' if si % 3 else 'all', prestate=['reversed', 'rotated', 'sorted'][si % 3], legflags=['computed', 'false'][si % 2],
                  opt_level=[1, 0, 3][si % 3])
        for ci, chunk in enumerate(P1._chunks(opsB, 40 if tier == 'quick' else (8 if st['rank'] > 3 else 14))):
            cases.append(dict(name=f"B[{si},mod={st['mods']},rank={st['rank']},{cb['subset']},{cb['prestate']},flags={cb['legflags']},"
                                   f"opt={cb['opt_level']}]ops{ci}:{P1._opsname(chunk)}",
                              fn='inv_case', params=dict(struct=st, ops=chunk, cplx=(si % 2 == 1), consume=list(ALL_CONSUMERS), **cb), opts=OB))
    slow = float(__import__('os').environ.get('VERIF_SLOW', '1') or 1)  # development on a loaded machine only
    if slow != 1:
        for c in cases:
            c['opts'] = dict(c['opts'], max_wall_s=c['opts']['max_wall_s'] * slow, hard_timeout_s=c['opts']['hard_timeout_s'] * slow)
    return cases
