"""C04 Compiled and pure-Python tensor kernels are observationally equivalent - EXPLORATION level.

The compiled extension is machine code behind the CPython boundary: it cannot be executed symbolically.
What the solver contributes here are the *inputs*: the Python kernels are explored symbolically (Tier A:
symbolic charges, symbolic entries, symbolic block selection, symbolic prefactors / sizes / offsets) and for
every feasible path the solver's model of the path condition becomes a concrete witness (charges, block
layout, entries).  Each witness is then executed - in five dtypes and three mixed-dtype pairings - by two
long-lived interpreter processes:

  * "compiled": /venv/bin/python, TENPY_NO_CYTHON unset, PYTHONPATH = a scratch copy of the CURRENT /repo tree in
    which the extension has just been rebuilt from tenpy/linalg/_npc_helper.pyx (stale .cpp/.so removed first),
  * "python":   /venv/bin/python, TENPY_NO_CYTHON=1 on /repo,

which serialise legs, labels, qtotal, the sorted block structure and the values (or the exception class); the
harness compares the two (rel. tol 1e-12 for 64-bit, 1e-5 for 32-bit floats, exact for integers).

Mechanics (see notes/C04.md): `setup_run` (called by the runner) starts the rebuild in the background while the
symbolic exploration runs; the harness function in CONCRETE mode (the runner replays `validate_paths` path models
per case under /venv/bin/python) waits for the build, starts the two workers once per replay process and performs
the differential.  A difference is reported as VIOLATION (runner: level 'exploration'), infrastructure trouble
(build failed and no fallback, worker died) as HARNESS-ERROR.
"""
import atexit
import hashlib
import json
import os
import shutil
import subprocess
import sys
import time

import numpy as np

from catalogue import build as Bd

PROPERTY = 'C04'
LEVEL = 'exploration'
BOUNDS = {
    'quick': 'programs: tensordot (3 axes forms), inner, combine/split_legs, transpose/itranspose, iadd_prefactor_other, '
             'iscale_prefactor, binary +/-, LegPipe construction, and the unit-level kernels _find_row_differences, _map_blocks, '
             '_sliced_copy, _make_stride, make_valid, check_valid, _imake_contiguous, _tensordot_transpose_axes, _tensordot_worker, '
             '_inner_worker, _combine_legs_worker, _split_legs_worker; operands of rank <= 3 with <= 2 blocks per leg (sizes 1-2), '
             'mod in {1,2,3}; stored-block selection symbolic for the first operand of the U(1) cases; every feasible path is a witness, each '
             'run in float64/complex128/float32/complex64/int64 and 3 mixed pairings',
    'thorough': 'additionally two charges U(1)xZ2 (one two-block leg per operand, all allowed blocks stored), stored-block selection symbolic for the first operand with '
                'mod 1, 2, 3 and for both operands with mod 1 and 2, two-block free legs for U(1), 3 blocks per leg for one tensordot / inner '
                'case; every feasible path is a witness',
}
OUTSIDE = ('an all-values verdict for the compiled side (machine code): paths that exist only in the C++ (BLAS batching thresholds, '
           'MKL branch) are reached only as far as Python-side path witnesses happen to reach them; sizes above the bounds; '
           'algorithms built on top of the kernels (DMRG etc.) beyond the listed operation programs; the declared dtype of a result '
           'Array that has NO stored blocks (nothing else about dtypes is ignored: for every result with stored blocks the declared '
           'dtype, the dtype of every stored block and the outcome of test_sanity() are compared, as are the dtypes of scalar and '
           'ndarray results)')
STUBS = ['symbolic side: QTYPE=object, BLAS contract stub (only used to enumerate the paths of the Python kernels)']
ASSUMPTIONS = ['witness charges |q| < 2**20 (no int64 wrap-around)', 'scratch rebuild uses the compiler and Cython of /venv (offline)']
RULE = ('evaluations = (witness, dtype variant) executions whose serialised results from the freshly rebuilt compiled build and from '
        'the pure-Python build were compared; a witness is the solver model of one feasible path of the Python kernel (symx engine, '
        'Tier A); distinct_nontrivial = distinct (program, structural signature of the operands) among compared witnesses with >= 1 '
        'stored block; states/transitions = symbolic paths / solver queries that produced the witnesses')

VERIF = os.path.dirname(os.path.dirname(os.path.abspath(__file__)))
REPO = os.environ.get('VERIF_REPO', '/repo')
VENV_PY = os.environ.get('VERIF_VENV_PY', '/venv/bin/python')
DTYPES = ('float64', 'complex128', 'float32', 'complex64', 'int64')
MIXED = (('float64', 'complex128'), ('float32', 'float64'), ('int64', 'float64'))
TOL = {'float64': 1e-12, 'complex128': 1e-12, 'float32': 1e-5, 'complex64': 1e-5, 'int64': 0.0}


class C04Infra(BaseException):
    """infrastructure failure (not a property violation): surfaces as HARNESS-ERROR"""


# ====================================================================================== build of the extension
def _build_dir():
    return os.environ.get('C04_BUILD_DIR')


def start_build(dest):
    """copy the current tree (tenpy package + setup files) and rebuild the extension there; returns Popen"""
    os.makedirs(dest, exist_ok=True)
    script = (f"set -e; rsync -a --exclude .git --exclude doc --exclude notebooks --exclude examples --exclude tests --exclude toycodes "
              f"--exclude '__pycache__' '{REPO}/' '{dest}/src/'; cd '{dest}/src'; "
              f"rm -f tenpy/linalg/_npc_helper.cpp tenpy/linalg/_npc_helper*.so; rm -rf build; "
              f"'{VENV_PY}' setup.py build_ext --inplace > ../build.log 2>&1 && touch ../BUILD_OK || touch ../BUILD_FAILED")
    env = dict(os.environ)
    for k in ('TENPY_NO_CYTHON', 'TENPY_VERIF_SYMBOLIC', 'PYTHONPATH', 'TENPY_OPTIMIZE'):
        env.pop(k, None)
    return subprocess.Popen(['bash', '-c', script], env=env, stdout=subprocess.DEVNULL, stderr=subprocess.DEVNULL)


def setup_run(tier):
    """runner hook (parent process, before the symbolic exploration): start the rebuild in the background"""
    keep = os.environ.get('C04_DEV_BUILD_DIR')  # development only: reuse an existing scratch build (never set by ./check)
    if keep and os.path.exists(os.path.join(keep, 'BUILD_OK')):
        os.environ['C04_BUILD_DIR'] = keep
        return
    dest = f"/tmp/c04_build_{os.getpid()}"
    shutil.rmtree(dest, ignore_errors=True)
    os.environ['C04_BUILD_DIR'] = dest
    os.environ['C04_BUILD_OWNER'] = 'runner'
    atexit.register(teardown_run)
    start_build(dest)


def teardown_run():
    """runner hook: remove the scratch copy"""
    dest = _build_dir()
    if dest and os.environ.get('C04_BUILD_OWNER') == 'runner':
        for _ in range(600):  # never delete under a running compiler
            if os.path.exists(os.path.join(dest, 'BUILD_OK')) or os.path.exists(os.path.join(dest, 'BUILD_FAILED')):
                break
            time.sleep(1)
        shutil.rmtree(dest, ignore_errors=True)


def _wait_build():
    """-> (tenpy root for the compiled worker, fresh: bool)"""
    dest = _build_dir()
    if dest is None:  # stand-alone replay (./check C04 --replay ...): build here, remove at exit
        dest = f"/tmp/c04_build_{os.getpid()}"
        os.environ['C04_BUILD_DIR'] = dest
        shutil.rmtree(dest, ignore_errors=True)
        atexit.register(shutil.rmtree, dest, True)
        start_build(dest)
    t0 = time.time()
    while time.time() - t0 < 900:
        if os.path.exists(os.path.join(dest, 'BUILD_OK')):
            return os.path.join(dest, 'src'), True
        if os.path.exists(os.path.join(dest, 'BUILD_FAILED')):
            break
        time.sleep(0.5)
    # no fresh build: fall back to the committed binary of the tree; differential() states the limitation (tool chain
    # missing) or reports the failure (tool chain present, i.e. the current tree does not compile)
    return REPO, False


def _build_failure():
    """-> (tool chain available?, tail of the build log)"""
    have = shutil.which('g++') is not None or shutil.which('gcc') is not None
    if have:
        have = subprocess.run([VENV_PY, '-c', 'import Cython, setuptools'], capture_output=True).returncode == 0
    log = ''
    try:
        with open(os.path.join(_build_dir() or '', 'build.log')) as f:
            log = f.read()[-400:]
    except OSError:
        pass
    return have, log


# ====================================================================================== worker processes
class _Worker:

    def __init__(self, root, no_cython):
        env = dict(os.environ)
        env['PYTHONPATH'] = f"{VERIF}:{root}"
        env.pop('TENPY_VERIF_SYMBOLIC', None)
        env.pop('TENPY_OPTIMIZE', None)
        if no_cython:
            env['TENPY_NO_CYTHON'] = '1'
        else:
            env.pop('TENPY_NO_CYTHON', None)
        env['OMP_NUM_THREADS'] = '1'
        self.p = subprocess.Popen([VENV_PY, '-u', '-m', 'props.c04_compiled', '--worker'], env=env, cwd=VERIF, stdin=subprocess.PIPE,
                                  stdout=subprocess.PIPE, stderr=subprocess.DEVNULL, text=True)
        self.info = self.call({'hello': 1})

    def call(self, msg):
        try:
            self.p.stdin.write(json.dumps(msg) + '\n')
            self.p.stdin.flush()
            line = self.p.stdout.readline()
        except (BrokenPipeError, OSError) as e:
            raise C04Infra(f'worker died: {e}')
        if not line:
            raise C04Infra('worker died (no answer)')
        return json.loads(line)

    def close(self):
        try:
            self.p.stdin.close()
            self.p.wait(5)
        except Exception:
            self.p.kill()


_WORKERS = {}


def workers():
    if not _WORKERS:
        root, fresh = _wait_build()
        wc = _Worker(root, no_cython=False)
        wp = _Worker(REPO, no_cython=True)
        atexit.register(wc.close)
        atexit.register(wp.close)
        if not wc.info.get('have_cython'):
            raise C04Infra(f"the 'compiled' worker did not load the extension: {wc.info}")
        if wp.info.get('have_cython'):
            raise C04Infra("the 'python' worker loaded the extension although TENPY_NO_CYTHON=1")
        if fresh and not str(wc.info.get('helper_file', '')).startswith(root):
            raise C04Infra(f"compiled worker uses {wc.info.get('helper_file')} instead of the rebuilt copy under {root}")
        _WORKERS.update(compiled=wc, python=wp, fresh=fresh)
    return _WORKERS


def setup_concrete(item):
    # the replay process only builds operands and compares; keep it independent of the committed binary
    if 'tenpy' not in sys.modules:
        os.environ['TENPY_NO_CYTHON'] = '1'


def setup_symbolic(case):
    Bd.setup_symbolic_tierA()


# ====================================================================================== (de)serialisation
def _nd(a):
    a = np.asarray(a)
    d = {'t': 'nd', 'dtype': str(a.dtype), 'shape': list(a.shape)}
    if a.dtype.kind == 'c':
        d['re'] = a.real.reshape(-1).tolist()
        d['im'] = a.imag.reshape(-1).tolist()
    elif a.dtype.kind == 'b':
        d['re'] = a.astype(int).reshape(-1).tolist()
    else:
        d['re'] = a.reshape(-1).tolist()
    return d


def _un_nd(d):
    dt = np.dtype(d['dtype'])
    if 'im' in d:
        a = (np.array(d['re'], dtype=np.float64) + 1j * np.array(d['im'], dtype=np.float64)).astype(dt)
    else:
        a = np.array(d['re']).astype(dt) if len(d['re']) else np.zeros(0, dt)
    return a.reshape(d['shape'])


def _sanity(x):
    """None if x.test_sanity() passes, else the exception class (part of the observable result)"""
    try:
        x.test_sanity()
        return None
    except Exception as e:  # noqa
        return type(e).__name__


def ser(x):
    """npc objects / arrays / numbers -> JSON-able; used for operands (harness -> workers) and results (workers -> harness)"""
    import tenpy.linalg.np_conserved as npc
    if isinstance(x, npc.Array):
        order = np.lexsort(x._qdata.T) if len(x._data) > 1 else np.arange(len(x._data))
        return {'t': 'arr', 'legs': [ser(l) for l in x.legs], 'labels': list(x._labels), 'qtotal': [int(q) for q in x.qtotal], 'dtype': str(x.dtype),
                'shape': [int(s) for s in x.shape], 'qdata': [[int(v) for v in x._qdata[i]] for i in order], 'data': [_nd(x._data[i]) for i in order],
                'raw_order': [int(i) for i in np.argsort(order)], 'qdata_sorted': bool(x._qdata_sorted),
                'block_dtypes': [str(x._data[i].dtype) for i in order], 'sanity': _sanity(x)}
    if isinstance(x, npc.LegPipe):
        return {'t': 'pipe', 'legs': [ser(l) for l in x.legs], 'qconj': int(x.qconj), 'sorted': bool(x.sorted), 'bunched': bool(x.bunched),
                'mod': [int(m) for m in x.chinfo.mod], 'slices': [int(s) for s in x.slices], 'charges': np.asarray(x.charges, dtype=np.int64).tolist(),
                'q_map': np.asarray(x.q_map, dtype=np.int64).tolist(), 'q_map_slices': [int(v) for v in x.q_map_slices],
                'perm': None if x._perm is None else [int(v) for v in x._perm], 'strides': [int(v) for v in x._strides]}
    if isinstance(x, npc.LegCharge):
        return {'t': 'leg', 'mod': [int(m) for m in x.chinfo.mod], 'slices': [int(s) for s in x.slices], 'qconj': int(x.qconj),
                'charges': np.asarray(x.charges, dtype=np.int64).tolist(), 'sorted': bool(x.sorted), 'bunched': bool(x.bunched)}
    if isinstance(x, np.ndarray):
        return _nd(x)
    if isinstance(x, (list, tuple)):
        return [ser(v) for v in x]
    if isinstance(x, (bool, np.bool_)):
        return {'t': 'bool', 'v': bool(x)}
    if isinstance(x, (int, np.integer)):
        return {'t': 'int', 'v': int(x)}
    if isinstance(x, (float, complex, np.floating, np.complexfloating)):
        return {'t': 'num', 'dtype': str(np.asarray(x).dtype), 're': float(np.real(x)), 'im': float(np.imag(x))}
    if x is None or isinstance(x, str):
        return {'t': 'lit', 'v': x}
    raise TypeError(f'cannot serialise {type(x)}')


def unser(d, chinfos):
    import tenpy.linalg.np_conserved as npc
    if isinstance(d, list):
        return [unser(v, chinfos) for v in d]
    t = d['t']
    if t in ('leg', 'pipe'):
        key = tuple(d['mod'])
        if key not in chinfos:
            chinfos[key] = npc.ChargeInfo(list(key))
        ch = chinfos[key]
        if t == 'leg':
            l = npc.LegCharge.from_qind(ch, np.array(d['slices'], dtype=np.intp), np.array(d['charges'], dtype=np.int64).reshape(len(d['slices']) - 1, len(key)),
                                        d['qconj'])
            l.sorted, l.bunched = d['sorted'], d['bunched']
            return l
        legs = [unser(l, chinfos) for l in d['legs']]
        return npc.LegPipe(legs, qconj=d['qconj'], sort=d['sorted'], bunch=d['bunched'])
    if t == 'arr':
        legs = [unser(l, chinfos) for l in d['legs']]
        A = npc.Array(legs, np.dtype(d['dtype']), np.array(d['qtotal'], dtype=np.int64), d['labels'])
        n = len(d['data'])
        order = d.get('raw_order') or list(range(n))  # restore the block order the harness had (possibly unsorted)
        A._data = [_un_nd(d['data'][i]) for i in order]
        A._qdata = np.array([d['qdata'][i] for i in order], dtype=np.intp).reshape(n, len(legs))
        A._qdata_sorted = bool(d['qdata_sorted'])
        return A
    if t == 'nd':
        return _un_nd(d)
    if t == 'num':
        v = complex(d['re'], d['im'])
        dt = np.dtype(d['dtype'])
        return dt.type(v) if dt.kind == 'c' else dt.type(v.real)
    return d['v']


# ====================================================================================== the programs
PROGRAMS = {}


def program(f):
    PROGRAMS[f.__name__] = f
    return f


class NS:

    def __init__(self):
        import tenpy.linalg.np_conserved as npc
        from tenpy.linalg import charges
        self.npc, self.ch = npc, charges


# -- public operations
@program
def tensordot(N, ops, args):
    return N.npc.tensordot(ops[0], ops[1], axes=_axes(args['axes']))


def _axes(a):
    return a if isinstance(a, int) else (list(a[0]), list(a[1]))


@program
def inner(N, ops, args):
    return N.npc.inner(ops[0], ops[1], axes=args['axes'] if isinstance(args['axes'], str) else _axes(args['axes']), do_conj=args['do_conj'])


@program
def combine_split(N, ops, args):
    a = ops[0]
    c = a.combine_legs(args['combine'], new_axes=args.get('new_axes'), qconj=args.get('qconj'))
    s = c.split_legs()
    return [c, s]


@program
def transpose(N, ops, args):
    a = ops[0]
    t = a.transpose(args['perm'])
    u = a.copy(deep=True).itranspose(args['perm'])
    return [t, u, a]


@program
def iadd_prefactor_other(N, ops, args):
    a = ops[0].copy(deep=True)
    a.iadd_prefactor_other(ops[2], ops[1])
    return [a, ops[1]]


@program
def binary(N, ops, args):
    a, b = ops[0], ops[1]
    return [a + b, a - b, a.copy(deep=True).__iadd__(b), ops[2] * a, a * ops[2], a.copy(deep=True).__isub__(b)]


@program
def iscale_prefactor(N, ops, args):
    a = ops[0].copy(deep=True)
    a.iscale_prefactor(ops[1])
    z = ops[0].copy(deep=True)
    z.iscale_prefactor(0.)
    return [a, z]


@program
def legpipe(N, ops, args):
    p = N.npc.LegPipe(list(ops), qconj=args['qconj'], sort=args['sort'], bunch=args['bunch'])
    return [p, p.conj(), p.to_LegCharge()]


@program
def leg_ops(N, ops, args):
    leg = ops[0].copy()
    leg.bunched = leg.sorted = False  # make bunch() / sort() do their work instead of trusting the flags
    out = [leg.bunch()[1], leg.sort(bunch=True)[1], N.npc.LegCharge.from_qflat(leg.chinfo, leg.to_qflat(), leg.qconj)]
    perm, _ = leg.sort(bunch=False)
    out.append(np.asarray(perm, dtype=np.int64))
    return out


# -- unit level: the paired kernels called directly
def _i64(x):
    """int64 C-array for the kernels; symbolic integers (symbolic mode) stay symbolic"""
    x = np.asarray(x)
    if x.dtype == object and any(type(v).__module__ == 'symx.scalars' for v in x.reshape(-1)):
        return x
    return np.ascontiguousarray(x, dtype=np.int64)


@program
def u_find_row_differences(N, ops, args):
    return N.ch._find_row_differences(_i64(ops[0]))


@program
def u_map_blocks(N, ops, args):
    return N.ch._map_blocks(np.array(args['sizes'], dtype=np.intp))


@program
def u_sliced_copy(N, ops, args):
    dest, src = np.array(ops[0], order='C'), np.array(ops[1], order='C')
    N.ch._sliced_copy(dest, np.array(args['dest_beg'], np.intp), src, np.array(args['src_beg'], np.intp), np.array(args['shape'], np.intp))
    return [dest, src]


@program
def u_make_stride(N, ops, args):
    shape = np.array(args['shape'], dtype=np.intp)
    return [N.ch._make_stride(shape, True), N.ch._make_stride(shape, False)]


@program
def u_make_valid(N, ops, args):
    ch = N.npc.ChargeInfo(args['mod'])
    q = _i64(ops[0])
    return [ch.make_valid(q.copy()), ch.make_valid(q[0].copy()), ch.make_valid(None), bool(ch.check_valid(q)), bool(ch.check_valid(ch.make_valid(q.copy()))), q]


@program
def u_imake_contiguous(N, ops, args):
    a = ops[0].transpose(args['perm'])  # non-contiguous blocks
    a._imake_contiguous()
    return [a, [bool(t.flags['C_CONTIGUOUS']) for t in a._data]]


@program
def u_tensordot_workers(N, ops, args):
    a, b, axes = N.npc._tensordot_transpose_axes(ops[0], ops[1], _axes(args['axes']))
    out = [a, b, int(axes)]
    no_block = a.stored_blocks == 0 or b.stored_blocks == 0
    one_block = a.stored_blocks == 1 and b.stored_blocks == 1
    if not no_block and not one_block and axes > 0 and not (axes == a.rank and axes == b.rank):
        # (the special cases are handled by tensordot() before the worker is called: documented precondition of the worker)
        out.append(N.npc._tensordot_worker(a, b, axes))
    return out


@program
def u_inner_worker(N, ops, args):
    return N.npc._inner_worker(ops[0], ops[1], args['do_conj'])


@program
def u_combine_split_workers(N, ops, args):
    npc = N.npc
    a = ops[0]
    k = args['k']  # combine the first k legs (standard form of the arguments of _combine_legs_worker)
    pipe = npc.LegPipe(a.legs[:k], qconj=args.get('qconj', 1))
    res = npc.Array([pipe] + list(a.legs[k:]), a.dtype, a.qtotal, ['(' + '.'.join(a._labels[:k]) + ')'] + list(a._labels[k:]))
    if a.stored_blocks > 0:
        npc._combine_legs_worker(a, res, [list(range(k))], np.arange(k, a.rank, dtype=np.intp), np.array([0], np.intp),
                                 np.arange(1, res.rank, dtype=np.intp), [pipe])
    out = [res]
    if res.stored_blocks > 0:
        out.append(npc._split_legs_worker(res, [0], 0.))
    return out


def worker_main():
    """JSON lines on stdin/stdout: {'prog', 'ops', 'args'} -> {'res': ...} | {'exc': class name}"""
    import logging
    import warnings
    warnings.simplefilter('ignore')
    logging.disable(logging.CRITICAL)
    N = NS()
    from tenpy.tools import optimization
    out = sys.stdout
    for line in sys.stdin:
        msg = json.loads(line)
        if 'hello' in msg:
            h = getattr(optimization, '_npc_helper_module', None)
            ans = {'have_cython': bool(optimization.have_cython_functions), 'helper_file': getattr(h, '__file__', None),
                   'tenpy_file': N.npc.__file__, 'no_cython_env': os.environ.get('TENPY_NO_CYTHON')}
        else:
            try:
                ops = unser(msg['ops'], {})
                ans = {'res': ser(PROGRAMS[msg['prog']](N, ops, msg['args']))}
            except Exception as e:  # noqa: the exception CLASS is part of the observable behaviour
                ans = {'exc': type(e).__name__, 'msg': str(e)[:200]}
        out.write(json.dumps(ans) + '\n')
        out.flush()


# ====================================================================================== differential (concrete mode)
def _cast(x, dt):
    """dtype variant of an operand (the harness builds complex128 / int64 data from the solver model)"""
    import tenpy.linalg.np_conserved as npc
    dt = np.dtype(dt)

    def conv(a):
        a = np.asarray(a)
        if dt.kind == 'c':
            return a.astype(dt)
        if dt.kind == 'f':
            return a.real.astype(dt)
        return np.rint(4 * a.real).astype(dt)

    if isinstance(x, npc.Array):
        y = x.copy(deep=True)
        y._data = [conv(t) for t in y._data]
        y.dtype = dt
        return y
    if isinstance(x, np.ndarray) and x.dtype.kind in 'fc':
        return conv(x)
    if isinstance(x, (float, complex, np.floating, np.complexfloating)):
        return conv(np.asarray(x))[()]
    return x


def _signature(prog, args, ops):
    import tenpy.linalg.np_conserved as npc
    parts = [prog, json.dumps(args, sort_keys=True, default=str)]
    blocks = 0
    for o in ops:
        if isinstance(o, npc.Array):
            blocks += o.stored_blocks
            parts.append(json.dumps([[l.slices.tolist(), np.asarray(l.charges).tolist(), int(l.qconj)] for l in o.legs] +
                                    [o._qdata.tolist(), np.asarray(o.qtotal).tolist()]))
        elif isinstance(o, npc.LegCharge):
            blocks += o.block_number
            parts.append(json.dumps([o.slices.tolist(), np.asarray(o.charges).tolist(), int(o.qconj)]))
        elif isinstance(o, np.ndarray):
            blocks += o.size
            parts.append(json.dumps(o.tolist()) if o.dtype.kind in 'iu' else str(o.shape))
    if not any(isinstance(o, (npc.Array, npc.LegCharge, np.ndarray)) for o in ops):
        blocks = 1
    return hashlib.sha1('|'.join(parts).encode()).hexdigest()[:12], blocks


def _prec_tol(dtypes, tol):
    """tolerance of the least precise dtype involved (exact for integers)"""
    t = 0.
    for d in dtypes:
        d = np.dtype(d)
        if d.kind in 'fc':
            t = max(t, 1e-5 if d.itemsize // (2 if d.kind == 'c' else 1) == 4 else max(tol, 1e-12))
    return t


def _compare(ctx, a, b, where, tol, nd_dtype=True):
    """serialised results of the two builds.  The dtype of result containers is NOT part of the property (DESIGN section 7:
    dtype promotion is outside every claim): dtype differences are counted in the notes, values are compared."""
    if isinstance(a, list) or isinstance(b, list):
        if not ctx.prove(isinstance(a, list) and isinstance(b, list) and len(a) == len(b), f'{where}: same number of results'):
            return
        for x, y in zip(a, b):
            _compare(ctx, x, y, where, tol, nd_dtype)
        return
    ta, tb = a['t'], b['t']
    scalar = ('num', 'int', 'bool')
    if ta in scalar and tb in scalar:
        va = complex(a['re'], a['im']) if ta == 'num' else complex(a['v'])
        vb = complex(b['re'], b['im']) if tb == 'num' else complex(b['v'])
        da, db = a.get('dtype', 'int64'), b.get('dtype', 'int64')
        ctx.prove(da == db and ta == tb, f'{where}: dtype of a scalar result')
        tl = _prec_tol([da, db], tol)
        if tl == 0.:
            ctx.prove(va == vb, f'{where}: integer values identical')
        else:
            ctx.prove_eq(np.array([va]), np.array([vb]), f'{where}: values', tol=tl)
        return
    if not ctx.prove(ta == tb, f'{where}: same kind of result'):
        return
    t = ta
    if t == 'nd':
        if not ctx.prove(a['shape'] == b['shape'], f'{where}: shape'):
            return
        if nd_dtype:
            ctx.prove(a['dtype'] == b['dtype'], f'{where}: dtype of an ndarray result')
        x, y = _un_nd(a), _un_nd(b)
        tl = _prec_tol([a['dtype'], b['dtype']], tol)
        if tl == 0.:
            ctx.prove(bool(np.array_equal(x, y)), f'{where}: integer values identical')
        else:
            ctx.prove_eq(x.astype(complex), y.astype(complex), f'{where}: values', tol=tl)
    elif t == 'lit':
        ctx.prove(a['v'] == b['v'], f'{where}: identical')
    elif t in ('leg', 'pipe'):
        keys = [k for k in a if k != 'legs']
        ctx.prove(all(a[k] == b.get(k) for k in keys), f'{where}: leg charges, slices, qconj, flags' + (', pipe maps' if t == 'pipe' else ''))
        if t == 'pipe':
            _compare(ctx, a['legs'], b['legs'], where, tol)
    elif t == 'arr':
        ctx.prove(a['labels'] == b['labels'], f'{where}: labels')
        ctx.prove(a['qtotal'] == b['qtotal'], f'{where}: qtotal')
        ctx.prove(a['shape'] == b['shape'], f'{where}: shape')
        ctx.prove(a.get('sanity') == b.get('sanity'), f'{where}: test_sanity of the result passes / raises the same class in both builds')
        if a['data'] or b['data']:
            # results WITH stored blocks: declared dtype and the dtype of every stored block are part of the comparison
            ctx.prove(a['dtype'] == b['dtype'], f'{where}: declared dtype of a result with stored blocks')
            ctx.prove(a.get('block_dtypes') == b.get('block_dtypes'), f'{where}: dtypes of the stored blocks')
        elif a['dtype'] != b['dtype']:
            ctx.note(f'dtype_differs_without_stored_blocks:{where}')  # the only thing left open, see OUTSIDE
        _compare(ctx, a['legs'], b['legs'], where, tol)
        if ctx.prove(a['qdata'] == b['qdata'], f'{where}: block structure'):
            _compare(ctx, a['data'], b['data'], where, tol, nd_dtype=False)


def differential(ctx, prog, ops, args):
    W = workers()
    if not W['fresh']:
        if 'failure' not in W:
            W['failure'] = _build_failure()
        have_tools, log = W['failure']
        if have_tools:  # compiler and Cython are there: the CURRENT tree does not build -> the compiled configuration is broken
            ctx.fail('the extension does not build from the current tree', log.replace('\n', ' | ')[-300:])
        else:
            ctx.note('LIMITATION_no_tool_chain_fallback_to_committed_binary')
    sig, blocks = _signature(prog, args, ops)
    if blocks > 0:
        ctx.note(f'nontrivial:{prog}:{sig}')
    import tenpy.linalg.np_conserved as npc
    has_values = any(isinstance(o, (npc.Array, float, complex)) or (isinstance(o, np.ndarray) and o.dtype.kind in 'fc') for o in ops)
    variants = ([(d, d) for d in DTYPES] + list(MIXED)) if has_values else [('int64', 'int64')]  # pure charge / index kernels: one variant
    for da, db in variants:
        # first Array operand gets da, the others db
        cast, first = [], True
        for o in ops:
            if isinstance(o, npc.Array) and first:
                cast.append(_cast(o, da))
                first = False
            else:
                cast.append(_cast(o, db))
        if da != db and sum(isinstance(o, npc.Array) for o in ops) < 2 and not any(isinstance(o, (float, complex)) for o in ops):
            continue
        msg = {'prog': prog, 'ops': ser(cast), 'args': args}
        rc = W['compiled'].call(msg)
        rp = W['python'].call(msg)
        ctx.note('evaluations')
        where = (f'{prog}[{da}' + (f',{db}]' if da != db else ']')) if has_values else prog
        if 'exc' in rc or 'exc' in rp:
            ctx.prove(rc.get('exc') == rp.get('exc'), f'{where}: same exception class (or none) in both builds')
            ctx.note('evaluations_raising')
            continue
        _compare(ctx, rc['res'], rp['res'], where, TOL[da] if TOL[da] >= TOL[db] else TOL[db])


# ====================================================================================== harness functions (two modes)
_WITNESSES = []  # solver models of the feasible paths explored in this case worker (symbolic mode)


def _run(ctx, prog, ops, args, oracle=None):
    if ctx.symbolic:
        res = PROGRAMS[prog](NS(), ops, args)  # the Python kernels on symbolic operands: enumerates their paths
        if oracle is not None:
            oracle(res)
        ctx.prove(True, f'{prog}: path witness')
        ctx.note(f'paths:{prog}')
        m = ctx.path_model()
        if m is not None:
            _WITNESSES.append(m)
        else:
            ctx.note('paths_without_model')
    else:
        differential(ctx, prog, ops, args)


def finish_case(case, res):
    """runner hook, called in the (parallel) case worker after the exploration: every collected path witness is turned
    into concrete operands by re-running the harness function on a ConcreteCtx and handed to the two builds.
    A difference becomes a violation candidate; the runner then replays it under /venv/bin/python before reporting."""
    from symx.concrete import run_concrete
    fn = globals()[case['fn']]
    params = case.get('params', {})
    seen = set(f[0] for f in res.failures)
    if os.environ.get('C04_NO_DIFF'):  # development: sizing of the path counts only
        del _WITNESSES[:]
    for m in _WITNESSES:
        r = run_concrete(lambda c: fn(c, **params), m)
        for k, v in r.get('notes', {}).items():
            res.notes[k] = res.notes.get(k, 0) + v
        if r.get('assumption_violated'):
            res.notes['witness_outside_assumptions'] = res.notes.get('witness_outside_assumptions', 0) + 1
            continue
        res.notes['witnesses_compared'] = res.notes.get('witnesses_compared', 0) + 1
        for lab, det in r['failures']:
            if lab not in seen:
                seen.add(lab)
                res.failures.append((lab, 'violation', m, str(det)[:300]))
    del _WITNESSES[:]


def _legs(ctx, sizes, mods, qconjs, prefix='l'):
    ch = Bd.chinfo(mods)
    return ch, [Bd.leg(ctx, f'{prefix}{k}', sz, ch, qc) for k, (sz, qc) in enumerate(zip(sizes, qconjs))]


def _bounded(ctx, arrs, w=2**20):
    for a in arrs:
        for v in np.asarray(a).reshape(-1):
            ctx.assume((v > -w) & (v < w) if ctx.symbolic else (-w < v < w))


def _tensor(ctx, name, legs, ch, labels, subset='choose'):
    qt = Bd.qvec(ctx, 'qt' + name, ch)
    _bounded(ctx, [qt] + [l.charges for l in legs])
    return Bd.tensor(ctx, name, legs, qt, cplx=True, labels=labels, subset=subset)


def tensordot_case(ctx, sizes_a, sizes_b, mods, form, unit=False, sub_a='choose', sub_b='choose'):
    """a[l0,l1(,l2)] . b: contracted legs of b are the conjugates of a's (shared), free legs independent"""
    ch, la = _legs(ctx, sizes_a, mods, [1, -1, 1][:len(sizes_a)], 'a')
    n = {'last1': 1, 'last2': 2, 'perm': 2, 'labels': 1, 'outer': 0, 'full': len(la)}[form]
    n = min(n, len(la))
    free = [Bd.leg(ctx, f'b{k}', sz, ch, 1) for k, sz in enumerate(sizes_b)]
    contr = [l.conj() for l in la[len(la) - n:]] if n else []
    if form == 'perm':
        lb = free + contr[::-1]  # b = (free..., conj(a_last), conj(a_secondlast))
        axes = [[len(la) - 2, len(la) - 1], [len(lb) - 1, len(lb) - 2]]
    elif form == 'labels':
        lb = free + contr
        axes = [['a' + str(len(la) - 1)], ['c0']]
    elif form == 'full':
        lb = contr
        axes = len(la)
    else:
        lb = contr + free
        axes = n
    A = _tensor(ctx, 'A', la, ch, [f'a{k}' for k in range(len(la))], sub_a)
    if form == 'labels':
        lab_b = [f'f{k}' for k in range(len(free))] + ['c0']
    else:
        lab_b = [f'b{k}' for k in range(len(lb))]
    B = _tensor(ctx, 'B', lb, ch, lab_b, sub_b)
    ctx.note('stored_blocks', A.stored_blocks + B.stored_blocks)
    dA, dB = (A.to_ndarray(), B.to_ndarray()) if ctx.symbolic else (None, None)

    def oracle(res):
        if isinstance(axes, int):
            ref = np.tensordot(dA, dB, axes=axes)
        else:
            ia = [A.get_leg_index(x) for x in axes[0]]
            ib = [B.get_leg_index(x) for x in axes[1]]
            ref = np.tensordot(dA, dB, axes=(ia, ib))
        out = res[-1] if isinstance(res, list) else res
        if isinstance(res, list) and len(res) == 3:
            return  # worker not applicable (trivial case)
        ctx.prove_eq(out.to_ndarray() if hasattr(out, 'to_ndarray') else out, ref, 'python kernel: tensordot == dense')

    _run(ctx, 'u_tensordot_workers' if unit else 'tensordot', [A, B], {'axes': axes}, oracle)


def inner_case(ctx, sizes, mods, do_conj, permuted=False, unit=False, sub_a='choose', sub_b='choose'):
    ch, la = _legs(ctx, sizes, mods, [1, -1, 1][:len(sizes)], 'a')
    A = _tensor(ctx, 'A', la, ch, [f'a{k}' for k in range(len(la))], sub_a)
    lb = list(la) if do_conj else [l.conj() for l in la]
    order = list(range(len(la)))
    if permuted:
        order = order[::-1]
    B = _tensor(ctx, 'B', [lb[i] for i in order], ch, [f'b{k}' for k in range(len(la))], sub_b)
    axes = 'range' if not permuted else [list(range(len(la))), [order.index(i) for i in range(len(la))]]
    dA, dB = (A.to_ndarray(), B.to_ndarray()) if ctx.symbolic else (None, None)

    def oracle(res):
        bb = np.transpose(dB, [order.index(i) for i in range(len(la))])
        aa = np.conj(dA) if do_conj else dA
        if do_conj:
            aa = np.array([v.conjugate() for v in dA.reshape(-1)], dtype=object).reshape(dA.shape)
        ctx.prove_eq(res, np.sum(aa * bb), 'python kernel: inner == dense')

    if unit:
        _run(ctx, 'u_inner_worker', [A, B], {'do_conj': do_conj}, oracle)
    else:
        _run(ctx, 'inner', [A, B], {'axes': axes, 'do_conj': do_conj}, oracle)


def combine_case(ctx, sizes, mods, combine, new_axes=None, qconj=None, unit=False, sub='choose'):
    ch, la = _legs(ctx, sizes, mods, [1, -1, 1][:len(sizes)], 'a')
    A = _tensor(ctx, 'A', la, ch, [f'a{k}' for k in range(len(la))], sub)
    ctx.note('stored_blocks', A.stored_blocks)
    dA = A.to_ndarray() if ctx.symbolic else None

    def oracle(res):
        if len(res) == 2:
            back = res[-1] if unit else res[-1].transpose(A.get_leg_labels())  # (the bare worker does not restore labels / order)
            ctx.prove_eq(back.to_ndarray(), dA, 'python kernel: split(combine) == id')

    if unit:
        _run(ctx, 'u_combine_split_workers', [A], {'k': 2, 'qconj': qconj or 1}, oracle)
    else:
        args = {'combine': combine}
        if new_axes is not None:
            args['new_axes'] = new_axes
        if qconj is not None:
            args['qconj'] = qconj
        _run(ctx, 'combine_split', [A], args, oracle)


def transpose_case(ctx, sizes, mods, unit=False, sub='choose'):
    import itertools
    ch, la = _legs(ctx, sizes, mods, [1, -1, 1][:len(sizes)], 'a')
    A = _tensor(ctx, 'A', la, ch, [f'a{k}' for k in range(len(la))], sub)
    perms = list(itertools.permutations(range(len(la))))
    perm = list(perms[ctx.choice('perm', len(perms))])
    dA = A.to_ndarray() if ctx.symbolic else None
    _run(ctx, 'u_imake_contiguous' if unit else 'transpose', [A], {'perm': perm},
         lambda res: ctx.prove_eq(res[0].to_ndarray(), np.transpose(dA, perm), 'python kernel: transpose == dense'))


def axpy_case(ctx, sizes, mods, prog, sub_a='choose', sub_b='choose'):
    ch, la = _legs(ctx, sizes, mods, [1, -1, 1][:len(sizes)], 'a')
    labels = [f'a{k}' for k in range(len(la))]
    A = _tensor(ctx, 'A', la, ch, labels, sub_a)
    B = Bd.tensor(ctx, 'B', la, A.qtotal, cplx=True, labels=labels, subset=sub_b)
    alpha = ctx.cplx('alpha')
    dA, dB = (A.to_ndarray(), B.to_ndarray()) if ctx.symbolic else (None, None)
    if prog == 'iscale_prefactor':
        _run(ctx, prog, [A, alpha], {}, lambda res: ctx.prove_eq(res[0].to_ndarray(), alpha * dA, 'python kernel: iscale_prefactor == dense'))
    elif prog == 'iadd_prefactor_other':
        _run(ctx, prog, [A, B, alpha], {}, lambda res: ctx.prove_eq(res[0].to_ndarray(), dA + alpha * dB, 'python kernel: iadd_prefactor_other == dense'))
    else:
        _run(ctx, 'binary', [A, B, alpha], {}, lambda res: ctx.prove_eq(res[1].to_ndarray(), dA - dB, 'python kernel: a - b == dense'))


def legpipe_case(ctx, sizes, mods, qconjs, pipe_qconj, sort, bunch):
    ch, legs = _legs(ctx, sizes, mods, qconjs)
    _bounded(ctx, [l.charges for l in legs])
    _run(ctx, 'legpipe', legs, {'qconj': pipe_qconj, 'sort': sort, 'bunch': bunch},
         lambda res: ctx.prove(res[0].ind_len == int(np.prod([l.ind_len for l in legs])), 'python kernel: pipe length'))


def legops_case(ctx, sizes, mods, qconj):
    ch, legs = _legs(ctx, [sizes], mods, [qconj])
    _bounded(ctx, [legs[0].charges])
    _run(ctx, 'leg_ops', legs, {}, lambda res: ctx.prove(res[0].ind_len == legs[0].ind_len, 'python kernel: bunch keeps length'))


def unit_case(ctx, prog, n=3, mods=(1, ), qn=1):
    if prog == 'u_find_row_differences':
        q = ctx.int_array('q', (n, qn))
        _bounded(ctx, [q])
        _run(ctx, prog, [q], {}, lambda res: ctx.prove(int(res[0]) == 0 and int(res[-1]) == n, 'python kernel: endpoints'))
    elif prog == 'u_map_blocks':
        sizes = [ctx.choice(f's{i}', 3) for i in range(n)]
        _run(ctx, prog, [], {'sizes': sizes}, lambda res: ctx.prove(len(res) == sum(sizes), 'python kernel: length'))
    elif prog == 'u_sliced_copy':
        shp = (2, 3)
        dest, src = ctx.array('d', shp, cplx=True), ctx.array('s', shp, cplx=True)
        sl = [ctx.choice(f'n{i}', shp[i] + 1) for i in range(2)]
        db = [ctx.choice(f'db{i}', shp[i] - sl[i] + 1) for i in range(2)]
        sb = [ctx.choice(f'sb{i}', shp[i] - sl[i] + 1) for i in range(2)]
        _run(ctx, prog, [dest, src], {'dest_beg': db, 'src_beg': sb, 'shape': sl},
             lambda res: ctx.prove_eq(res[0][db[0]:db[0] + sl[0], db[1]:db[1] + sl[1]], src[sb[0]:sb[0] + sl[0], sb[1]:sb[1] + sl[1]], 'python kernel: slice copied'))
    elif prog == 'u_make_stride':
        shape = [ctx.choice(f's{i}', 4) + (0 if i == 0 else 1) for i in range(n)]
        _run(ctx, prog, [], {'shape': shape}, lambda res: ctx.prove(int(res[0][-1]) == 1 and int(res[1][0]) == 1, 'python kernel: unit stride'))
    elif prog == 'u_make_valid':
        q = ctx.int_array('q', (2, len(mods)))
        _bounded(ctx, [q])
        _run(ctx, prog, [q], {'mod': list(mods)}, lambda res: ctx.prove(res[4] is True or bool(res[4]), 'python kernel: make_valid output is valid'))
    else:
        raise ValueError(prog)


# ====================================================================================== cases
def CASES(tier, seed):
    th = tier == 'thorough'
    O = dict(max_paths=20000 if th else 3000, max_wall_s=1500 if th else 200, validate_paths=2, hard_timeout_s=1750 if th else 235)
    cases = []

    def add(name, fn, **params):
        cases.append(dict(name=name, fn=fn, params=params, opts=dict(O)))

    mods_list = [[1], [2], [3]] + ([[1, 2]] if th else [])
    two = [1, 2]
    for mods in mods_list:
        # block-layout families: quick = stored-block selection symbolic for the first operand of U(1) cases only;
        # thorough = symbolic for the first operand with every single modulus, for both operands with mod 1 and 2,
        # two-block free legs for U(1); two charges U(1)xZ2 (thorough): one two-block leg per operand, all allowed blocks stored
        # (the number of charge-coincidence patterns of two-block legs with two charges exceeds 20000 paths per case)
        dbl = len(mods) == 2
        sa = 'choose' if ((th and not dbl) or mods == [1]) else 'all'
        sbs = 'choose' if (th and mods in ([1], [2])) else 'all'
        sb = [two] if (th and mods == [1]) else [[2]]
        S = dict(sub_a=sa, sub_b=sbs)
        l2 = [2] if dbl else [2, 1]  # second leg
        for form in ('last1', 'labels', 'outer'):
            add(f'tensordot[{form},mod={mods}]', 'tensordot_case', sizes_a=[two, l2], sizes_b=sb, mods=mods, form=form, **S)
        add(f'tensordot[full,mod={mods}]', 'tensordot_case', sizes_a=[two, l2], sizes_b=[], mods=mods, form='full', **S)
        add(f'tensordot[perm,mod={mods}]', 'tensordot_case', sizes_a=[[2], two, l2], sizes_b=[[1, 1]] if (th and not dbl) else [[2]], mods=mods,
            form='perm', sub_a=sa, sub_b='all')
        add(f'unit._tensordot_worker[mod={mods}]', 'tensordot_case', sizes_a=[two, l2], sizes_b=[[2]] if dbl else [two], mods=mods, form='last1',
            unit=True, sub_a='all' if (not th or dbl) else 'choose', sub_b='all')
        for do_conj in (False, True):
            add(f'inner[do_conj={do_conj},mod={mods}]', 'inner_case', sizes=[two, l2], mods=mods, do_conj=do_conj, **S)
            add(f'unit._inner_worker[do_conj={do_conj},mod={mods}]', 'inner_case', sizes=[two, l2], mods=mods, do_conj=do_conj, unit=True, **S)
        add(f'inner[permuted,mod={mods}]', 'inner_case', sizes=[two, l2], mods=mods, do_conj=False, permuted=True, sub_a=sa, sub_b='all')
        l3 = [2, 1] if (th and not dbl) else [2]
        add(f'combine_split[01,mod={mods}]', 'combine_case', sizes=[two, [2] if dbl else [1, 1], l3], mods=mods, combine=[[0, 1]], sub=sa)
        add(f'unit._combine_split_workers[mod={mods}]', 'combine_case', sizes=[two, [2] if dbl else [1, 1], l3], mods=mods, combine=None, unit=True,
            sub=sa)
        add(f'transpose[mod={mods}]', 'transpose_case', sizes=[two, [2] if dbl else [1, 1], [2]], mods=mods, sub='choose' if (th and not dbl) else 'all')
        for prog in ('iadd_prefactor_other', 'iscale_prefactor', 'binary'):
            add(f'{prog}[mod={mods}]', 'axpy_case', sizes=[two, l2], mods=mods, prog=prog, sub_a=sa,
                sub_b='choose' if ((th and not dbl) or (mods == [2] and prog != 'iscale_prefactor')) else 'all')
        for sort, bunch in ((True, True), (False, False), (True, False), (False, True)):
            add(f'LegPipe[mod={mods},sort={sort},bunch={bunch}]', 'legpipe_case', sizes=[two, [2] if dbl else [1, 1]], mods=mods, qconjs=[1, -1],
                pipe_qconj=1 if sort else -1, sort=sort, bunch=bunch)
        add(f'unit.make_valid/check_valid[mod={mods}]', 'unit_case', prog='u_make_valid', mods=mods + [1])
        add(f'LegCharge.bunch/sort/from_qflat[mod={mods}]', 'legops_case', sizes=[1, 2] if dbl else [1, 2, 1], mods=mods, qconj=-1)
    add('LegCharge.bunch/sort/from_qflat[empty leg]', 'legops_case', sizes=[], mods=[1], qconj=1)
    add('combine_split[20,new_axes,mod=[1]]', 'combine_case', sizes=[two, [1, 1], [2]], mods=[1], combine=[[2, 0]], new_axes=[1], qconj=-1, sub='all')
    add('combine_split[all,mod=[2]]', 'combine_case', sizes=[two, [1, 1], [2]], mods=[2], combine=[[0, 1, 2]], sub='choose')
    add('unit._imake_contiguous[mod=[1]]', 'transpose_case', sizes=[two, [1, 1], [2]], mods=[1], unit=True, sub='all')
    add('LegPipe[3legs,mod=[2]]', 'legpipe_case', sizes=[[1, 1], [1, 1], [1, 1]], mods=[2], qconjs=[1, -1, 1], pipe_qconj=1, sort=True, bunch=True)
    for n, qn in ((3, 0), (3, 1), (2, 2), (0, 1)) + (((3, 2), (4, 1)) if th else ()):
        add(f'unit._find_row_differences[rows={n},qnumber={qn}]', 'unit_case', prog='u_find_row_differences', n=n, qn=qn)
    for n in (0, 3):
        add(f'unit._map_blocks[n={n}]', 'unit_case', prog='u_map_blocks', n=n)
    add('unit._sliced_copy', 'unit_case', prog='u_sliced_copy')
    for n in (1, 3):
        add(f'unit._make_stride[n={n}]', 'unit_case', prog='u_make_stride', n=n)
    if th:
        add('tensordot[last1,3blocks,mod=[1]]', 'tensordot_case', sizes_a=[[1, 2, 1], [2, 1]], sizes_b=[[2]], mods=[1], form='last1', sub_a='all', sub_b='all')
        add('inner[3blocks,mod=[3]]', 'inner_case', sizes=[[1, 2, 1], [2, 1, 1]], mods=[3], do_conj=True, sub_a='all', sub_b='all')
    return cases


if __name__ == '__main__':
    if '--worker' in sys.argv:
        worker_main()
