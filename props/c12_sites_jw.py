"""C12 Local Hilbert spaces -- the fermionic-sign half (DESIGN section 5 C12).

For every enumerated tuple of operator positions and operator names the term, with a SYMBOLIC complex strength,
is pushed through the real pipeline (order_combine_term, coupling_term_handle_JW, multi_coupling_term_handle_JW,
MultiCouplingTerms, MPOGraph -> MPO;  CouplingModel.add_local_term / add_coupling / add_multi_coupling -> calc_H_MPO;
MPS._term_to_ops_list -> expectation_value_term on a symbolic state;  GroupedSite operators) and the dense operator
is compared with   strength x (product, in the order written, of the harness's OWN Jordan-Wigner operators
c_i = (prod_{k<i} JW_k) C_i ).   The solver decides the identity (in particular the sign) for all strengths / states.

The site-algebra half of C12 (commutators of the concrete float matrices of each Site class) has no symbolic input:
plain evaluation, declared not applicable (DESIGN), not built here.
"""
import itertools

import numpy as np

from catalogue import mpo_factory as F

PROPERTY = 'C12'
LEVEL = 'model_checking'
BOUNDS = {
    'quick': 'FermionSite chains of 3 sites (conserve N / parity / None): every tuple of 2 operator positions x names in '
             '{C,Cd,N,JW,Id}, every tuple of 3 positions x names in {C,Cd,N}, every tuple of 4 positions x names in {C,Cd}; '
             'lattice couplings dx in +-{1,2} on 4 sites; expectation_value_term on a symbolic chi=2 state; GroupedSite of 2 fermion sites '
             '(2 groups); canonical anticommutators on 3 sites; strength symbolic complex; the same with fermionic operators renamed '
             '(rename_op) / re-added (add_op need_JW=True); heterogeneous chains (fermion / spin-1/2-fermion / spin sites, 4 sites, no charges) '
             'with site offsets: apply_local_term(i_offset in {1,-1,2}) on symbolic product states for all 2-operator position tuples, '
             'term_correlation_function_right/_left on a symbolic chi=2 state; GroupedSite of heterogeneous / unsorted sub-sites with '
             "charges='independent'/'drop': state labels, operator table and need_JW flags are PLAIN ENUMERATION of concrete tables "
             '(no symbolic input), only the terms on two such groups carry a symbolic strength',
    'thorough': 'additionally 4 sites for 2 and 3 operators (names {C,Cd,N,JW,Id} / {C,Cd,N}) and a fixed third of the 4-operator '
                'position tuples on 4 sites; SpinHalfFermionSite (Cu,Cd,Cdu,Cdd,Ntot) for 2 and 4 operators on 3 sites; GroupedSite of 3 sites',
}
OUTSIDE = ('site operator tables of the predefined sites (concrete matrices: plain evaluation, not applicable); apply_local_term of odd terms '
           'on chains without a parity charge; terms with an odd number of operators from '
           'need_JW_string (only: rejected with ValueError when they act on more than one site); infinite MPS / unit-cell shifts; '
           'correlation_function / term_correlation_function (C08)')
STUBS = ['BLAS contract stub', 'numpy facade for tenpy.networks.mpo / mps / terms / site / models.model / models.lattice']
ASSUMPTIONS = [
    'floats are reals',
    'reading of a term (documented, intro/JordanWigner + Site.need_JW_string): the operator named X on site i stands for '
    '(prod_{k<i} JW_k) X_i when X is in need_JW_string (C, Cd, and JW itself), the plain local operator otherwise; operators are '
    'multiplied in the order written',
    'strengths: every component exactly 0 or of magnitude > 1e-7 (calc_H_MPO drops |strength| < tol_zero = 1e-15 by documentation)',
    'expectation_value_term: value of the window contraction (the state need not be canonical: the oracle contracts the same window)',
]


def setup_symbolic(case):
    from symx import stubs
    import tenpy.networks.mpo as m1
    import tenpy.networks.mps as m2
    import tenpy.networks.terms as m3
    import tenpy.networks.site as m4
    import tenpy.models.model as m5
    import tenpy.models.lattice as m6
    stubs.install_blas()
    stubs.facade_for(m1, m2, m3, m4, m5, m6)


# ---------------------------------------------------------------------------------------------
def _site(kind, conserve):
    if kind == 'spinful':
        return F.make_site('spinful', conserve)
    return F.make_site(kind, conserve)


def _n_jw(tables, term):
    return sum(1 for nm, i in term if nm in tables[i][1])


_ALIAS = {'A': 'C', 'Ad': 'Cd', 'X': 'C', 'Xd': 'Cd'}  # renamed / re-added fermionic operators (kind 'fermion_renamed')


def _charge_ok(conserve, term):
    """does the term commute with the conserved charge of the site (else tenpy rejects it when building charged tensors)"""
    term = [(_ALIAS.get(nm, nm), i) for nm, i in term]
    if conserve in (None, 'None') or conserve == [None, None]:
        return True
    if conserve == 'parity':  # parity of the number of genuinely fermionic operators ('JW' = (-1)^n is even)
        return sum(1 for nm, _ in term if nm in ('C', 'Cd')) % 2 == 0
    up = sum({'Cdu': 1, 'Cu': -1}.get(nm, 0) for nm, _ in term)
    if isinstance(conserve, (list, tuple)):  # spinful: N and Sz
        dn = sum({'Cdd': 1, 'Cd': -1}.get(nm, 0) for nm, _ in term)
        return up == 0 and dn == 0
    return sum({'Cd': 1, 'C': -1}.get(nm, 0) for nm, _ in term) == 0


def _strength(ctx, cplx=True):
    """symbolic strength; CouplingModel.calc_H_MPO(tol_zero=1e-15) documents that smaller non-zero prefactors are dropped:
    each component is exactly 0 or of magnitude > 1e-7"""
    s = ctx.num('s', cplx)
    for x in ((s.real, s.imag) if cplx else (s, )):
        ctx.assume((x == 0) | (x > 1.e-7) | (x < -1.e-7) if ctx.symbolic else (x == 0 or abs(x) > 1.e-7))
    return s


def _skip_charge(ctx, conserve, term):
    """terms that change the conserved charge of the site are outside (tenpy rejects them on some routes only, DESIGN section 8)"""
    if _charge_ok(conserve, term):
        return False
    ctx.note('charge_changing_skipped')
    return True


def _termlist_dense(sites, term, s):
    """real pipeline 1: TermList -> order_combine_term -> (multi_)coupling_term_handle_JW -> MPOGraph -> MPO -> dense"""
    from tenpy.networks.terms import TermList
    from tenpy.networks.mpo import MPOGraph
    arr = np.empty(1, dtype=object if not isinstance(s, (float, complex)) else complex)
    arr[0] = s
    tl = TermList([list(term)], arr)
    H = MPOGraph.from_term_list(tl, sites, 'finite').build_MPO()
    return F.mpo_dense_of(H)


class _Model:
    """CouplingModel on a finite chain (real tenpy classes), built once per harness execution"""

    def __init__(self, site, L, explicit_plus_hc=False):
        from tenpy.models.lattice import Chain
        from tenpy.models.model import CouplingModel
        self.lat = Chain(L, site, bc='open', bc_MPS='finite')
        self.M = CouplingModel(self.lat, explicit_plus_hc=explicit_plus_hc)
        # constant background sum_i N_i: keeps the model non-empty on the paths where the symbolic strength is exactly 0
        # (calc_H_MPO of a model without any term cannot determine the MPO leg charges and raises -- not a C12 matter)
        nm = 'N' if 'N' in site.opnames else 'Ntot'
        self.M.add_onsite(1., 0, nm)
        tabs = [F.own_ops(site)] * L
        self.background = sum(F.own_site_op([site] * L, i, nm, tabs) for i in range(L))

    def dense(self):
        H = self.M.calc_H_MPO()
        d = F.mpo_dense_of(H)
        if self.M.explicit_plus_hc:
            d = d + F.conj_obj(d).T
        return d


def _check_term(ctx, sites, tables, term, s, label, routes=('termlist', 'model'), conserve=None):
    """one term: even number of JW operators -> dense equality on every route; odd -> documented ValueError"""
    L = len(sites)
    njw = _n_jw(tables, term)
    nsites = len(set(i for _, i in term))
    want = F.own_term_dense(sites, term, tables) * s if njw % 2 == 0 else None
    for route in routes:
        try:
            if route == 'termlist':
                got = _termlist_dense(sites, term, s)
            else:
                m = _Model(sites[0], L)
                m.M.add_local_term(s, [(nm, (i, 0)) for nm, i in term])
                got = m.dense() - m.background
        except ValueError as e:
            if want is None:
                ctx.prove(True, f'{label}: odd number of Jordan-Wigner operators is rejected ({route})')
                ctx.note('odd_rejected')
            else:
                ctx.fail(f'{label}: even term rejected ({route})', str(e)[:120])
            continue
        if want is None:
            if nsites == 1:
                continue  # a single-site odd operator has no string inside the chain it could be checked against: outside
            ctx.fail(f'{label}: term with an odd number of Jordan-Wigner operators accepted ({route})')
            continue
        ctx.prove_eq(got, want, f'{label}: dense(term) == strength * own JW product ({route})')
        ctx.note('even_terms')


def terms_case(ctx, kind='fermion', conserve='N', L=3, positions=(0, 1), names=('C', 'Cd', 'N', 'JW', 'Id'), cplx=True,
               routes=('termlist', 'model')):
    """all name tuples for one tuple of positions"""
    site = _site(kind, conserve)
    sites = [site] * L
    tables = [F.own_ops(site)] * L
    s = _strength(ctx, cplx)
    for nms in itertools.product(names, repeat=len(positions)):
        term = list(zip(nms, positions))
        if _skip_charge(ctx, conserve, term):
            continue
        _check_term(ctx, sites, tables, term, s, ' '.join(f'{n}_{i}' for n, i in term), routes, conserve)


def car_case(ctx, kind='fermion', conserve='N', L=3):
    """canonical anticommutation relations through the pipeline: {c_i, c_j^dagger} = delta_ij, {c_i, c_j} = 0"""
    site = _site(kind, conserve)
    sites = [site] * L
    s = _strength(ctx, True)
    from tenpy.networks.terms import TermList
    from tenpy.networks.mpo import MPOGraph
    D = site.dim**L
    species = {'fermion': [('C', 'Cd')], 'fermion_renamed': [('A', 'Ad'), ('X', 'Xd')]}.get(kind, [('Cu', 'Cdu'), ('Cd', 'Cdd')])
    same_fermion = kind == 'fermion_renamed'  # A and X are two names of the same annihilator
    ann = [a for a, _ in species]
    cre = dict(species)
    for i, j in itertools.product(range(L), repeat=2):
        for a, b in itertools.product(ann, repeat=2):
            arr = np.empty(2, dtype=object if ctx.symbolic else complex)
            arr[0] = arr[1] = s
            pairs = [(a, cre[b], 1. if (i == j and (a == b or same_fermion)) else 0., 'c c^dagger'), (a, b, 0., 'c c')]
            for x, y, val, what in pairs:
                if conserve == 'N' and what == 'c c':
                    continue  # pair annihilation changes the conserved particle number: such an MPO is rejected (DESIGN section 8)
                tl = TermList([[(x, i), (y, j)], [(y, j), (x, i)]], arr.copy())
                H = MPOGraph.from_term_list(tl, sites, 'finite').build_MPO()
                ctx.prove_eq(F.mpo_dense_of(H), s * val * np.eye(D), f'anticommutator {{{x}_{i}, {y}_{j}}} == {val:g}')


def coupling_case(ctx, kind='fermion', conserve='N', L=4, dx=1, names=('C', 'Cd', 'N', 'JW', 'Id'), plus_hc=False, explicit_plus_hc=False):
    """CouplingModel.add_coupling(strength, 0, op1, 0, op2, dx): sum_x strength op1_x op2_{x+dx} (in this order), dx of either sign"""
    site = _site(kind, conserve)
    sites = [site] * L
    tables = [F.own_ops(site)] * L
    s = _strength(ctx, True)
    hc = {'C': 'Cd', 'Cd': 'C', 'N': 'N', 'JW': 'JW', 'Id': 'Id', 'Cu': 'Cdu', 'Cdu': 'Cu', 'Cdd': 'Cd', 'Ntot': 'Ntot'}
    if kind == 'spinful':
        hc['Cd'] = 'Cdd'
    for o1, o2 in itertools.product(names, repeat=2):
        label = f'{o1}_x {o2}_x{dx:+d}'
        if _skip_charge(ctx, conserve, [(o1, 0), (o2, 1)]):
            continue
        j1, j2 = (o1 in tables[0][1]), (o2 in tables[0][1])
        m = _Model(site, L, explicit_plus_hc)
        try:
            m.M.add_coupling(s, 0, o1, 0, o2, dx, plus_hc=plus_hc)
            got = m.dense() - m.background
        except ValueError as e:
            if j1 != j2:
                ctx.prove(True, f'{label}: exactly one operator needs a Jordan-Wigner string: rejected')
                ctx.note('odd_rejected')
            else:
                ctx.fail(f'{label}: even coupling rejected', str(e)[:120])
            continue
        if j1 != j2:
            # documented: zero strength returns before the operators are looked at
            ctx.prove_eq(got, np.zeros(got.shape), f'{label}: coupling with exactly one Jordan-Wigner operator only accepted with strength 0')
            continue
        want = 0. * s * np.eye(site.dim**L)
        for x in range(L):
            if 0 <= x + dx < L:
                t = F.own_term_dense(sites, [(o1, x), (o2, x + dx)], tables) * s
                want = want + t
                if plus_hc:
                    want = want + F.conj_obj(F.own_term_dense(sites, [(o1, x), (o2, x + dx)], tables) * s).T
        if explicit_plus_hc and not plus_hc:
            # documented: with explicit_plus_hc the model represents H = MPO + h.c. and halves terms added without plus_hc
            want = 0.5 * (want + F.conj_obj(want).T)
        ctx.prove_eq(got, want, f'{label}: add_coupling == sum_x strength * own JW product')
        ctx.note('even_terms')


def multi_coupling_case(ctx, kind='fermion', conserve='N', L=4, dxs=(0, 2, 1), names=('C', 'Cd', 'N')):
    """CouplingModel.add_multi_coupling(strength, [(op, dx, 0), ...]): sum_x strength prod_k op_k(x + dx_k) in the order written"""
    site = _site(kind, conserve)
    sites = [site] * L
    tables = [F.own_ops(site)] * L
    s = _strength(ctx, True)
    for nms in itertools.product(names, repeat=len(dxs)):
        label = ' '.join(f'{n}_x{d:+d}' for n, d in zip(nms, dxs))
        njw = sum(1 for n in nms if n in tables[0][1])
        if _skip_charge(ctx, conserve, [(n, 0) for n in nms]):
            continue
        m = _Model(site, L)
        try:
            m.M.add_multi_coupling(s, [(n, d, 0) for n, d in zip(nms, dxs)])
            got = m.dense() - m.background
        except ValueError as e:
            if njw % 2:
                ctx.prove(True, f'{label}: odd number of Jordan-Wigner operators rejected')
                ctx.note('odd_rejected')
            else:
                ctx.fail(f'{label}: even multi coupling rejected', str(e)[:120])
            continue
        if njw % 2:
            ctx.prove_eq(got, np.zeros(got.shape), f'{label}: odd multi coupling only accepted with strength 0')
            continue
        want = 0. * s * np.eye(site.dim**L)
        for x in range(-L, L):
            if all(0 <= x + d < L for d in dxs):
                want = want + F.own_term_dense(sites, [(n, x + d) for n, d in zip(nms, dxs)], tables) * s
        ctx.prove_eq(got, want, f'{label}: add_multi_coupling == sum_x strength * own JW product')
        ctx.note('even_terms')


_VS = {('N', 3): [[0], [0, 1], [1, 2], [2]], ('parity', 3): [[0], [0, 1], [0, 1], [1]], (None, 3): [1, 2, 2, 1],
       ('N', 4): [[0], [0, 1], [1, 1, 2], [2, 3], [3]], (None, 4): [1, 2, 2, 2, 1], ('parity', 4): [[0], [0, 1], [0, 1], [0, 1], [1]]}


def expval_term_case(ctx, kind='fermion', conserve='N', L=3, n_ops=2, names=('C', 'Cd', 'N', 'JW', 'Id'), cplx_site=1, which=0, of=1):
    """MPS.expectation_value_term (MPS._term_to_ops_list, autoJW) on a symbolic state == <theta| own JW product |theta> on the
    window of the term (all position tuples; a slice `which` of `of` of them)"""
    site = _site(kind, conserve)
    sites = [site] * L
    tables = [F.own_ops(site)] * L
    psi = F.sym_mps(ctx, 'k', sites, _VS[(conserve, L)], cplx=[int(i == cplx_site) for i in range(L)], forms='B')
    k = 0
    for pos in itertools.product(range(L), repeat=n_ops):
        for nms in itertools.product(names, repeat=n_ops):
            k += 1
            if k % of != which:
                continue
            term = list(zip(nms, pos))
            label = ' '.join(f'{n}_{i}' for n, i in term)
            njw = _n_jw(tables, term)
            if _skip_charge(ctx, conserve, term):
                continue
            try:
                got = psi.psi.expectation_value_term(term)
            except ValueError as e:
                if njw % 2:
                    ctx.prove(True, f'{label}: rejected (odd number of JW operators)')
                    ctx.note('odd_rejected')
                else:
                    ctx.fail(f'{label}: even term rejected', str(e)[:120])
                continue
            if njw % 2:
                ctx.fail(f'{label}: odd term accepted by expectation_value_term')
                continue
            i0, i1 = min(pos), max(pos)
            th = None
            for i in range(i0, i1 + 1):
                t = psi.gamma_form(i, 1., 0.)
                th = t if th is None else np.tensordot(th, t, axes=[[-1], [0]])
            th = th * psi.S[i1 + 1]
            n = i1 - i0 + 1
            Ow = F.own_term_dense(sites[:n], [(nm, i - i0) for nm, i in term], tables[:n])
            chiL, chiR = th.shape[0], th.shape[-1]
            v = th.reshape(chiL, -1, chiR)
            want = 0.
            for a in range(chiL):
                for b in range(chiR):
                    want = want + np.dot(F.conj_obj(v[a, :, b]), np.dot(Ow, v[a, :, b]))
            ctx.prove_eq(np.asarray(got).reshape(-1)[0], want, f'{label}: expectation_value_term == <theta| own JW product |theta>')
            ctx.note('even_terms')


def grouped_case(ctx, conserve='N', n_group=2, n_ops=2, names=('C', 'Cd', 'N'), charges='same'):
    """GroupedSite: the operators 'X<m>' of a group carry the JW strings of the sites to their left inside the group; terms on a chain
    of 2 grouped sites == the same term on the fine chain (own JW product), compared in the grouped basis"""
    from tenpy.networks.site import GroupedSite
    fine = _site('fermion', conserve)
    g = GroupedSite([fine] * n_group, charges=charges)
    Lg = 2
    gsites = [g] * Lg
    fsites = [fine] * (Lg * n_group)
    ftab = [F.own_ops(fine)] * (Lg * n_group)
    gtab = F.own_ops(g)
    s = _strength(ctx, True)
    # grouped basis <- fine kron basis (from the state labels of the grouped site)
    P1 = np.zeros((g.dim, g.dim))
    for combo in itertools.product(*[sorted(fine.state_labels.items(), key=lambda kv: kv[1])] * n_group):
        fidx = 0
        for _, v in combo:
            fidx = fidx * fine.dim + v
        P1[g.state_labels[' '.join(f'{nm}_{m}' for m, (nm, _) in enumerate(combo))], fidx] = 1.
    P = np.kron(P1, P1)
    # the operator table of the grouped site itself (concrete, no symbol involved): one statement per operator
    for nm, mat in gtab[0].items():
        if nm in ('Id', ):
            continue
        ctx.prove_eq(g.get_op(nm).to_ndarray(), mat, f'GroupedSite operator {nm} == own kron with JW folded in')
        ctx.prove((nm in g.need_JW_string) == (nm in gtab[1]), f'GroupedSite need_JW_string flag of {nm}')
    fpos = list(range(Lg * n_group))
    for pos in itertools.product(fpos, repeat=n_ops):
        for nms in itertools.product(names, repeat=n_ops):
            fterm = list(zip(nms, pos))
            gterm = [(nm + str(i % n_group), i // n_group) for nm, i in fterm]
            label = ' '.join(f'{n}_{i}' for n, i in gterm)
            njw = _n_jw(ftab, fterm)
            if charges == 'same' and _skip_charge(ctx, conserve, fterm):
                continue
            try:
                got = _termlist_dense(gsites, gterm, s)
            except ValueError as e:
                if njw % 2:
                    ctx.prove(True, f'{label}: odd number of Jordan-Wigner operators rejected')
                    ctx.note('odd_rejected')
                else:
                    ctx.fail(f'{label}: even grouped term rejected', str(e)[:120])
                continue
            if njw % 2:
                if len(set(i for _, i in gterm)) == 1:
                    continue
                ctx.fail(f'{label}: odd grouped term accepted')
                continue
            want = np.dot(P, np.dot(F.own_term_dense(fsites, fterm, ftab), P.T)) * s
            ctx.prove_eq(got, want, f'{label}: grouped term == fine-chain own JW product')
            ctx.note('even_terms')


# ---------------------------------------------------------------------------------------------
# heterogeneous chains and site offsets (MPS._term_to_ops_list(term, autoJW, i_offset))
_OPS_BY_KIND = {'fermion': ['C', 'Cd', 'N'], 'spin': ['Sz', 'Sp'], 'spinful': ['Cu', 'Cdd', 'Ntot']}


def _hetero(ctx, chain, cplx_site=1, chi=2):
    sites = [F.make_site(k, None) for k in chain]
    tables = [F.own_ops(x) for x in sites]
    L = len(sites)
    psi = F.sym_mps(ctx, 'k', sites, [1] + [chi] * (L - 1) + [1], cplx=[int(i == cplx_site) for i in range(L)], forms='B')
    return sites, tables, psi


def _window_value(psi, sites, tables, term):
    """<theta| own JW product of `term` |theta> on the window [min site, max site] of the term (non-canonical state allowed)"""
    pos = [i for _, i in term]
    i0, i1 = min(pos), max(pos)
    th = None
    for i in range(i0, i1 + 1):
        t = psi.gamma_form(i, 1., 0.)
        th = t if th is None else np.tensordot(th, t, axes=[[-1], [0]])
    th = th * psi.S[i1 + 1]
    n = i1 - i0 + 1
    Ow = F.own_term_dense(sites[i0:i1 + 1], [(nm, i - i0) for nm, i in term], tables[i0:i1 + 1])
    v = th.reshape(th.shape[0], -1, th.shape[-1])
    want = 0.
    for a in range(v.shape[0]):
        for b in range(v.shape[2]):
            want = want + np.dot(F.conj_obj(v[a, :, b]), np.dot(Ow, v[a, :, b]))
    return want


_APPLY_OPS = {'fermion': ['C', 'Cd'], 'spin': ['Sz', 'Sp'], 'spinful': ['Cu', 'Cdd']}


def offset_apply_case(ctx, chain=('fermion', 'spinful', 'fermion', 'spinful'), n_ops=2, offsets=(1, -1, 2), which=0, of=1, chi=1, cplx_site=1):
    """MPS.apply_local_term(term, i_offset) on a heterogeneous chain: the new state == (own JW product of the SHIFTED term) . state.
    One (positions, names, offset) combination per engine path (symbolic selector), every combination is a path.
    chi=1 (product state with symbolic amplitudes on every site): apply_local_term tests `norm(op.B) < 1e-12` per site, which is a
    polynomial sum-of-squares query for the solver; with bond dimension 2 it takes minutes per term."""
    sites, tables, psi = _hetero(ctx, chain, cplx_site=cplx_site, chi=chi)
    L = len(sites)
    combos = []
    for pos in itertools.product(range(L), repeat=n_ops):
        for nms in itertools.product(*[_APPLY_OPS[chain[i]] for i in pos]):
            combos.append((pos, nms))
    combos = [c for k, c in enumerate(combos) if k % of == which]
    k = ctx.choice('combo', len(combos))
    pos, nms = combos[k]
    off = offsets[k % len(offsets)]
    term_abs = list(zip(nms, pos))
    term_rel = [(nm, i - off) for nm, i in term_abs]
    label = f'apply_local_term({term_rel}, i_offset={off})'
    njw = _n_jw(tables, term_abs)
    if njw % 2:
        # outside: an odd term needs the fermion parity of the bond left of it, which a chain without charges does not have
        # (tenpy rejects it or, if the left-most site is a spin site with an empty charge_to_JW_parity, silently drops the string)
        ctx.prove(True, 'odd term: outside the claim')
        ctx.note('odd_skipped')
        return
    v = psi.dense()
    p = psi.psi
    try:
        p.apply_local_term(term_rel, i_offset=off, canonicalize=False)
    except ValueError as e:
        if 'destroys state' in str(e):
            ctx.prove(True, f'{label}: raises only where the operator annihilates the site tensor (documented check)')
            ctx.note('destroys_state_path')
        else:
            ctx.fail(f'{label}: even term rejected', str(e)[:120])
        return
    want = np.dot(F.own_term_dense(sites, term_abs, tables), v.reshape(-1)).reshape(v.shape)
    ctx.prove_eq(F.dense_of_tenpy_mps(p), want, f'{label}: new state == own JW product of the shifted term . state')
    ctx.note('even_terms')


def offset_corr_case(ctx, chain=('fermion', 'spinful', 'fermion', 'spinful'), side='right'):
    """MPS.term_correlation_function_right / _left on a heterogeneous chain (they shift one term by a site offset):
    every entry == <theta| term_L(i) term_R(j) |theta> on its window, own JW operators"""
    sites, tables, psi = _hetero(ctx, chain)
    L = len(sites)
    p = psi.psi
    fixed_at = 0 if side == 'right' else L - 1
    for n in (1, 2):
        pats = sorted(set(tuple(chain[j:j + n]) for j in range(L - n + 1)))
        for pat in pats:
            if side == 'right':
                js = [j for j in range(1, L - n + 1) if tuple(chain[j:j + n]) == pat]
            else:
                js = [j for j in range(0, L - n) if tuple(chain[j:j + n]) == pat]
            if not js:
                continue
            for fixed_op in _OPS_BY_KIND[chain[fixed_at]]:
                for nms in itertools.product(*[_OPS_BY_KIND[kd] for kd in pat]):
                    moving = [(nm, d) for d, nm in enumerate(nms)]
                    label = f'{side}: fixed {fixed_op}_{fixed_at}, moving {moving} at {js}'
                    njw = _n_jw(tables, [(fixed_op, fixed_at)] + [(nm, js[0] + d) for nm, d in moving])
                    try:
                        if side == 'right':
                            res = p.term_correlation_function_right([(fixed_op, 0)], moving, i_L=0, j_R=list(js))
                            order = sorted(js)
                        else:
                            res = p.term_correlation_function_left(moving, [(fixed_op, 0)], i_L=list(js), j_R=L - 1)
                            order = sorted(js)[::-1]
                    except ValueError as e:
                        if njw % 2:
                            ctx.prove(True, f'{label}: odd number of Jordan-Wigner operators rejected')
                            ctx.note('odd_rejected')
                        else:
                            ctx.fail(f'{label}: even correlation rejected', str(e)[:120])
                        continue
                    if njw % 2:
                        ctx.fail(f'{label}: odd correlation accepted')
                        continue
                    want = []
                    for j in order:
                        mv = [(nm, j + d) for nm, d in moving]
                        full = ([(fixed_op, 0)] + mv) if side == 'right' else (mv + [(fixed_op, L - 1)])
                        want.append(_window_value(psi, sites, tables, full))
                    ctx.prove_eq(np.asarray(res).reshape(-1), np.array(want, dtype=object if ctx.symbolic else complex),
                                 f'{label}: term_correlation_function_{side} == <theta| own JW product |theta>')
                    ctx.note('even_terms')


def grouped_table_case(ctx, subs=(('spin', 'Sz', False), ('fermion', 'N', None)), charges='independent'):
    """GroupedSite of heterogeneous / unsorted sub-sites: state labels, operator table and need_JW flags against the own kron
    construction (plain enumeration of concrete tables), and two-operator terms on a chain of 2 such groups with symbolic strength"""
    from tenpy.networks.site import GroupedSite
    fine = [F.make_site(k, c, sc) for k, c, sc in subs]
    g = GroupedSite(fine, charges=charges)
    gops, gferm = F.own_ops(g)
    gops = {nm: mat for nm, mat in gops.items() if nm in g.opnames}
    ctx.prove(len(gops) >= 3 * len(fine), 'own table covers the operators of the grouped site')
    for nm, mat in gops.items():
        if nm == 'Id':
            continue
        ctx.prove_eq(g.get_op(nm).to_ndarray(), mat, f'GroupedSite operator {nm} == own kron placed by the state labels')
        ctx.prove((nm in g.need_JW_string) == (nm in gferm), f'GroupedSite need_JW_string flag of {nm}')
    # every state label names the kron basis state it says: diagonal operators of the sub-sites read at the labelled index
    for m, x in enumerate(fine):
        sub_ops = F.own_ops(x)[0]
        for dn in ('Sz', 'N'):
            if dn not in sub_ops:
                continue
            gm = g.get_op(dn + g.labels[m]).to_ndarray()
            for combo in itertools.product(*[sorted(y.state_labels.items(), key=lambda kv: kv[1]) for y in fine]):
                idx = g.state_labels[' '.join(f'{nm}_{lb}' for (nm, _), lb in zip(combo, g.labels))]
                ctx.prove_eq(gm[idx, idx], sub_ops[dn][x.state_labels[combo[m][0]], x.state_labels[combo[m][0]]],
                             f'state label -> basis index: <{dn}{g.labels[m]}> at the labelled state')
    s = _strength(ctx, True)
    gsites = [g, g]
    gtab = [(gops, gferm)] * 2
    names = [nm for nm in gops if nm not in ('Id', 'JW') and not nm.startswith(('JW', 'dN', 'Sigma', 'Sx', 'Sy'))]
    for pos in ((0, 1), (1, 0), (0, 0)):
        for nms in itertools.product(names, repeat=2):
            term = list(zip(nms, pos))
            label = ' '.join(f'{n}_{i}' for n, i in term)
            njw = _n_jw(gtab, term)
            try:
                got = _termlist_dense(gsites, term, s)
            except ValueError as e:
                if njw % 2 or 'charge' in str(e).lower():
                    ctx.note('rejected')
                    continue
                ctx.fail(f'{label}: even grouped term rejected', str(e)[:120])
                continue
            if njw % 2:
                continue
            ctx.prove_eq(got, F.own_term_dense(gsites, term, gtab) * s, f'{label}: grouped term == strength * own JW product')
            ctx.note('even_terms')


# ---------------------------------------------------------------------------------------------
# histories on term lists: the caller's data survives a conversion, a second conversion gives the same operator
def termlist_history_case(ctx, kind='fermion', conserve='parity', L=4, which=0):
    """TermList built from a caller-owned strength ARRAY and caller-owned term lists (out-of-order fermionic terms, so that
    order_combine flips signs in place in the TermList): after TermList -> MPO the caller's array and lists are what they were, a second
    TermList sharing the array, the same TermList again, a .shift() copy, a sum and a product give the operator the strengths denote"""
    from tenpy.networks.terms import TermList
    from tenpy.networks.mpo import MPOGraph
    site = _site(kind, conserve)
    sites = [site] * L
    tables = [F.own_ops(site)] * L
    sets = [
        [[('C', 1), ('Cd', 3)], [('Cd', 3), ('C', 1)], [('Cd', 2), ('C', 0)], [('N', 2), ('N', 1)], [('C', 3), ('Cd', 0)]],
        [[('Cd', 3), ('Cd', 0), ('C', 2), ('C', 1)], [('C', 2), ('Cd', 1)], [('N', 0)], [('Cd', 1), ('C', 0)]],
    ]
    terms = [list(t) for t in sets[which]]
    terms0 = [list(t) for t in terms]
    st = np.empty(len(terms), dtype=object if ctx.symbolic else complex)
    vals = []
    for k in range(len(terms)):
        x = ctx.cplx(f's{k}')
        st[k] = x
        vals.append(x)
    tables_O = sum(F.own_term_dense(sites, t, tables) * x for t, x in zip(terms0, vals))

    def dense(tl):
        return F.mpo_dense_of(MPOGraph.from_term_list(tl, sites, 'finite').build_MPO())

    def caller_data_intact(what):
        ctx.prove_eq(st, np.array(vals, dtype=st.dtype), f'{what}: the caller\'s strength array is unchanged')
        ctx.prove(terms == terms0, f'{what}: the caller\'s term lists are unchanged')

    tl1 = TermList(terms, st)
    ctx.prove_eq(dense(tl1), tables_O, 'first conversion == sum strength * own JW product')
    caller_data_intact('after the first conversion')
    tl2 = TermList(terms, st)  # second TermList from the same caller data
    ctx.prove_eq(dense(tl2), tables_O, 'second TermList from the same array: same operator')
    caller_data_intact('after the second conversion')
    ctx.prove_eq(dense(tl1), tables_O, 'the first TermList converted again (already ordered in place): same operator')
    tl3 = TermList(terms, st)
    sh = tl3.shift(0)
    ctx.prove_eq(dense(sh), tables_O, 'shift(0) copy converted: same operator')
    ctx.prove_eq(dense(tl3), tables_O, 'original converted after its shift() copy was converted: same operator')
    caller_data_intact('after shift()')
    tl4, tl5 = TermList(terms, st), TermList(terms, st)
    both = tl4 + tl5
    ctx.prove_eq(dense(both), tables_O + tables_O, 'sum of two TermLists: twice the operator')
    ctx.prove_eq(dense(tl4), tables_O, 'operand of + converted after the sum was converted: same operator')
    tw = TermList(terms, st) * 2.
    ctx.prove_eq(dense(tw), tables_O * 2., 'TermList * 2: twice the operator')
    caller_data_intact('after + and *')
    # the model route shares nothing with the caller either
    m = _Model(site, L)
    for t, x in zip(terms, st):
        m.M.add_local_term(x, [(nm, (i, 0)) for nm, i in t])
    caller_data_intact('after CouplingModel.add_local_term')


def termlist_corr_case(ctx, conserve='N', L=4, cfg=0):
    """MPS.term_list_correlation_function_right with sums of odd-fermion terms that end on DIFFERENT sites (wave-packet operator
    sum_i a_i Cd_i, symbolic a_i) against odd right terms: every entry == sum_ik a_i b_k <theta| L_i R_k(j) |theta> on the window of
    each pair, own JW operators; symbolic chi=2 state (all sites occupied with symbolic amplitudes)"""
    from tenpy.networks.terms import TermList
    site = _site('fermion', conserve)
    sites = [site] * L
    tables = [F.own_ops(site)] * L
    psi = F.sym_mps(ctx, 'k', sites, _VS[(conserve, L)], cplx=[0, 1] + [0] * (L - 2), forms='B')
    cfgs = [
        ([[('Cd', 0)], [('Cd', 1)]], [[('C', 0)]], [2, 3]),
        ([[('Cd', 0)], [('Cd', 1)], [('Cd', 0), ('N', 1)]], [[('C', 0)], [('N', 0), ('C', 1)]], [2]),
        ([[('C', 0)], [('N', 0), ('C', 1)], [('C', 1)]], [[('Cd', 0)], [('Cd', 1)]], [2]),
        ([[('Cd', 0), ('C', 1)], [('N', 0)], [('N', 1)]], [[('N', 0)], [('Cd', 0), ('C', 1)]], [2]),
    ]
    tL, tR, jR = cfgs[cfg]

    def coeffs(name, n):
        arr = np.empty(n, dtype=object if ctx.symbolic else float)
        for k in range(n):
            arr[k] = ctx.real(f'{name}{k}')
        return arr

    a, b = coeffs('a', len(tL)), coeffs('b', len(tR))
    a0, b0 = list(a), list(b)
    res = psi.psi.term_list_correlation_function_right(TermList([list(t) for t in tL], a), TermList([list(t) for t in tR], b), i_L=0, j_R=list(jR))
    want = []
    for j in sorted(jR):
        tot = 0.
        for x, l in zip(a0, tL):
            for y, r in zip(b0, tR):
                full = list(l) + [(nm, i + j) for nm, i in r]
                if _n_jw(tables, full) % 2 or not _charge_ok(conserve, full):
                    continue  # pairs of different parity / charge do not contribute (the state has a definite charge)
                tot = tot + x * y * _window_value(psi, sites, tables, full)
        want.append(tot)
    ctx.prove_eq(np.asarray(res).reshape(-1), np.array(want, dtype=object if ctx.symbolic else complex),
                 'term_list_correlation_function_right == sum a_i b_k <theta| L_i R_k(j) |theta> (own JW operators)')
    ctx.note('termlist_corr_entries', len(jR))


def CASES(tier, seed):
    cases = []
    thorough = tier == 'thorough'
    O = dict(max_paths=4000, max_wall_s=1500 if thorough else 700, validate_paths=1, hard_timeout_s=1700 if thorough else 800, profile=False)

    def add(fn, name, profile=False, **params):
        o = dict(O)
        o['profile'] = profile
        cases.append(dict(name=name, fn=fn, params=params, opts=o))

    cons = ['N', 'parity', None]
    L = 3
    k = 0
    for pos in itertools.product(range(L), repeat=2):
        add('terms_case', f'terms2[fermion,{cons[k % 3]},L=3,pos={list(pos)}]', profile=(k == 1), conserve=cons[k % 3], L=L,
            positions=list(pos))
        k += 1
    for pos in itertools.product(range(L), repeat=3):
        add('terms_case', f'terms3[fermion,{cons[k % 3]},L=3,pos={list(pos)}]', profile=(k == 12), conserve=cons[k % 3], L=L,
            positions=list(pos), names=['C', 'Cd', 'N'])
        k += 1
    for pos in itertools.product(range(L), repeat=4):
        c = cons[k % 2]  # N / parity: quartic terms built from C, Cd
        add('terms_case', f'terms4[fermion,{c},L=3,pos={list(pos)}]', conserve=c, L=L, positions=list(pos), names=['C', 'Cd'])
        k += 1
    for c in cons:
        add('car_case', f'CAR[fermion,{c},L=3]', conserve=c, L=3)
    for dx in (1, -1, 2, -2):
        add('coupling_case', f'add_coupling[fermion,N,L=4,dx={dx}]', profile=(dx == -1), conserve='N', L=4, dx=dx)
    add('coupling_case', 'add_coupling[fermion,parity,L=4,dx=-2,plus_hc]', conserve='parity', L=4, dx=-2, plus_hc=True)
    add('coupling_case', 'add_coupling[fermion,None,L=3,dx=-1,explicit_plus_hc]', conserve=None, L=3, dx=-1, explicit_plus_hc=True,
        names=['C', 'Cd', 'N'])
    for dxs in ([0, 2, 1], [1, 0, 1], [2, 0, 0, 1], [1, 0, 3, 2]):
        add('multi_coupling_case', f'add_multi_coupling[fermion,N,L=4,dx={dxs}]', conserve='N', L=4, dxs=dxs,
            names=['C', 'Cd', 'N'] if len(dxs) == 3 else ['C', 'Cd'])
    add('expval_term_case', 'expval_term2[fermion,N,L=3]', profile=True, conserve='N', L=3, n_ops=2)
    add('expval_term_case', 'expval_term2[fermion,None,L=3]', conserve=None, L=3, n_ops=2, names=['C', 'Cd', 'N'])
    for w in range(4):
        add('expval_term_case', f'expval_term4[fermion,parity,L=3,slice {w}/4]', conserve='parity', L=3, n_ops=4, names=['C', 'Cd'],
            which=w, of=4)
    add('grouped_case', 'grouped[2 fermion sites,N,2 operators]', profile=True, conserve='N', n_group=2, n_ops=2)
    add('grouped_case', 'grouped[2 fermion sites,parity,drop charges,2 operators]', conserve='parity', n_group=2, n_ops=2, charges='drop')
    # renamed / re-added fermionic operators (Site.rename_op, add_op(need_JW=True)) through the same pipelines
    for n, pos in enumerate(itertools.product(range(3), repeat=2)):
        add('terms_case', f'terms2[renamed fermion ops,{cons[n % 3]},L=3,pos={list(pos)}]', kind='fermion_renamed', conserve=cons[n % 3],
            L=3, positions=list(pos), names=['A', 'Ad', 'X', 'Xd', 'N'])
    for n, pos in enumerate([(0, 2, 1, 0), (2, 0, 2, 1), (1, 1, 0, 2), (2, 1, 0, 0)]):
        add('terms_case', f'terms4[renamed fermion ops,{cons[n % 2]},L=3,pos={list(pos)}]', kind='fermion_renamed', conserve=cons[n % 2],
            L=3, positions=list(pos), names=['A', 'Xd'])
    add('car_case', 'CAR[renamed fermion ops,parity,L=3]', kind='fermion_renamed', conserve='parity', L=3)
    add('coupling_case', 'add_coupling[renamed fermion ops,N,L=4,dx=-2]', kind='fermion_renamed', conserve='N', L=4, dx=-2,
        names=['A', 'Ad', 'Xd', 'N'])
    # heterogeneous chains + site offsets
    ch1 = ['fermion', 'spinful', 'fermion', 'spinful']
    ch2 = ['fermion', 'spin', 'fermion', 'fermion']
    add('offset_apply_case', 'apply_local_term[i_offset,chain f-sf-f-sf]', chain=ch1, cplx_site=2)
    add('offset_apply_case', 'apply_local_term[i_offset,chain f-s-f-f]', chain=ch2)
    for side in ('right', 'left'):
        add('offset_corr_case', f'term_correlation_function_{side}[chain f-sf-f-sf]', chain=ch1, side=side)
        add('offset_corr_case', f'term_correlation_function_{side}[chain f-s-f-f]', chain=ch2, side=side)
    for w in range(2):
        add('termlist_history_case', f'termlist_history[fermion,{cons[1 + w]},L=4,set {w}]', conserve=cons[1 + w], L=4, which=w)
    for c in range(4):
        add('termlist_corr_case', f'term_list_correlation_function_right[fermion,{cons[c % 2]},L=4,config {c}]', conserve=cons[c % 2], L=4,
            cfg=c)
    # GroupedSite of heterogeneous / unsorted sub-sites (tables: plain enumeration)
    add('grouped_table_case', 'grouped_table[spin Sz unsorted + fermion N,independent]', subs=[['spin', 'Sz', False], ['fermion', 'N', None]],
        charges='independent')
    add('grouped_table_case', 'grouped_table[spin Sz unsorted x2,independent]', subs=[['spin', 'Sz', False], ['spin', 'Sz', False]],
        charges='independent')
    add('grouped_table_case', 'grouped_table[fermion parity + spin parity unsorted,drop]', subs=[['fermion', 'parity', None], ['spin', 'parity', False]],
        charges='drop')
    add('grouped_table_case', 'grouped_table[fermion N x2,same]', subs=[['fermion', 'N', None], ['fermion', 'N', None]], charges='same')
    if thorough:
        L = 4
        for pos in itertools.product(range(L), repeat=2):
            add('terms_case', f'terms2[fermion,{cons[k % 3]},L=4,pos={list(pos)}]', conserve=cons[k % 3], L=L, positions=list(pos))
            k += 1
        for pos in itertools.product(range(L), repeat=3):
            add('terms_case', f'terms3[fermion,{cons[k % 3]},L=4,pos={list(pos)}]', conserve=cons[k % 3], L=L, positions=list(pos),
                names=['C', 'Cd', 'N'])
            k += 1
        for n, pos in enumerate(itertools.product(range(L), repeat=4)):
            if n % 3 != seed % 3:
                continue
            c = cons[k % 2]
            add('terms_case', f'terms4[fermion,{c},L=4,pos={list(pos)}]', conserve=c, L=L, positions=list(pos), names=['C', 'Cd'],
                routes=['termlist'])
            k += 1
        for pos in itertools.product(range(3), repeat=2):
            add('terms_case', f'terms2[spinful,L=3,pos={list(pos)}]', kind='spinful', conserve=['N', 'Sz'], L=3, positions=list(pos),
                names=['Cu', 'Cd', 'Cdu', 'Cdd', 'Ntot'])
        for n, pos in enumerate(itertools.product(range(3), repeat=4)):
            if n % 3 != seed % 3:
                continue
            add('terms_case', f'terms4[spinful,L=3,pos={list(pos)}]', kind='spinful', conserve=['N', 'Sz'], L=3, positions=list(pos),
                names=['Cu', 'Cd', 'Cdu', 'Cdd'], routes=['termlist'])
        add('car_case', 'CAR[spinful,L=2]', kind='spinful', conserve=['N', 'Sz'], L=2)
        add('car_case', 'CAR[fermion,parity,L=4]', conserve='parity', L=4)
        for dx in (3, -3):
            add('coupling_case', f'add_coupling[fermion,parity,L=4,dx={dx}]', conserve='parity', L=4, dx=dx)
        add('expval_term_case', 'expval_term3[fermion,N,L=4]', conserve='N', L=4, n_ops=3, names=['C', 'Cd', 'N'])
        add('grouped_case', 'grouped[3 fermion sites,N,2 operators]', conserve='N', n_group=3, n_ops=2)
        add('grouped_case', 'grouped[2 fermion sites,N,4 operators]', conserve='N', n_group=2, n_ops=4, names=['C', 'Cd'])
    return cases
