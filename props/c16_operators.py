"""C16 (partial claim, DESIGN section 5 C16): the operator wrappers of tenpy/linalg/sparse.py and gram_schmidt.

Claimed here, with symbolic complex tensor entries, symbolic shift / boosts, Tier B charge structures and a small Tier A:

* ShiftNpcLinearOperator, SumNpcLinearOperator, BoostNpcLinearOperator, OrthogonalNpcLinearOperator:
  matvec(v) == to_matrix() . v == documented dense formula . v, adjoint() is the hermitian conjugate, operands unchanged;
* FlatLinearOperator: npc_to_flat(flat_to_npc(x)) == x for every charge_sector / compact_flat setting, the flat matvec is the
  dense matrix restricted to the charge sector;
* gram_schmidt: the returned vectors are orthonormal, are the input objects modified in place, vectors of norm <= rcond
  are dropped (norms are sqrt variables).

Not applicable (DESIGN): the Krylov iterations (Lanczos, Arnoldi, GMRES, their evolutions).
"""
import numpy as np

from catalogue import build as Bd

PROPERTY = 'C16'
LEVEL = 'model_checking'
BOUNDS = {
    'quick': 'vectors with one leg of <= 3 charge blocks (sizes <= 2; U1 sorted, U1 unsorted / repeated charges, Z3, U1xZ2) in every charge '
             'sector of the leg, every subset of stored blocks of the operator, real and complex entries, symbolic complex shift / '
             'boosts; 1-2 vectors to project out / boost with, 2 vectors in gram_schmidt; Tier A: leg with 2 blocks of symbolic charges '
             '(mod 1, 3); FlatLinearOperator: charge_sector in {0, every sector of the leg, None} x compact_flat in {None, True, False}',
    'thorough': 'additionally complex entries for boost / orthogonal / gram_schmidt on all structures, Tier A with mod 2 and both '
                'leg directions',
}
OUTSIDE = ('Lanczos / Arnoldi / GMRES iterations and everything derived from them (declared not applicable in DESIGN C16); '
           'FlatLinearOperator.eigenvectors (ARPACK); float rounding (rcond comparison is a fork on reals)')
STUBS = ['symx/stubs.py: BLAS contract, numpy facade on np_conserved / sparse / krylov_based (linalg.norm -> sqrt variable, np.conj)']
ASSUMPTIONS = [
    'floats are reals; the wrapped operator is a matrix operator provided by the harness that implements the documented NpcLinearOperator '
    'interface (matvec = tensordot, to_matrix, adjoint = conjugate transpose)',
    'Boost / Orthogonal: the boost vectors / vectors projected out lie in the charge sector of the vector acted on (tenpy adds them with '
    'iadd_prefactor_other, which rejects different qtotal; to_matrix is checked on all sectors)',
]

STRUCTS = {
    'u1': dict(mods=[1], leg=([2, 1, 1], [[0], [1], [2]], 1)),
    'u1_unsorted': dict(mods=[1], leg=([1, 1, 1], [[1], [0], [1]], -1)),
    'z3': dict(mods=[3], leg=([1, 2], [[2], [0]], 1)),
    'u1z2': dict(mods=[1, 2], leg=([1, 1, 1], [[0, 1], [1, 0], [1, 1]], 1)),
    'u1_small': dict(mods=[1], leg=([1, 1], [[0], [1]], 1)),
}


def setup_symbolic(case):
    from symx import stubs
    import tenpy.linalg.sparse as sp
    import tenpy.linalg.krylov_based as kb
    stubs.install_blas()
    stubs.facade_for(sp, kb)
    if case.get('params', {}).get('tier', 'B') == 'A':
        stubs.install_symbolic_charges()


def npc():
    return Bd.npc()


def dag(x):
    return np.conj(np.asarray(x)).T


def cj(ctx, x):
    return x.conjugate() if ctx.symbolic else np.conj(x)


def make_leg(ctx, tier, struct, mods=None, qconj=1):
    if tier == 'A':
        ch = Bd.chinfo(mods)
        return Bd.leg(ctx, 'l', [1, 2] if struct == 'a2' else [1, 1, 1], ch, qconj), ch
    st = STRUCTS[struct]
    ch = Bd.chinfo(st['mods'])
    s, c, q = st['leg']
    return Bd.leg(ctx, 'l', s, ch, q, tier='B', concrete_charges=c), ch


def sector_of(ctx, tier, leg, ch, name='sec'):
    """total charge of a vector: the charge (times qconj) of one of the blocks of the leg, chosen symbolically"""
    b = ctx.choice(name, leg.block_number)
    return ch.make_valid(leg.charges[b] * leg.qconj)


class MatOp:
    """harness-side matrix operator with the documented NpcLinearOperator interface.  As the effective Hamiltonians of tenpy
    do, `to_matrix` returns a matrix whose legs are LegPipes over the legs `acts_on` of the vector."""

    def __init__(self, M, pipe):
        self.M = M  # legs [pipe, pipe.conj()], labels ['(v)', '(v*)']
        self.pipe = pipe
        self.dtype = M.dtype
        self.acts_on = ['v']

    def matvec(self, vec):
        N = npc()
        vc = vec.combine_legs(['v'], pipes=self.pipe)
        r = N.tensordot(self.M, vc, axes=['(v*)', '(v)'])
        return r.split_legs(0)

    def to_matrix(self):
        return self.M

    def adjoint(self):
        Md = self.M.conj().itranspose()
        Md.iset_leg_labels(['(v)', '(v*)'])
        return MatOp(Md, self.pipe)


def matrix(ctx, name, leg, cplx, subset='choose'):
    """(operator, matrix over the plain leg): the operator acts through a LegPipe(qconj=+1) over the leg of the vector"""
    T = Bd.tensor(ctx, name, [leg, leg.conj()], None, cplx=cplx, labels=['v', 'v*'], subset=subset)
    M = T.combine_legs([[0], [1]])  # pipe direction = direction of the leg, the default of combine_legs (which to_matrix of
    # OrthogonalNpcLinearOperator also uses for the vectors it projects out)
    return MatOp(M, M.legs[0]), T


def dense_of(m):
    """dense matrix in the basis of the plain leg (pipes are split again)"""
    N = npc()
    if any(isinstance(l, N.LegPipe) for l in m.legs):
        m = m.split_legs()
    return m.to_ndarray()


def vector(ctx, name, leg, qtotal, cplx, subset='all'):
    return Bd.tensor(ctx, name, [leg], qtotal, cplx=cplx, labels=['v'], subset=subset)


def sane(ctx, T, what):
    try:
        T.test_sanity()
    except (ValueError, AssertionError) as e:
        ctx.fail(f'{what}: test_sanity', (str(e) or type(e).__name__)[:100])
        return False
    return True


def check_op(ctx, op, ref, vecs, what, with_matrix=True):
    """matvec / to_matrix / adjoint of `op` against the dense reference matrix `ref`"""
    refd = dag(ref)
    for i, v in enumerate(vecs):
        dv = v.to_ndarray()
        r = op.matvec(v)
        if not sane(ctx, r, f'{what}: matvec result'):
            continue
        ctx.prove_eq(r.to_ndarray(), np.dot(ref, dv), f'{what}: matvec == documented dense formula')
        ctx.prove_eq(v.to_ndarray(), dv, f'{what}: matvec leaves the vector unchanged')
        ctx.prove_eq(np.asarray(r.qtotal), np.asarray(v.qtotal), f'{what}: matvec keeps the charge sector')
        ctx.prove(r.get_leg_labels() == v.get_leg_labels(), f'{what}: matvec keeps the labels')
    if with_matrix:
        m = op.to_matrix()
        if sane(ctx, m, f'{what}: to_matrix result'):
            ctx.prove_eq(dense_of(m), ref, f'{what}: to_matrix == documented dense formula')
    ad = op.adjoint()
    for v in vecs:
        ctx.prove_eq(ad.matvec(v).to_ndarray(), np.dot(refd, v.to_ndarray()), f'{what}: adjoint().matvec == hermitian conjugate')
    if with_matrix:
        ctx.prove_eq(dense_of(ad.to_matrix()), refd, f'{what}: adjoint().to_matrix == hermitian conjugate')


def _vecs(ctx, tier, leg, ch, cplx, n=1, prefix='x', q=None, subset='choose'):
    """n vectors; q: common charge sector (None: every vector gets its own symbolically chosen sector)"""
    return [vector(ctx, f'{prefix}{i}', leg, sector_of(ctx, tier, leg, ch, f'sec_{prefix}{i}') if q is None else q, cplx, subset)
            for i in range(n)]


# ------------------------------------------------------------------------------------------------------------------
def shift_case(ctx, tier, struct, mods=None, qconj=1, cplx=True):
    import tenpy.linalg.sparse as sp
    leg, ch = make_leg(ctx, tier, struct, mods, qconj)
    Hop, H = matrix(ctx, 'h', leg, cplx)
    dH = H.to_ndarray()
    shift = ctx.num('shift', cplx)
    op = sp.ShiftNpcLinearOperator(Hop, shift)
    n = leg.ind_len
    check_op(ctx, op, dH + shift * np.eye(n), _vecs(ctx, tier, leg, ch, cplx), 'Shift')
    ctx.prove_eq(dense_of(Hop.M), dH, 'Shift: wrapped operator unchanged')
    ctx.prove(op.unwrapped() is Hop and op.acts_on == ['v'], 'Shift: unwrapped() / attribute forwarding')


def sum_case(ctx, tier, struct, mods=None, qconj=1, cplx=True):
    import tenpy.linalg.sparse as sp
    leg, ch = make_leg(ctx, tier, struct, mods, qconj)
    op1, H1 = matrix(ctx, 'h', leg, cplx)
    op2_, H2 = matrix(ctx, 'g', leg, cplx, subset='all')
    d1, d2 = H1.to_ndarray(), H2.to_ndarray()
    op = sp.SumNpcLinearOperator(op1, op2_)
    xs = _vecs(ctx, tier, leg, ch, cplx, subset='all')
    check_op(ctx, op, d1 + d2, xs, 'Sum')
    ctx.prove_eq(dense_of(op1.M), d1, 'Sum: first operator unchanged')
    ctx.prove_eq(dense_of(op2_.M), d2, 'Sum: second operator unchanged')
    # nesting: Shift(Sum(...))
    shift = ctx.num('shift', cplx)
    op2 = sp.ShiftNpcLinearOperator(op, shift)
    check_op(ctx, op2, d1 + d2 + shift * np.eye(leg.ind_len), xs, 'Shift(Sum)')


def boost_case(ctx, tier, struct, mods=None, qconj=1, cplx=True, nb=1, hsubset='choose'):
    import tenpy.linalg.sparse as sp
    leg, ch = make_leg(ctx, tier, struct, mods, qconj)
    Hop, H = matrix(ctx, 'h', leg, cplx, hsubset)
    dH = H.to_ndarray()
    q = sector_of(ctx, tier, leg, ch)  # boost vectors and the vector acted on share the charge sector (see ASSUMPTIONS)
    bvecs = _vecs(ctx, tier, leg, ch, cplx, nb, 'b', q, subset='all')
    boosts = [ctx.num(f'boost{i}', cplx) for i in range(nb)]
    ref = dH
    dbs = [b.to_ndarray() for b in bvecs]
    for b, db in zip(boosts, dbs):
        ref = ref + b * np.outer(db, np.conj(db))
    op = sp.BoostNpcLinearOperator(Hop, boosts, bvecs)
    check_op(ctx, op, ref, _vecs(ctx, tier, leg, ch, cplx, q=q, subset='all'), 'Boost', with_matrix=False)
    for b, db in zip(bvecs, dbs):
        ctx.prove_eq(b.to_ndarray(), db, 'Boost: boost vectors unchanged')
    try:
        m = op.to_matrix()
    except AttributeError as e:
        ctx.fail('Boost: to_matrix', 'AttributeError: ' + str(e)[:100])
        return
    ctx.prove_eq(dense_of(m), ref, 'Boost: to_matrix == documented dense formula')


def _gs_dense(ctx, vs, rcond=1.e-14):
    """reference Gram-Schmidt on dense vectors (same arithmetic in both modes)"""
    res = []
    for v in vs:
        v = np.array(v, dtype=v.dtype)
        for o in res:
            ov = np.sum(np.conj(o) * v)
            if bool(-ov == 0.):  # (same exact-zero test as Array.iadd_prefactor_other, so that both follow the same path)
                continue
            v = v - ov * o
        n2 = np.sum(np.conj(v) * v)
        n2 = n2.real if hasattr(n2, 'real') else n2
        nrm = n2.sqrt() if ctx.symbolic and hasattr(n2, 'sqrt') else np.sqrt(float(np.real(n2)))
        if bool(nrm > rcond):
            res.append(v * (1. / nrm))
    return res


def ortho_case(ctx, tier, struct, mods=None, qconj=1, cplx=True, no=1, hsubset='choose'):
    import tenpy.linalg.sparse as sp
    leg, ch = make_leg(ctx, tier, struct, mods, qconj)
    Hop, H = matrix(ctx, 'h', leg, cplx, hsubset)
    dH = H.to_ndarray()
    q = sector_of(ctx, tier, leg, ch)  # vectors projected out and the vector acted on share the charge sector (see ASSUMPTIONS)
    ovecs = _vecs(ctx, tier, leg, ch, cplx, no, 'o', q, subset='all')
    dos = [o.to_ndarray() for o in ovecs]
    n = leg.ind_len
    P = np.eye(n)
    qs = _gs_dense(ctx, dos)
    for qv in qs:
        P = P - np.outer(qv, np.conj(qv))
    ref = np.dot(P, np.dot(dH, P))
    op = sp.OrthogonalNpcLinearOperator(Hop, ovecs)
    ctx.note(f'ortho_vectors_kept_{len(op.ortho_vecs)}')
    check_op(ctx, op, ref, _vecs(ctx, tier, leg, ch, cplx, q=q, subset='all'), 'Orthogonal', with_matrix=False)
    ctx.prove_eq(dense_of(Hop.M), dH, 'Orthogonal: wrapped operator unchanged')
    # P is a projector that annihilates the given vectors
    if len(qs) == no:  # (a vector whose remaining norm is <= rcond is dropped by gram_schmidt)
        for o in dos:
            ctx.prove_eq(np.dot(ref, o), np.zeros(n), 'Orthogonal: P H P annihilates the vectors projected out')
    try:
        m = op.to_matrix()
    except Exception as e:  # noqa
        ctx.fail('Orthogonal: to_matrix', f'{type(e).__name__}: {str(e)[:100]}')
        return
    if sane(ctx, m, 'Orthogonal: to_matrix result'):
        ctx.prove_eq(dense_of(m), ref, 'Orthogonal: to_matrix == P H P')


def gram_schmidt_case(ctx, tier, struct, mods=None, qconj=1, cplx=True, nv=2, same_sector=True):
    from tenpy.linalg.krylov_based import gram_schmidt
    N = npc()
    leg, ch = make_leg(ctx, tier, struct, mods, qconj)
    if same_sector:
        q = sector_of(ctx, tier, leg, ch)
        vs = [vector(ctx, f'w{i}', leg, q, cplx, 'choose') for i in range(nv)]
    else:
        vs = _vecs(ctx, tier, leg, ch, cplx, nv, 'w')
    d0 = [v.to_ndarray() for v in vs]
    res = gram_schmidt(list(vs))
    ctx.note(f'gram_schmidt_kept_{len(res)}_of_{nv}')
    ctx.prove(all(any(r is v for v in vs) for r in res) and len(res) <= nv, 'gram_schmidt: returns (a subset of) the input objects, modified in place')
    dr = [r.to_ndarray() for r in res]
    for i, a in enumerate(dr):
        for j, b in enumerate(dr):
            ctx.prove_eq(np.sum(np.conj(a) * b), 1. if i == j else 0., 'gram_schmidt: orthonormal output')
    for r in res:
        sane(ctx, r, 'gram_schmidt: output')
    # agrees with the reference Gram-Schmidt (same vectors kept, same span order)
    # a vector is dropped only if its remaining norm (it is projected in place) does not exceed rcond; kept ones have norm 1 (above)
    for v in vs:
        if not any(r is v for r in res):
            dv = v.to_ndarray()
            n2 = np.sum(np.conj(dv) * dv)
            n2 = n2.real if hasattr(n2, 'real') else n2
            nrm = n2.sqrt() if ctx.symbolic and hasattr(n2, 'sqrt') else np.sqrt(float(np.real(n2)))
            ctx.prove(nrm <= 1.e-14, 'gram_schmidt: a dropped vector has remaining norm <= rcond')
    ref = _gs_dense(ctx, d0)
    if len(ref) == len(res):  # (the reference takes its own norm > rcond decisions)
        for a, b in zip(dr, ref):
            ctx.prove_eq(a, b, 'gram_schmidt: equals the textbook Gram-Schmidt vectors')
    # npc.inner agrees with the dense inner product on the results (charge sectors that differ are orthogonal)
    for a in res:
        for b in res:
            ctx.prove_eq(N.inner(a, b, 'range', do_conj=True), np.sum(np.conj(a.to_ndarray()) * b.to_ndarray()),
                         'gram_schmidt: npc.inner == dense inner product')


# ------------------------------------------------------------------------------------------------------------------
def flat_case(ctx, tier, struct, mods=None, qconj=1, cplx=True, sector='zero', compact=None, labeled=False):
    import tenpy.linalg.sparse as sp
    leg, ch = make_leg(ctx, tier, struct, mods, qconj)
    H = Bd.tensor(ctx, 'h', [leg, leg.conj()], None, cplx=cplx, labels=['v', 'v*'] if labeled else None, subset='choose')
    dH = H.to_ndarray()
    n = leg.ind_len
    qf = leg.to_qflat()
    blocked = leg.is_blocked()
    tag = f'Flat[sector={sector},compact={compact}]'
    if sector == 'zero':
        cs = 0
        q = ch.make_valid()
    elif sector == 'none':
        cs = None
        q = None
    else:
        b = ctx.choice('sec', leg.block_number)
        q = ch.make_valid(leg.charges[b] * leg.qconj)
        cs = q
    # documented: `charge_sector` is the charge sector (= qtotal) of the vectors acted on; a vector with that qtotal lives on the
    # indices whose charge * qconj equals it
    if q is not None:
        idx = [i for i in range(n) if Bd.eq_all(ctx, ch.make_valid(qf[i] * leg.qconj), q)]
    else:
        idx = list(range(n))
    is_compact = compact if compact is not None else (cs is not None and blocked)
    try:
        F = sp.FlatLinearOperator.from_NpcArray(H, charge_sector=cs, compact_flat=compact)
    except ValueError as e:
        documented = (compact is True and (not blocked or cs is None)) or (is_compact and not idx)
        ctx.prove(documented, f'{tag}: ValueError only for compact_flat with a non-blocked leg / None sector / absent sector')
        return
    ctx.note('flat_operators')
    sfx = ''
    if q is not None and not is_compact and leg.qconj == -1 and not Bd.eq_all(ctx, q, ch.make_valid(-q)):
        sfx = ' [non-compact, leg.qconj = -1, sector != -sector]'
    if not ctx.prove(F.shape == (len(idx), len(idx)), f'{tag}: shape == size of the charge sector{sfx}'):
        return
    m = F.shape[0]
    if m == 0:
        return
    x = ctx.array('x', (m, ), cplx=cplx)
    try:
        v = F.flat_to_npc(x)
    except ValueError as e:
        ordered = bool(leg.sorted) and bool(leg.bunched)
        ctx.fail(f'{tag}: flat_to_npc raises ValueError' + (' [sector None, leg not sorted by charge]' if q is None and not ordered else ''),
                 str(e)[:100])
        return
    if not sane(ctx, v, f'{tag}: flat_to_npc result'):
        return
    ctx.prove_eq(F.npc_to_flat(v), x, f'{tag}: npc_to_flat(flat_to_npc(x)) == x')
    if q is not None:
        full = np.zeros(n, dtype=x.dtype)
        full[idx] = x
        ctx.prove_eq(v.to_ndarray(), full, f'{tag}: flat_to_npc places the entries on the indices of the charge sector')
        ctx.prove_eq(np.asarray(v.qtotal), np.asarray(q), f'{tag}: flat_to_npc gives a vector in the requested charge sector')
    # own formula: does the operator store any block inside the sector?
    stored_in_sector = any(int(leg.slices[int(a)]) in idx and int(leg.slices[int(b_)]) in idx for a, b_ in H._qdata)
    ref = np.dot(dH[np.ix_(idx, idx)], x)
    try:
        y = F._matvec(x)
    except AssertionError:
        ctx.fail(f'{tag}: matvec raises AssertionError' + (' [compact_flat, operator has no stored block in the sector]'
                                                           if is_compact and not stored_in_sector else ''))
        return
    except KeyError as e:
        ctx.fail(f'{tag}: matvec raises KeyError' + (' [sector None, labelled matrix]' if q is None and labeled else ''), str(e)[:100])
        return
    ctx.prove_eq(y, ref, f'{tag}: flat matvec == dense matrix restricted to the charge sector')
    ctx.prove(F.matvec_count == 1, f'{tag}: matvec_count')
    ctx.prove_eq(H.to_ndarray(), dH, f'{tag}: operator unchanged')
    y2 = F.matvec(x)
    ctx.prove_eq(np.asarray(y2).reshape(-1), ref, f'{tag}: scipy LinearOperator.matvec')


# ------------------------------------------------------------------------------------------------------------------
def CASES(tier, seed):
    cases = []
    thorough = tier == 'thorough'
    O = dict(max_paths=40000, max_wall_s=500, validate_paths=2, hard_timeout_s=600, path_eq_hyps=True, ideal_timeout_ms=30000,
             prove_timeout_ms=30000)
    if thorough:
        O = dict(max_paths=200000, max_wall_s=1200, validate_paths=2, hard_timeout_s=1400, path_eq_hyps=True, ideal_timeout_ms=60000,
             prove_timeout_ms=120000)

    def add(fn, name, **params):
        cases.append(dict(name=name, fn=fn, params=params, opts=dict(O)))

    structs = ['u1', 'u1_unsorted', 'z3', 'u1z2']
    for st in structs:
        add('shift_case', f'B.shift[{st},c]', tier='B', struct=st, cplx=True)
        add('sum_case', f'B.sum[{st},r]', tier='B', struct=st, cplx=False)
        for cplx in ((False, True) if thorough else (False, )):
            c = 'c' if cplx else 'r'
            hs = 'all' if st == 'u1_unsorted' else 'choose'
            add('boost_case', f'B.boost[{st},{c},nb=1]', tier='B', struct=st, cplx=cplx, nb=1, hsubset=hs)
            add('ortho_case', f'B.orthogonal[{st},{c},no=1]', tier='B', struct=st, cplx=cplx, no=1, hsubset=hs)
            if not (cplx and st == 'u1_unsorted'):  # (complex 2-dim sector with every subset of blocks: branch feasibility unknown)
                add('gram_schmidt_case', f'B.gram_schmidt[{st},{c},nv=2,same]', tier='B', struct=st, cplx=cplx, nv=2, same_sector=True)
        for sector in ('zero', 'each', 'none'):
            for compact in (None, True, False):
                add('flat_case', f'B.flat[{st},c,sector={sector},compact={compact}]', tier='B', struct=st, cplx=True, sector=sector,
                    compact=compact)
    add('shift_case', 'B.shift[u1,r]', tier='B', struct='u1', cplx=False)
    add('sum_case', 'B.sum[u1,c]', tier='B', struct='u1', cplx=True)
    add('flat_case', 'B.flat[u1,r,sector=each,compact=None]', tier='B', struct='u1', cplx=False, sector='each', compact=None)
    add('flat_case', 'B.flat[u1,c,sector=none,compact=None,labelled]', tier='B', struct='u1', cplx=True, sector='none', compact=None,
        labeled=True)
    add('flat_case', 'B.flat[u1,c,sector=each,compact=None,labelled]', tier='B', struct='u1', cplx=True, sector='each', compact=None,
        labeled=True)
    # complex entries for the wrappers that take inner products / norms: on the small structure (1x1 blocks)
    add('boost_case', 'B.boost[u1_small,c,nb=1]', tier='B', struct='u1_small', cplx=True, nb=1)
    add('ortho_case', 'B.orthogonal[u1_small,c,no=1]', tier='B', struct='u1_small', cplx=True, no=1)
    add('gram_schmidt_case', 'B.gram_schmidt[u1_small,c,nv=2,same]', tier='B', struct='u1_small', cplx=True, nv=2, same_sector=True)
    add('boost_case', 'B.boost[u1,r,nb=2]', tier='B', struct='u1', cplx=False, nb=2, hsubset='all')
    add('ortho_case', 'B.orthogonal[u1_small,r,no=2]', tier='B', struct='u1_small', cplx=False, no=2, hsubset='all')
    # (3 vectors in gram_schmidt / 2 vectors projected out of a 2-dim sector: Gram determinants of degree 6 in the branch
    #  conditions, the solver answers unknown -> outside the bound, see notes/C16.md)
    if thorough:
        add('gram_schmidt_case', 'B.gram_schmidt[u1_small,r,nv=3,same]', tier='B', struct='u1_small', cplx=False, nv=3, same_sector=True)
        add('ortho_case', 'B.orthogonal[u1_small,c,no=2]', tier='B', struct='u1_small', cplx=True, no=2, hsubset='all')
    for mods in ([1], [3]) + (([2], ) if thorough else ()):
        for qc in (1, -1) if (thorough or mods == [1]) else (1, ):
            kw = dict(tier='A', struct='a2', mods=mods, qconj=qc)
            m = f'a2,mod={mods},qconj={qc}'
            add('shift_case', f'A.shift[{m}]', cplx=True, **kw)
            add('sum_case', f'A.sum[{m}]', cplx=False, **kw)
            add('boost_case', f'A.boost[{m}]', cplx=False, nb=1, **kw)
            if thorough or (mods == [1] and qc == 1):
                add('ortho_case', f'A.orthogonal[{m}]', cplx=False, no=1, hsubset='all', **kw)
            if thorough or (mods == [1] and qc == 1):
                add('gram_schmidt_case', f'A.gram_schmidt[{m}]', cplx=False, nv=2, same_sector=True, **kw)
            for sector in ('zero', 'each', 'none'):
                add('flat_case', f'A.flat[{m},sector={sector},compact=None]', cplx=False, sector=sector, compact=None, **kw)
    return cases
