"""C11 MPO algebra = operator algebra (partial claim, DESIGN section 5 C11).

Symbolic: every entry of every W tensor (arbitrary MPOs, with and without identity markers), every entry of
the MPS tensors of bra and ket (independent symbols), the Schmidt values (positive symbols), coupling
strengths of term lists, environments LP / RP and theta of the effective Hamiltonians, alpha / beta.
Enumerated (bounds): chain length, bond dimensions, charge structure of the legs, which tensors are complex,
the canonical-form labels, marker positions, option flags.

Oracles: dense numpy contractions written here / in catalogue.mpo_factory on the symbols the harness created;
term lists are read with the harness's own Jordan-Wigner construction.
"""
import itertools

import numpy as np

from catalogue import mpo_factory as F

PROPERTY = 'C11'
LEVEL = 'model_checking'
BOUNDS = {
    'quick': 'finite chains L<=3, MPS chi<=2 (d=2), MPO bond dimension <=3 (+ markers), spin-1/2 and spinless-fermion sites '
             'with trivial / U(1) charges; complex entries on the listed tensors (all tensors for the pure MPO algebra, '
             'a stated subset for the <bra|H|ket> networks), forms A/B/C/Th; term lists of <=5 terms with symbolic real/complex strengths',
    'thorough': 'L<=4, chi<=2 (3 on one charged bond), MPO bond dimension <=4, more complex-pattern / marker-position / form combinations '
                '(L=3: bra and ket complex on all sites with real W; L=4 spin: up to three complex tensors with markers)',
}
OUTSIDE = ('apply_zipup / VariationalApplyMPO accuracy, expectation_value_TM/_power (iterative), make_U_I/II order claims, infinite MPOs; '
           'is_hermitian/is_equal on concrete MPOs (plain evaluation); dtype of freshly allocated containers; '
           'to_TermList only for term-list MPOs with strengths bounded away from its cutoff')
STUBS = ['BLAS contract stub', 'numpy facade for tenpy.networks.mpo / mps / terms / site / models.model (dtype widening, abs/real/conj routing)',
         'np.abs results compare to boolean masks by forking (to_TermList cutoff test)']
ASSUMPTIONS = [
    'floats are reals', 'Schmidt values are positive', 'finite MPS store S[0] = S[L] = [1.]',
    'MPO.__add__, to_TermList, prefactor, plus_identity: operands are in the documented sum form (W[IdL,IdL] = W[IdR,IdR] = Id, '
    'no other entry in column IdL / row IdR)', 'to_TermList: |strength| > 1e-3 (documented cutoff 1e-12 drops smaller terms)'
]


def setup_symbolic(case):
    from symx import stubs
    import tenpy.networks.mpo as m1
    import tenpy.networks.mps as m2
    import tenpy.networks.terms as m3
    import tenpy.networks.site as m4
    import tenpy.models.model as m5
    stubs.install_blas()
    stubs.facade_for(m2, m3, m4, m5)
    stubs.facade_for(m1, overrides={'abs': _abs_mask(stubs)})


def _abs_mask(stubs):
    """np.abs whose result, when compared with a threshold, yields a *boolean* mask (each comparison forks):
    `op_W[np.abs(op_W) < cutoff] = 0.` in to_TermList indexes with the comparison result"""
    fac = stubs.NumpyFacade()

    class _Cmp(np.ndarray):

        def _mask(self, o, op):
            a = np.asarray(self)
            out = np.empty(a.shape, dtype=bool)
            for idx in np.ndindex(*a.shape):
                out[idx] = bool(op(a[idx], o))
            return out

        def __lt__(self, o):
            return self._mask(o, lambda x, y: x < y)

        def __le__(self, o):
            return self._mask(o, lambda x, y: x <= y)

        def __gt__(self, o):
            return self._mask(o, lambda x, y: x > y)

        def __ge__(self, o):
            return self._mask(o, lambda x, y: x >= y)

    def _abs(x):
        r = fac.abs(x)
        if isinstance(r, np.ndarray) and r.dtype == object:
            return r.view(_Cmp)
        return r

    return _abs


# ---------------------------------------------------------------------------------------------
def _sites(kind, conserve, L):
    return [F.make_site(kind, conserve)] * L


def _nd(a, labels):
    """dense array of an npc.Array with the axes ordered by `labels`"""
    return a.to_ndarray().transpose([a.get_leg_index(l) for l in labels])


def _scalar(x):
    x = np.asarray(x)
    return x.reshape(-1)[0] if x.size == 1 else x


_VSPEC = {
    # virtual charges of a U(1) (particle number / 2*Sz-like) symmetric MPS; physical charges come from the site
    ('fermion', 'N', 2): [[0], [0, 1], [1]],
    ('fermion', 'N', 3): [[0], [0, 1], [1, 2], [2]],
    ('fermion', 'N', 4): [[0], [0, 1], [1, 1, 2], [2, 3], [3]],
    ('fermion', 'parity', 3): [[0], [0, 1], [0, 1], [1]],
}


def _vspec(kind, conserve, L, chi):
    if conserve in (None, 'None'):
        return [1] + [chi] * (L - 1) + [1]
    return _VSPEC[(kind, conserve, L)]


def _model_mpo(kind, conserve, L, tmpl=None):
    """a concretely built MPO (legs with charges, markers) used as the shape template of symbolic-W MPOs"""
    from tenpy.networks.terms import TermList
    from tenpy.networks.mpo import MPOGraph
    sites = _sites(kind, conserve, L)
    if tmpl == 'hop1':  # smallest charged template: one hopping direction + on-site terms (one non-marker state per bond)
        terms = [[('Cd', i), ('C', i + 1)] for i in range(L - 1)] + [[('N', i)] for i in range(L)]
    elif kind == 'fermion':
        terms = [[('Cd', i), ('C', i + 1)] for i in range(L - 1)] + [[('Cd', i + 1), ('C', i)] for i in range(L - 1)]
        terms += [[('N', i)] for i in range(L)] + [[('N', 0), ('N', L - 1)]]
        if L > 2:
            terms += [[('Cd', 0), ('C', 2)]]
    else:
        terms = [[('Sp', i), ('Sm', i + 1)] for i in range(L - 1)] + [[('Sm', i), ('Sp', i + 1)] for i in range(L - 1)]
        terms += [[('Sz', i)] for i in range(L)] + [[('Sz', 0), ('Sz', L - 1)]]
    tl = TermList(terms, [1.] * len(terms))
    return sites, MPOGraph.from_term_list(tl, sites, 'finite').build_MPO()


def _mpo(ctx, name, kind, conserve, L, D, markers, cplx, swap=False, bd=2, tmpl=None):
    """symbolic-W MPO: trivial charges -> bond dimensions (bd, D.., bd); with charges -> legs of a model MPO"""
    if conserve in (None, 'None'):
        sites = _sites(kind, None, L)
        IdL, IdR = ([1] * (L + 1), [0] * (L + 1)) if swap else (None, None)
        return sites, F.sym_mpo(ctx, name, sites, [bd] + [D] * (L - 1) + [bd], markers=markers, cplx=cplx, IdL=IdL, IdR=IdR)
    sites, H0 = _model_mpo(kind, conserve, L, tmpl)
    return sites, F.sym_mpo(ctx, name, sites, like=H0, markers=markers, cplx=cplx)


# ---------------------------------------------------------------------------------------------
# <bra|H|ket>: MPOEnvironment
def _own_LP(bra, Hm, ket, upto):
    """own contraction of the left environment up to (excluding) site `upto`: axes (vR*, wR, vR); A-form tensors"""
    nW = Hm.W[0].shape[0]
    LP = np.zeros((1, nW, 1), dtype=Hm.W[0].dtype)
    LP[0, F._norm_idx(Hm.IdL[0], nW), 0] = 1.
    for i in range(upto):
        Ab = F.conj_obj(bra.gamma_form(i, 1., 0.))
        Ak = ket.gamma_form(i, 1., 0.)
        t = np.tensordot(LP, Ak, axes=[[2], [0]])  # x w s' b
        t = np.tensordot(t, Hm.W[i], axes=[[1, 2], [0, 3]])  # x b v s
        t = np.tensordot(Ab, t, axes=[[0, 1], [0, 3]])  # a b v
        LP = t.transpose(0, 2, 1)
    return LP


def _own_RP(bra, Hm, ket, downto):
    """own right environment strictly right of site `downto`: axes (vL*, wL, vL); B-form tensors"""
    L = len(Hm.W)
    nW = Hm.W[-1].shape[1]
    RP = np.zeros((1, nW, 1), dtype=Hm.W[0].dtype)
    RP[0, F._norm_idx(Hm.IdR[-1], nW), 0] = 1.
    for i in range(L - 1, downto, -1):
        Bb = F.conj_obj(bra.gamma_form(i, 0., 1.))
        Bk = ket.gamma_form(i, 0., 1.)
        t = np.tensordot(Bk, RP, axes=[[2], [2]])  # a s' x w
        t = np.tensordot(t, Hm.W[i], axes=[[3, 1], [1, 3]])  # a x v s
        t = np.tensordot(t, Bb, axes=[[1, 3], [2, 1]])  # a v a*
        RP = t.transpose(2, 1, 0)
    return RP


def env_case(ctx, kind='spin', conserve=None, L=3, chi=2, D=3, markers=False, cb=False, ck=False, cw=False, forms_b='B',
             forms_k='B', swap=False, plus_hc=False, check_env=True):
    """MPOEnvironment(bra, H, ket): full_contraction at every site and the LP / RP recursion against the dense <bra|H|ket>"""
    from tenpy.networks.mpo import MPOEnvironment
    sites, Hm = _mpo(ctx, 'w', kind, conserve, L, D, markers, cw, swap)
    vs = _vspec(kind, conserve, L, chi)
    sq = any(f in ('C', ) for f in (list(forms_b) + list(forms_k)))
    bra = F.sym_mps(ctx, 'b', sites, vs, cplx=cb, forms=forms_b, sqrtS=sq)
    ket = F.sym_mps(ctx, 'k', sites, vs, cplx=ck, forms=forms_k, sqrtS=sq)
    ctx.note('W_entries', int(sum(np.size(w) for w in Hm.W)))
    Hm.H.explicit_plus_hc = bool(plus_hc)
    O = Hm.dense()
    ref = F.sandwich(bra.dense(), O, ket.dense())
    if plus_hc:
        ref = ref + ref.conjugate()
    env = MPOEnvironment(bra.psi, Hm.H, ket.psi)
    for i0 in range(L):
        ctx.prove_eq(env.full_contraction(i0), ref, f'full_contraction({i0}) == dense <bra|H|ket>')
    if check_env:
        for i in range(1, L):
            ctx.prove_eq(_nd(env.get_LP(i), ['vR*', 'wR', 'vR']), _own_LP(bra, Hm, ket, i), f'get_LP({i}) == dense left part')
        for i in range(L - 1):
            ctx.prove_eq(_nd(env.get_RP(i), ['vL*', 'wL', 'vL']), _own_RP(bra, Hm, ket, i), f'get_RP({i}) == dense right part')
        # a fresh environment, recursion driven from the other end first (cache / age bookkeeping)
        env2 = MPOEnvironment(bra.psi, Hm.H, ket.psi)
        env2.get_RP(0)
        ctx.prove_eq(env2.full_contraction(L - 1), ref, 'full_contraction after get_RP(0) (cached parts)')
        ctx.prove(env2.get_RP_age(0) == L - 1 and env.get_LP_age(L - 1) == L - 1, 'ages of the environments')
    if markers:
        for i in range(1, L):
            lp = _nd(env.init_LP(i), ['vR*', 'wR', 'vR'])
            n = lp.shape[0]
            want = np.zeros(lp.shape)
            want[:, F._norm_idx(Hm.IdL[i], lp.shape[1]), :] = np.eye(n)
            ctx.prove_eq(lp, want, 'init_LP(i) = identity on the IdL index')


def expval_case(ctx, kind='spin', conserve=None, L=3, chi=2, D=2, markers=False, cp=True, cw=False, forms='B', plus_hc=False):
    """expectation_value(_finite): the value is the window contraction <psi|H|psi> (norm attribute ignored, psi need not be
    canonical: both sides contract the same tensors)"""
    sites, Hm = _mpo(ctx, 'w', kind, conserve, L, D, markers, cw)
    psi = F.sym_mps(ctx, 'k', sites, _vspec(kind, conserve, L, chi), cplx=cp, forms=forms, sqrtS=('C' in list(forms)))
    Hm.H.explicit_plus_hc = bool(plus_hc)
    v = psi.dense()
    ref = F.sandwich(v, Hm.dense(), v)
    if plus_hc:
        ref = ref + ref.conjugate()
    ctx.prove_eq(_scalar(Hm.H.expectation_value_finite(psi.psi)), ref, 'expectation_value_finite == dense <psi|H|psi>')
    ctx.prove_eq(_scalar(Hm.H.expectation_value(psi.psi)), ref, 'expectation_value == dense <psi|H|psi>')


def variance_case(ctx, kind='spin', conserve=None, L=2, chi=2, D=2, markers=False, cp=True, cw=False, forms='B'):
    sites, Hm = _mpo(ctx, 'w', kind, conserve, L, D, markers, cw)
    psi = F.sym_mps(ctx, 'k', sites, _vspec(kind, conserve, L, chi), cplx=cp, forms=forms)
    v = psi.dense()
    O = Hm.dense()
    e = F.sandwich(v, O, v)
    e2 = F.sandwich(v, np.dot(O, O), v)
    ctx.prove_eq(_scalar(Hm.H.variance(psi.psi)), e2 - e * e, 'variance == <H^2> - <H>^2 (dense, norm ignored)')
    ctx.prove_eq(_scalar(Hm.H.variance(psi.psi, exp_val=0.)), e2, 'variance(exp_val=0) == <H^2>')


# ---------------------------------------------------------------------------------------------
# pure MPO algebra (polynomials in the W entries only)
def _unchanged(ctx, Hm, what):
    for i in range(Hm.H.L):
        ctx.prove_eq(_nd(Hm.H.get_W(i), ['wL', 'wR', 'p', 'p*']), Hm.W[i], f'{what}: operand W[{i}] unchanged')


def _sum_form_ok(ctx, H, what):
    """the result of an operation that promises the sum form has its markers where it says"""
    L = H.L
    for i in range(L):
        W = _nd(H.get_W(i), ['wL', 'wR', 'p', 'p*'])
        d = W.shape[2]
        a, b = H.get_IdL(i), H.get_IdL(i + 1) if i + 1 < L else H.IdL[L]
        if a is not None and b is not None:
            ctx.prove_eq(W[a, b], np.eye(d), f'{what}: W[IdL,IdL] == Id')
        a, b = H.IdR[i], H.get_IdR(i)
        if a is not None and b is not None:
            ctx.prove_eq(W[a, b], np.eye(d), f'{what}: W[IdR,IdR] == Id')


def _sum_attributes(ctx, C, X, Y, what):
    """documented attributes of a sum: max_range = max of the operands' (None = unknown if either is unknown), same bc / sites /
    explicit_plus_hc, IdL = 0 / IdR = -1 on the outer bonds"""
    rx, ry = X.max_range, Y.max_range
    want = None if (rx is None or ry is None) else max(rx, ry)
    ctx.prove(C.max_range == want, f'{what}: max_range == max of the operands\' max_range (None if unknown)')
    ctx.prove(C.bc == X.bc == Y.bc and C.L == X.L and C.explicit_plus_hc == X.explicit_plus_hc and C.sites == X.sites,
              f'{what}: bc / L / sites / explicit_plus_hc of the sum')
    ctx.prove(C.get_IdL(0) == 0 and C.get_IdR(C.L - 1) in (-1, C.chi[-1] - 1), f'{what}: outer markers of the sum')


def add_case(ctx, kind='spin', conserve=None, L=3, DA=3, DB=2, cplx=True, swapA=False, swapB=False, plus_hc=False, ranges=(1, 2)):
    sites, A = _mpo(ctx, 'a', kind, conserve, L, DA, True, cplx, swapA)
    _, B = _mpo(ctx, 'b', kind, conserve, L, DB, True, cplx, swapB)
    A.H.explicit_plus_hc = B.H.explicit_plus_hc = bool(plus_hc)
    A.H.max_range, B.H.max_range = ranges  # what the builder of A, B knows about them (None = unknown)
    C = A.H + B.H
    C.test_sanity()
    dA, dB = A.dense(), B.dense()
    ctx.prove_eq(F.mpo_dense_of(C), dA + dB, 'dense(A + B) == dense(A) + dense(B)')
    _sum_attributes(ctx, C, A.H, B.H, 'A + B')
    _sum_attributes(ctx, B.H + A.H, B.H, A.H, 'B + A')
    ctx.prove(A.H.max_range == ranges[0] and B.H.max_range == ranges[1], 'A + B: max_range of the operands unchanged')
    ctx.prove(C.explicit_plus_hc == bool(plus_hc), 'A + B keeps explicit_plus_hc')
    ctx.prove(all(x is not None for x in C.IdL) and all(x is not None for x in C.IdR), 'A + B has IdL / IdR on every bond')
    _sum_form_ok(ctx, C, 'A + B')
    _unchanged(ctx, A, 'A + B')
    _unchanged(ctx, B, 'A + B')
    E = C + A.H  # closure: the sum is again a valid operand
    ctx.prove_eq(F.mpo_dense_of(E), dA + dB + dA, 'dense((A + B) + A) == 2 dense(A) + dense(B)')
    E2 = B.H + A.H
    ctx.prove_eq(F.mpo_dense_of(E2), dA + dB, 'dense(B + A) == dense(A) + dense(B)')
    B.H.explicit_plus_hc = not plus_hc
    try:
        A.H + B.H
        ctx.fail('A + B with different explicit_plus_hc flags must raise')
    except ValueError:
        ctx.prove(True, 'A + B with different explicit_plus_hc flags raises ValueError')


def termlist_add_case(ctx, kind='spin', conserve='Sz', bc='finite', L=3, long_range=2, sym=True):
    """sum of two term-list MPOs of different range: dense (finite), attributes, and for infinite MPOs the decision procedures that
    size their window from max_range: is_equal(A + B, partner differing only in the longest-range term) must be False"""
    from tenpy.networks.terms import TermList
    from tenpy.networks.mpo import MPOGraph
    sites = _sites(kind, conserve, L)
    a, b, z = ('Sp', 'Sm', 'Sz') if kind == 'spin' else ('Cd', 'C', 'N')
    n = L if bc == 'infinite' else L - 1
    short = [[(a, i), (b, i + 1)] for i in range(n)] + [[(a, i + 1), (b, i)] for i in range(n)] + [[(z, i)] for i in range(L)]
    sv = [0.5] * (2 * n) + [0.25 * (i + 1) for i in range(L)]
    long_ = [[(z, 0), (z, long_range)]]
    if sym and bc == 'finite':
        s_long = ctx.real('s_long')
        s_short = ctx.real('s_short')
        sv = [s_short * x for x in sv]
    else:
        s_long, s_short = 1.5, 1.

    def build(terms, vals):
        arr = np.empty(len(vals), dtype=object if (ctx.symbolic and sym and bc == 'finite') else float)
        for k, x in enumerate(vals):
            arr[k] = x
        return MPOGraph.from_term_list(TermList([list(t) for t in terms], arr), sites, bc).build_MPO()

    A = build(short, sv)
    B = build(long_, [s_long])
    ctx.prove(A.max_range == 1 and B.max_range == long_range, 'max_range of term-list MPOs == range of their longest term')
    S = A + B
    S.test_sanity()
    _sum_attributes(ctx, S, A, B, 'A + B (term lists)')
    _sum_attributes(ctx, B + A, B, A, 'B + A (term lists)')
    if bc == 'finite':
        tables = [F.own_ops(x) for x in sites]
        O = sum(F.own_term_dense(sites, t, tables) * x for t, x in zip(short + long_, list(sv) + [s_long]))
        ctx.prove_eq(F.mpo_dense_of(S), O, 'dense(A + B) == sum of all terms (term lists of different range)')
        return
    # infinite: concrete strengths; the comparison window of is_equal comes from max_range of the operands
    direct = build(short + long_, list(sv) + [s_long])
    partner = build(short + long_, list(sv) + [s_long + 1.])
    no_long = build(short, sv)
    ctx.prove(bool(S.is_equal(direct)) and bool(direct.is_equal(S)), 'is_equal(A + B, MPO of all terms) is True')
    ctx.prove(bool((B + A).is_equal(S)), 'is_equal(B + A, A + B) is True')
    ctx.prove(not S.is_equal(partner) and not partner.is_equal(S),
              'is_equal(A + B, partner differing only in the longest-range term) is False')
    # (the window comes from the max_range of the MPO is_equal is called on -- documented default -- so only this direction is claimed)
    ctx.prove(not S.is_equal(no_long), 'is_equal(A + B, A) is False (B is the long-range term)')
    ctx.prove(bool(S.is_hermitian()), 'A + B (Hermitian operands) is_hermitian')


def dagger_case(ctx, kind='spin', conserve=None, L=3, D=3, markers=True, cplx=True, swap=False):
    sites, A = _mpo(ctx, 'a', kind, conserve, L, D, markers, cplx, swap)
    dA = A.dense()
    Ad = A.H.dagger()
    Ad.test_sanity()
    ctx.prove_eq(F.mpo_dense_of(Ad), F.conj_obj(dA).T, 'dense(A.dagger()) == dense(A)^dagger')
    ctx.prove(Ad.IdL == A.H.IdL and Ad.IdR == A.H.IdR, 'dagger keeps the markers')
    _unchanged(ctx, A, 'dagger')
    Add = Ad.dagger()
    ctx.prove_eq(F.mpo_dense_of(Add), dA, 'dense(A.dagger().dagger()) == dense(A)')
    for i in range(L):
        try:
            Add.get_W(i).get_leg('wL').test_equal(A.H.get_W(i).get_leg('wL'))
            Add.get_W(i).get_leg('wR').test_equal(A.H.get_W(i).get_leg('wR'))
        except ValueError as e:
            ctx.fail('double dagger restores the virtual legs', str(e)[:100])
    # with explicit_plus_hc the represented operator W + W^dagger is Hermitian: dagger() is a copy
    A.H.explicit_plus_hc = True
    Ah = A.H.dagger()
    ctx.prove_eq(F.mpo_dense_of(Ah), dA, 'dagger with explicit_plus_hc keeps W')
    ctx.prove(Ah.explicit_plus_hc is True and A.H.is_hermitian() is True, 'explicit_plus_hc: flag kept, is_hermitian() True')


def overlap_case(ctx, kind='spin', conserve=None, L=2, DA=3, DB=2, markers=True, cplx=True, hcA=False, hcB=False, distance=False, bd=2):
    """overlap == Frobenius product Tr(A^dagger B) of the represented operators; distance / is_equal decide with exactly that"""
    sites, A = _mpo(ctx, 'a', kind, conserve, L, DA, markers, cplx, bd=bd)
    _, B = _mpo(ctx, 'b', kind, conserve, L, DB, markers, cplx, swap=markers, bd=bd)
    A.H.explicit_plus_hc, B.H.explicit_plus_hc = bool(hcA), bool(hcB)
    dA, dB = A.dense(), B.dense()
    if hcA:
        dA = dA + F.conj_obj(dA).T
    if hcB:
        dB = dB + F.conj_obj(dB).T
    fro = lambda X, Y: np.sum(F.conj_obj(X) * Y)
    ctx.prove_eq(_scalar(A.H.overlap(B.H)), fro(dA, dB), 'overlap(A, B) == Tr(A^dagger B)')
    ctx.prove_eq(_scalar(B.H.overlap(A.H)), fro(dB, dA), 'overlap(B, A) == Tr(B^dagger A)')
    ctx.prove_eq(_scalar(A.H.overlap(A.H)), fro(dA, dA), 'overlap(A, A) == |A|_F^2')
    if distance:
        dd = fro(dA - dB, dA - dB)
        nn = fro(dA, dA) + fro(dB, dB)
        try:
            dist = A.H.distance(B.H)
            ctx.prove_eq(_scalar(dist), abs(dd.real) if ctx.symbolic else abs(dd), 'distance(A, B) == |A - B|_F^2')
        except RuntimeError:
            # raised iff the computed squared distance is negative beyond rounding: never for exact arithmetic; the
            # engine may not be able to refute the branch (positivity of an expanded sum of squares), then the
            # obligation below is the literal branch condition
            ctx.prove(dd.real < -1.e-14 * nn.real, 'distance raises only for a negative squared distance')
        eq = A.H.is_equal(B.H, eps=0.25)
        want = abs(dd.real) < 0.25 * abs(nn.real)
        ctx.prove(want if eq else ctx.Not(want), 'is_equal(A, B, eps) <=> |A-B|^2 < eps (|A|^2 + |B|^2)')

def _own_prefactor(Hm, sites, i, ops):
    """coefficient of the operator string `ops` starting on site i: paths IdL -> (neither IdL nor IdR) -> IdR, each W entry
    projected on the operator by the trace inner product (own operator tables)"""
    vec = None
    for k, name in enumerate(ops):
        j = i + k
        op = F.own_ops(sites[j])[0][name]
        W = Hm.W[j]
        M = np.tensordot(W, np.conj(op), axes=[[2, 3], [0, 1]]) / np.sum(np.abs(op)**2)  # (wL, wR)
        if vec is None:
            vec = M[F._norm_idx(Hm.IdL[j], M.shape[0])]
        else:
            keep = np.ones(len(vec))
            keep[F._norm_idx(Hm.IdL[j], len(vec))] = 0.
            keep[F._norm_idx(Hm.IdR[j], len(vec))] = 0.
            vec = np.dot(vec * keep, M)
    return vec[F._norm_idx(Hm.IdR[i + len(ops)], len(vec))]


def prefactor_case(ctx, kind='spin', conserve=None, L=3, D=3, cplx=True, swap=False):
    sites, A = _mpo(ctx, 'a', kind, conserve, L, D, True, cplx, swap)
    names = ['Sz', 'Sp', 'Sm', 'Id'] if kind == 'spin' else ['N', 'C', 'Cd', 'Id']
    n = 0
    for i in range(L):
        for ln in range(1, L - i + 1):
            for ops in itertools.product(names, repeat=ln):
                if n % 7 and ln > 1:  # every string of length 1, a fixed subset of the longer ones
                    n += 1
                    continue
                n += 1
                try:
                    got = A.H.prefactor(i, list(ops))
                except ValueError as e:
                    if 'charge' in str(e).lower() or 'incompatible' in str(e).lower() or 'contractible' in str(e).lower():
                        continue  # operator string not compatible with the conserved charge of the MPO
                    raise
                ctx.prove_eq(_scalar(got), _own_prefactor(A, sites, i, ops), 'prefactor(i, ops) == projected path sum')
                ctx.note('prefactor_strings')
    _unchanged(ctx, A, 'prefactor')


def plus_identity_case(ctx, kind='spin', conserve=None, L=3, D=3, cplx=True, swap=False, where=(0, ), cplx_ab=True, tmpl=None):
    sites, A = _mpo(ctx, 'a', kind, conserve, L, D, True, cplx, swap, tmpl=tmpl)
    N = len(where)
    alpha = ctx.num('alpha', cplx_ab)
    # beta ** (1/N): for N > 1 the documented real positive beta (a root of a symbolic complex number is outside the engine)
    beta = ctx.num('beta', cplx_ab) if N == 1 else ctx.real('beta', pos=True)
    dA = A.dense()
    R = A.H.plus_identity(alpha, beta, sites=list(where))
    R.test_sanity()
    ctx.prove_eq(F.mpo_dense_of(R), alpha * np.eye(dA.shape[0]) + beta * dA, 'dense(plus_identity(alpha, beta)) == alpha 1 + beta dense(A)')
    ctx.prove_eq(F.mpo_dense_of(A.H), dA, 'plus_identity: operand represents the same operator afterwards')


_PI_TERMS = {
    # every set has a coupling of range >= 2 that passes THROUGH an interior site, a nearest-neighbour coupling and an on-site term
    'spin3': ([[('Sz', 0), ('Sz', 2)], [('Sp', 0), ('Sm', 1)], [('Sm', 1), ('Sp', 2)], [('Sz', 1)], [('Sx', 0), ('Sz', 1), ('Sx', 2)]],
              [0.5, 2., 0.75, 3., 1.5]),
    'spin4': ([[('Sz', 0), ('Sz', 3)], [('Sp', 1), ('Sm', 3)], [('Sm', 0), ('Sp', 2)], [('Sz', 1), ('Sz', 2)], [('Sz', 2)],
               [('Sx', 0), ('Sx', 3)]], [1.5, 0.5, 0.75, 2., 3., 0.25]),
    'fermion3': ([[('Cd', 0), ('C', 2)], [('Cd', 2), ('C', 0)], [('Cd', 0), ('C', 1)], [('N', 1)], [('N', 0), ('N', 2)]],
                 [0.5, 0.5, 2., 3., 0.75]),
    'fermion4': ([[('Cd', 0), ('C', 3)], [('Cd', 3), ('C', 1)], [('N', 1), ('N', 2)], [('N', 0), ('N', 3)], [('N', 2)]],
                 [1.5, 0.5, 2., 0.75, 3.]),
}


def plus_identity_termlist_case(ctx, termset='spin3', kind='spin', conserve=None, where=(1, ), sym_strengths=False, cplx_ab=True):
    """plus_identity(alpha, beta, sites) of an MPO with couplings of range >= 2 passing through the modified sites:
    dense == alpha 1 + beta sum_k strength_k term_k (own Jordan-Wigner products); alpha, beta symbolic; the strengths are exactly
    representable constants (or symbols with sym_strengths)"""
    from tenpy.networks.terms import TermList
    from tenpy.networks.mpo import MPOGraph
    terms, vals = _PI_TERMS[termset]
    terms = [list(map(tuple, t)) for t in terms]
    L = 1 + max(i for t in terms for _, i in t)
    sites = _sites(kind, conserve, L)
    if sym_strengths:
        st = [ctx.real(f's{k}') for k in range(len(terms))]
        arr = np.empty(len(st), dtype=object if ctx.symbolic else float)
        for k, x in enumerate(st):
            arr[k] = x
    else:
        st = list(vals)
        arr = np.array(vals, dtype=float)
    H = MPOGraph.from_term_list(TermList([list(t) for t in terms], arr), sites, 'finite').build_MPO()
    ctx.note('mpo_chi_max', int(max(H.chi)))
    tables = [F.own_ops(s) for s in sites]
    O = None
    for x, t in zip(st, terms):
        m = F.own_term_dense(sites, t, tables) * x
        O = m if O is None else O + m
    N = len(where)
    alpha = ctx.num('alpha', cplx_ab)
    beta = ctx.num('beta', cplx_ab) if N == 1 else ctx.real('beta', pos=True)  # beta ** (1/N): real positive for N > 1
    if sorted(where) != list(range(min(where), max(where) + 1)):
        try:
            H.plus_identity(alpha, beta, sites=list(where))
            ctx.fail('plus_identity with non-contiguous sites must raise NotImplementedError (documented in the source)')
        except NotImplementedError:
            ctx.prove(True, 'plus_identity with non-contiguous sites raises NotImplementedError')
        return
    R = H.plus_identity(alpha, beta, sites=list(where))
    R.test_sanity()
    ctx.prove_eq(F.mpo_dense_of(R), alpha * np.eye(O.shape[0]) + beta * O,
                 'dense(plus_identity(alpha, beta, sites)) == alpha 1 + beta sum strength * own JW product')
    ctx.prove_eq(F.mpo_dense_of(H), O + 0. * alpha, 'plus_identity: operand represents the same operator afterwards')
    ctx.prove(R.get_IdL(0) is not None and R.get_IdR(L - 1) is not None and R.bc == 'finite', 'plus_identity: boundary markers of the result')


def _dense_of_mps(psi):
    """state denoted by a tenpy MPS object (finite): S_0 G_0 S_1 ... S_L read from its stored tensors, forms and S"""
    L = psi.L
    cur = None
    for i in range(L):
        t = _nd(psi._B[i], ['vL', 'p', 'vR'])
        fL, fR = psi.form[i]
        t = t * F._pw(np.asarray(psi._S[i]), 1. - fL)[:, None, None]
        t = t * F._pw(np.asarray(psi._S[i + 1]), -fR)[None, None, :]
        cur = t[0] if cur is None else np.tensordot(cur, t, axes=[[-1], [0]])
    cur = cur * np.asarray(psi._S[L])
    return cur[..., 0]


def apply_naively_case(ctx, kind='spin', conserve=None, L=3, chi=2, D=2, markers=False, cp=True, cw=True, forms='B', swap=False):
    """apply_naively: the new tensors denote dense(H) . dense(psi) exactly (before any compression)"""
    sites, Hm = _mpo(ctx, 'w', kind, conserve, L, D, markers, cw, swap)
    psi = F.sym_mps(ctx, 'k', sites, _vspec(kind, conserve, L, chi), cplx=cp, forms=forms)
    v = psi.dense()
    O = Hm.dense()
    want = np.dot(O, v.reshape(-1)).reshape(v.shape)
    p = psi.psi
    norm0 = p.norm
    Hm.H.apply_naively(p)
    p.test_sanity()
    ctx.prove_eq(_dense_of_mps(p), want, 'apply_naively: new MPS == dense(H) . dense(psi)')
    ctx.prove(p.norm == norm0, 'apply_naively keeps psi.norm')
    ctx.prove([int(c) for c in p.chi] == [int(a) * int(b) for a, b in zip(Hm.H.chi[1:-1], psi.T[0].shape[2:3] + tuple(t.shape[2] for t in psi.T[1:-1]))],
              'apply_naively: new bond dimensions are the products')
    _unchanged(ctx, Hm, 'apply_naively')
    Hm.H.explicit_plus_hc = True
    try:
        Hm.H.apply_naively(p)
        ctx.fail('apply_naively with explicit_plus_hc must raise')
    except NotImplementedError:
        ctx.prove(True, 'apply_naively with explicit_plus_hc raises NotImplementedError')

# ---------------------------------------------------------------------------------------------
# effective Hamiltonians of mps_common.py
def _sym_like(ctx, name, A, cplx):
    from catalogue import build as Bd
    return Bd.tensor(ctx, name, A.legs, A.qtotal, cplx=cplx, labels=A.get_leg_labels())


def _split_all(a):
    while any(l.startswith('(') for l in a.get_leg_labels()):
        a = a.split_legs()
    return a


def _own_heff(LPd, Wds, RPd):
    """dense effective Hamiltonian as a tensor with axes (vL', p0', [p1'], vR' ; vL, p0, [p1], vR): primed = output (bra side)"""
    t = LPd  # (a', w, a)
    for Wd in Wds:
        t = np.tensordot(t, Wd, axes=[[1], [0]])  # (..., wR, p, p*) with w removed from position 1
        t = np.moveaxis(t, -3, 1)  # wR back to position 1
    t = np.tensordot(t, RPd, axes=[[1], [1]])  # a', a, (p,p*)..., b', b
    n = len(Wds)
    # current axes: a', a, p0, p0*, [p1, p1*], b', b
    out_axes = [0] + [2 + 2 * k for k in range(n)] + [2 + 2 * n]
    in_axes = [1] + [3 + 2 * k for k in range(n)] + [3 + 2 * n]
    return t.transpose(out_axes + in_axes)


def _apply(Hd, th, adjoint=False):
    n = th.ndim
    if adjoint:
        return np.tensordot(F.conj_obj(Hd), th, axes=[list(range(n)), list(range(n))])
    return np.tensordot(Hd, th, axes=[list(range(n, 2 * n)), list(range(n))])


def effH_case(ctx, which='one', combine=False, move_right=True, kind='spin', conserve=None, L=3, i0=1, chi=2, D=2, cplx=True,
              cpsi=False, update=True):
    """OneSiteH / TwoSiteH / ZeroSiteH with symbolic LP, RP, W and theta: matvec == to_matrix . theta == dense projection,
    adjoint == conjugate transpose, update_LP / update_RP == the environment recursion"""
    from tenpy.networks.mpo import MPOEnvironment
    from tenpy.algorithms import mps_common as MC
    n = {'zero': 0, 'one': 1, 'two': 2}[which]
    sites, Hm = _mpo(ctx, 'w', kind, conserve, L, D, False, cplx)
    nA = i0 + (1 if (n == 2 or (n == 1 and move_right)) else 0)
    forms = ['A'] * nA + ['B'] * (L - nA)
    psi = F.sym_mps(ctx, 'k', sites, _vspec(kind, conserve, L, chi), cplx=cpsi, forms=forms, symS=False)
    env = MPOEnvironment(psi.psi, Hm.H, psi.psi)
    iR = i0 + n - 1  # RP is the part strictly right of site iR
    LP = _sym_like(ctx, 'lp', env.get_LP(i0, store=False), cplx)
    RP = _sym_like(ctx, 'rp', env.get_RP(iR, store=False), cplx)
    env.set_LP(i0, LP.copy(deep=True), age=i0)
    env.set_RP(iR, RP.copy(deep=True), age=L - 1 - iR)
    LPd, RPd = _nd(LP, ['vR*', 'wR', 'vR']), _nd(RP, ['vL*', 'wL', 'vL'])
    Wds = [Hm.W[i0 + k] for k in range(n)]
    Hd = _own_heff(LPd, Wds, RPd)
    if which == 'zero':
        eff = MC.ZeroSiteH(env, i0)
        th0 = None
        lab = ['vL', 'vR']
        legs = [LP.get_leg('vR').conj(), RP.get_leg('vL').conj()]
        from catalogue import build as Bd
        theta = Bd.tensor(ctx, 'th', legs, None, cplx=cplx, labels=lab)
    else:
        eff = (MC.OneSiteH if which == 'one' else MC.TwoSiteH)(env, i0, combine=combine, move_right=move_right)
        lab = ['vL'] + [f'p{k}' for k in range(n)] + ['vR']
        theta = _sym_like(ctx, 'th', psi.psi.get_theta(i0, n), cplx)
    thd = _nd(theta, lab)
    ctx.note('theta_entries', int(thd.size))
    ctx.prove(eff.N == thd.size and eff.length == n, 'N == size of theta, length')
    # matvec
    th_c = eff.combine_theta(theta) if which != 'zero' else theta
    ctx.prove(th_c.get_leg_labels() == list(eff.acts_on), 'combine_theta gives the labels of acts_on')
    out = eff.matvec(th_c)
    ctx.prove(out.get_leg_labels() == th_c.get_leg_labels(), 'matvec keeps the labels of theta')
    ctx.prove_eq(_nd(_split_all(out), lab), _apply(Hd, thd), 'matvec(theta) == dense LP.W.RP.theta')
    # to_matrix
    M = eff.to_matrix()
    ctx.prove(M.rank == 2 and M.shape == (thd.size, thd.size), 'to_matrix is N x N')
    Ms = _split_all(M)
    lab_out = ['vR*'] + [f'p{k}' for k in range(n)] + ['vL*']
    lab_in = ['vR'] + [f'p{k}*' for k in range(n)] + ['vL']
    ctx.prove_eq(_nd(Ms, lab_out + lab_in), Hd, 'to_matrix() == dense effective Hamiltonian (after splitting the pipes)')
    # to_matrix . theta through the pipes tenpy made
    th_m = th_c
    if th_m.rank > 1:
        th_m = th_m.combine_legs(list(range(th_m.rank)), pipes=[M.get_leg(1).conj()])
    mv = _split_all(npc_tensordot(M, th_m))
    mv = mv.replace_labels(lab_out, lab)
    ctx.prove_eq(_nd(mv, lab), _apply(Hd, thd), 'to_matrix() . theta == matvec(theta)')
    # adjoint
    try:
        adj = eff.adjoint()
    except AttributeError as e:
        ctx.fail('adjoint() raises AttributeError', str(e)[:120])
        adj = None
    if adj is not None:
        out = adj.matvec(th_c)
        ctx.prove_eq(_nd(_split_all(out), lab), _apply(Hd, thd, adjoint=True), 'adjoint().matvec(theta) == Heff^dagger theta')
        Ma = _split_all(adj.to_matrix())
        k = len(lab)
        Hdag = F.conj_obj(Hd).transpose(list(range(k, 2 * k)) + list(range(k)))
        ctx.prove_eq(_nd(Ma, lab_out + lab_in), Hdag, 'adjoint().to_matrix() == conjugate transpose')
        ctx.prove_eq(_nd(_split_all(eff.matvec(th_c)), lab), _apply(Hd, thd), 'matvec of the original unchanged by adjoint()')
    if which == 'zero':
        e2 = MC.ZeroSiteH.from_LP_RP(LP.copy(deep=True), RP.copy(deep=True), i0)
        ctx.prove_eq(_nd(e2.matvec(theta), lab), _apply(Hd, thd), 'ZeroSiteH.from_LP_RP matvec')
        return
    if which == 'one' and not combine:
        e2 = MC.OneSiteH.from_LP_W0_RP(LP.copy(deep=True), Hm.H.get_W(i0).copy(deep=True), RP.copy(deep=True), i0)
        ctx.prove_eq(_nd(e2.matvec(theta), lab), _apply(Hd, thd), 'OneSiteH.from_LP_W0_RP matvec')
    if not update:
        return
    # update_LP / update_RP: equal to the recursion of the environment with the A / B tensor of psi
    if (n == 2 or move_right) and i0 + 1 <= L - 1:
        U = psi.psi.get_B(i0, 'A')
        Uc = U.combine_legs(['vL', 'p'], pipes=eff.pipeL) if combine else U
        eff.update_LP(env, i0 + 1, Uc)
        Ud = psi.gamma_form(i0, 1., 0.)
        t = np.tensordot(LPd, Ud, axes=[[2], [0]])  # a' w s' b
        t = np.tensordot(t, Hm.W[i0], axes=[[1, 2], [0, 3]])  # a' b v s
        t = np.tensordot(F.conj_obj(Ud), t, axes=[[0, 1], [0, 3]])  # b' b v
        ctx.prove_eq(_nd(env.get_LP(i0 + 1), ['vR*', 'wR', 'vR']), t.transpose(0, 2, 1), 'update_LP == LP.W.A.A* (dense)')
        ctx.prove(env.get_LP_age(i0 + 1) == i0 + 1, 'update_LP: age')
    if (n == 2 or not move_right) and iR - 1 >= 0:
        V = psi.psi.get_B(iR, 'B')
        Vc = V.combine_legs(['p', 'vR'], pipes=eff.pipeR) if combine else V
        eff.update_RP(env, iR - 1, Vc)
        Vd = psi.gamma_form(iR, 0., 1.)
        t = np.tensordot(Vd, RPd, axes=[[2], [2]])  # a s' b' w
        t = np.tensordot(t, Hm.W[iR], axes=[[3, 1], [1, 3]])  # a b' v s
        t = np.tensordot(t, F.conj_obj(Vd), axes=[[1, 3], [2, 1]])  # a v a'
        ctx.prove_eq(_nd(env.get_RP(iR - 1), ['vL*', 'wL', 'vL']), t.transpose(2, 1, 0), 'update_RP == B.W.RP.B* (dense)')
        ctx.prove(env.get_RP_age(iR - 1) == L - iR, 'update_RP: age')


def npc_tensordot(M, v):
    import tenpy.linalg.np_conserved as npc
    return npc.tensordot(M, v, axes=[1, 0])


# ---------------------------------------------------------------------------------------------
# MPOs from term lists with symbolic strengths
_TERMSETS = {
    'spin3': [[('Sz', 0)], [('Sz', 0), ('Sz', 1)], [('Sp', 0), ('Sm', 2)], [('Sx', 1), ('Sz', 2)], [('Sy', 2), ('Sx', 0)],
              [('Sx', 0), ('Sx', 1), ('Sx', 2)]],
    'spin3b': [[('Sz', 1)], [('Sp', 0), ('Sm', 1)], [('Sm', 0), ('Sp', 1)], [('Sz', 0), ('Sz', 2)], [('Sp', 1), ('Sm', 2)]],
    'spin4': [[('Sz', 3)], [('Sp', 0), ('Sm', 3)], [('Sz', 1), ('Sz', 2)], [('Sx', 0), ('Sz', 1), ('Sx', 2), ('Sz', 3)], [('Sm', 1), ('Sp', 3)]],
    'fermion3': [[('N', 1)], [('Cd', 0), ('C', 1)], [('Cd', 2), ('C', 0)], [('N', 0), ('N', 2)], [('C', 1), ('Cd', 2)]],
    'fermion3hop': [[('Cd', 0), ('C', 1)], [('Cd', 1), ('C', 0)], [('Cd', 0), ('C', 2)], [('Cd', 2), ('C', 1)]],
    'fermion3pair': [[('Cd', 0), ('Cd', 1)], [('C', 2), ('C', 0)], [('N', 1)], [('Cd', 0), ('N', 1), ('C', 2)]],
    'fermion4': [[('Cd', 0), ('C', 3)], [('Cd', 3), ('C', 1)], [('N', 1), ('N', 2)], [('Cd', 0), ('Cd', 1), ('C', 3), ('C', 2)], [('N', 0)]],
}
_BASIS = {'spin': ['Id', 'Sp', 'Sm', 'Sz'], 'spinxyz': ['Id', 'Sx', 'Sy', 'Sz'], 'fermion': ['Id', 'JW', 'C', 'Cd']}


def termlist_case(ctx, termset='spin3', kind='spin', conserve=None, cplx=False, roundtrip=None, chi=0, hermitian=False):
    """MPOGraph.from_term_list(TermList(terms, symbolic strengths)).build_MPO() denotes sum_k strength_k * term_k, the terms
    read with the harness's own Jordan-Wigner operators; prefactor() returns the strengths; to_TermList -> from_term_list
    gives the same operator (round trip, strengths away from the cutoff)"""
    from tenpy.networks.terms import TermList
    from tenpy.networks.mpo import MPOGraph
    terms = [list(map(tuple, t)) for t in _TERMSETS[termset]]
    L = 1 + max(i for t in terms for _, i in t)
    sites = _sites(kind, conserve, L)
    st = [ctx.num(f's{k}', cplx) for k in range(len(terms))]
    if roundtrip:
        for x in st:
            ctx.assume((x > 1.e-3) | (x < -1.e-3) if ctx.symbolic else abs(x) > 1.e-3)
    arr = np.empty(len(st), dtype=object if ctx.symbolic else (complex if cplx else float))
    for k, x in enumerate(st):
        arr[k] = x
    tl = TermList([list(t) for t in terms], arr)
    H = MPOGraph.from_term_list(tl, sites, 'finite').build_MPO()
    H.test_sanity()
    tables = [F.own_ops(s) for s in sites]
    O = None
    for x, t in zip(st, terms):
        m = F.own_term_dense(sites, t, tables) * x
        O = m if O is None else O + m
    dH = F.mpo_dense_of(H)
    ctx.prove_eq(dH, O, 'dense(MPO from term list) == sum strength * own JW product')
    ctx.prove(all(x is not None for x in H.IdL) and all(x is not None for x in H.IdR), 'IdL / IdR set on all bonds')
    _sum_form_ok(ctx, H, 'term-list MPO')
    ctx.note('mpo_chi_max', int(max(H.chi)))
    # prefactor: coefficient of an operator string with traceless end operators == trace projection of the dense operator
    # on that string (plain local matrices of the string, identities elsewhere)
    traceless = {'Sz', 'Sp', 'Sm', 'Sx', 'Sy', 'C', 'Cd'}
    done = set()
    for x, t in zip(st, terms):
        pos = [i for _, i in t]
        if pos != sorted(set(pos)) or t[0][0] not in traceless or t[-1][0] not in traceless:
            continue
        ops = ['Id'] * (pos[-1] - pos[0] + 1)
        for nm, i in t:
            ops[i - pos[0]] = nm
        if kind == 'fermion':  # the matrices between / on the left of fermionic operators carry JW
            par = 0
            for j in range(len(ops) - 1, -1, -1):
                if ops[j] in ('C', 'Cd'):
                    par ^= 1
                elif par:
                    ops[j] = 'JW' if ops[j] == 'Id' else ops[j]
        if (pos[0], tuple(ops)) in done:
            continue
        done.add((pos[0], tuple(ops)))
        mats = [tables[j][0]['Id'] for j in range(L)]
        for k, nm in enumerate(ops):
            mats[pos[0] + k] = tables[pos[0] + k][0][nm]
        P = F.kron_all(mats)
        want = np.sum(np.conj(P) * O) / np.sum(np.abs(P)**2)
        ctx.prove_eq(_scalar(H.prefactor(pos[0], ops)), want, f'prefactor({pos[0]}, {ops}) == trace projection of the dense operator')
        ctx.note('prefactor_strings')
    if chi:
        psi = F.sym_mps(ctx, 'k', sites, _vspec(kind, conserve, L, chi), cplx=True)
        v = psi.dense()
        ctx.prove_eq(_scalar(H.expectation_value(psi.psi)), F.sandwich(v, O, v), 'expectation_value == <psi| sum strength * term |psi>')
    if hermitian:
        Od = F.conj_obj(O).T
        herm = H.is_hermitian()
        dd = np.sum(F.conj_obj(O - Od) * (O - Od))
        nn = 2 * np.sum(F.conj_obj(O) * O)
        want = abs(dd.real) < 1.e-10 * abs(nn.real)
        ctx.prove(want if herm else ctx.Not(want), 'is_hermitian() <=> |O - O^dagger|^2 < eps (|O|^2 + |O^dagger|^2) on the dense operator')
        ctx.note('is_hermitian_True' if herm else 'is_hermitian_False')
    if roundtrip:
        tl2 = H.to_TermList(_BASIS[roundtrip])
        ctx.note('roundtrip_terms', len(tl2.terms))
        H2 = MPOGraph.from_term_list(tl2, sites, 'finite').build_MPO()
        ctx.prove_eq(F.mpo_dense_of(H2), O, 'to_TermList -> from_term_list dense round trip')


def CASES(tier, seed):
    cases = []
    thorough = tier == 'thorough'
    O = dict(max_paths=4000, max_wall_s=1500 if thorough else 700, validate_paths=1, hard_timeout_s=1700 if thorough else 800)

    def add(fn, name, heavy=False, **params):
        o = dict(O)
        if heavy:
            o['profile'] = False  # the call-profile hook (functions_encoded) is taken from the light cases of the same function
        cases.append(dict(name=name, fn=fn, params=params, opts=o))

    # ---- <bra|H|ket>: MPOEnvironment, expectation value, variance
    add('env_case', 'env[spin,L=2,all complex,markers]', L=2, D=3, markers=True, cb=True, ck=True, cw=True)
    add('env_case', 'env[spin,L=2,all complex,no markers,forms A/B]', L=2, D=3, markers=False, cb=True, ck=True, cw=True,
        forms_b=['A', 'B'], forms_k=['B', 'A'])
    add('env_case', 'env[spin,L=3,complex site 1,no markers]', heavy=True, L=3, D=3, markers=False, cb=[0, 1, 0], ck=[0, 1, 0],
        cw=[0, 1, 0], check_env=False)
    add('env_case', 'env[spin,L=3,complex bra0 ket2 W0,markers swapped]', heavy=True, L=3, D=3, markers=True, cb=[1, 0, 0],
        ck=[0, 0, 1], cw=[1, 0, 0], swap=True)
    add('env_case', 'env[spin,L=3,complex bra2 ket0 W2,forms Th/C,plus_hc]', heavy=True, L=3, D=2, markers=True, cb=[0, 0, 1],
        ck=[1, 0, 0], cw=[0, 0, 1], forms_b=['A', 'Th', 'B'], forms_k=['C', 'B', 'A'], plus_hc=True)
    add('env_case', 'env[fermion N,L=3,all complex]', kind='fermion', conserve='N', L=3, markers=True, cb=True, ck=True, cw=True)
    add('expval_case', 'expval[spin,L=2,complex]', L=2, D=3, markers=True, cp=True, cw=True)
    add('expval_case', 'expval[spin,L=3,psi complex site 1,forms]', heavy=True, L=3, D=2, markers=False, cp=[0, 1, 0], cw=False,
        forms=['A', 'B', 'B'])
    add('expval_case', 'expval[fermion N,L=3,complex,plus_hc]', kind='fermion', conserve='N', L=3, markers=True, cp=True, cw=True,
        plus_hc=True)
    add('variance_case', 'variance[spin,L=2,psi complex site 0]', L=2, D=2, cp=[1, 0], cw=False)
    add('variance_case', 'variance[fermion N,L=3,psi complex site 0]', heavy=True, kind='fermion', conserve='N', L=3, markers=True,
        cp=[1, 0, 0], cw=False)
    # ---- MPO algebra
    add('add_case', 'add[spin,L=3,complex]', L=3, DA=3, DB=2)
    add('add_case', 'add[spin,L=2,markers swapped,plus_hc]', L=2, DA=2, DB=3, swapA=True, plus_hc=True)
    add('add_case', 'add[fermion N,L=3,complex]', kind='fermion', conserve='N', L=3, ranges=[2, None])
    add('add_case', 'add[spin,L=2,max_range 3 and 1]', L=2, DA=2, DB=2, ranges=[3, 1])
    add('termlist_add_case', 'add[term lists,spin Sz,finite L=3,ranges 1 and 2,symbolic strengths]', bc='finite', L=3, long_range=2)
    add('termlist_add_case', 'add[term lists,spin Sz,infinite L=2,ranges 1 and 4,is_equal]', bc='infinite', L=2, long_range=4, sym=False)
    add('termlist_add_case', 'add[term lists,fermion N,infinite L=1,ranges 1 and 3,is_equal]', kind='fermion', conserve='N', bc='infinite',
        L=1, long_range=3, sym=False)
    add('dagger_case', 'dagger[spin,L=3,markers]', L=3, D=3, markers=True)
    add('dagger_case', 'dagger[spin,L=3,no markers]', L=3, D=3, markers=False)
    add('dagger_case', 'dagger[fermion N,L=3]', kind='fermion', conserve='N', L=3)
    for hcA, hcB in itertools.product([False, True], repeat=2):
        add('overlap_case', f'overlap[spin,L=2,hcA={hcA},hcB={hcB}]', L=2, hcA=hcA, hcB=hcB)
    add('overlap_case', 'overlap[spin,L=3,no markers]', heavy=True, L=3, DA=2, DB=1, markers=False)
    add('overlap_case', 'overlap[fermion N,L=3]', kind='fermion', conserve='N', L=3)
    add('overlap_case', 'distance[spin,L=1,real]', L=1, DA=1, DB=1, bd=1, markers=False, cplx=False, distance=True)
    add('overlap_case', 'distance[spin,L=1,complex]', L=1, DA=1, DB=1, bd=1, markers=False, cplx=True, distance=True)
    add('prefactor_case', 'prefactor[spin,L=3]', L=3, D=3)
    add('prefactor_case', 'prefactor[fermion N,L=3]', kind='fermion', conserve='N', L=3)
    add('plus_identity_case', 'plus_identity[spin,L=2,sites=[0]]', L=2, D=3, where=[0])
    add('plus_identity_case', 'plus_identity[spin,L=2,sites=[1],swapped]', L=2, D=3, where=[1], swap=True)
    add('plus_identity_case', 'plus_identity[spin,L=2,sites=[0,1]]', L=2, D=3, where=[0, 1])
    add('plus_identity_case', 'plus_identity[fermion N,L=2,sites=[1]]', kind='fermion', conserve='N', L=2, where=[1], tmpl='hop1')
    for w in ([1], [0, 1], [1, 2], [0, 2]):  # N = 3 sites needs beta ** (1/3): outside the scalar engine
        add('plus_identity_termlist_case', f'plus_identity[spin3 term list,range-2 coupling,sites={w}]', termset='spin3', where=w)
    add('plus_identity_termlist_case', 'plus_identity[fermion3 term list,N,sites=[1]]', termset='fermion3', kind='fermion', conserve='N',
        where=[1])
    add('plus_identity_termlist_case', 'plus_identity[spin3 term list,symbolic strengths,sites=[1]]', termset='spin3', where=[1],
        sym_strengths=True, cplx_ab=False)
    add('apply_naively_case', 'apply_naively[spin,L=3,no markers]', L=3, D=2)
    add('apply_naively_case', 'apply_naively[spin,L=2,markers swapped,forms]', L=2, D=3, markers=True, swap=True, forms=['A', 'B'])
    add('apply_naively_case', 'apply_naively[fermion N,L=3]', kind='fermion', conserve='N', L=3, markers=True)
    # ---- effective Hamiltonians
    for which, combine, mr in [('one', False, True), ('one', True, True), ('one', True, False), ('two', False, True), ('two', True, True),
                               ('zero', False, True)]:
        add('effH_case', f'effH[{which},combine={combine},move_right={mr},spin]', heavy=(which == 'two' and combine), which=which,
            combine=combine, move_right=mr, i0=(0 if which == 'two' else 1), D=(2 if which == 'two' else 3))
    add('effH_case', 'effH[two,combine=True,fermion N]', which='two', combine=True, kind='fermion', conserve='N', L=3, i0=1)
    add('effH_case', 'effH[one,combine=False,fermion N]', which='one', combine=False, move_right=False, kind='fermion', conserve='N', L=3, i0=1)
    # ---- term lists with symbolic strengths
    add('termlist_case', 'termlist[spin3,complex strengths]', termset='spin3', cplx=True)
    add('termlist_case', 'termlist[spin3b,complex strengths,psi]', heavy=True, termset='spin3b', cplx=True, chi=2)
    add('termlist_case', 'termlist[spin3b,Sz,real,roundtrip]', termset='spin3b', conserve='Sz', roundtrip='spin')
    add('termlist_case', 'termlist[spin3,real,roundtrip xyz]', termset='spin3', roundtrip='spinxyz')
    add('termlist_case', 'termlist[fermion3,N,complex strengths,psi]', termset='fermion3', kind='fermion', conserve='N', cplx=True, chi=2)
    add('termlist_case', 'termlist[fermion3pair,parity,complex]', termset='fermion3pair', kind='fermion', conserve='parity', cplx=True)
    add('termlist_case', 'termlist[fermion3hop,N,real,roundtrip]', termset='fermion3hop', kind='fermion', conserve='N', roundtrip='fermion')
    add('termlist_case', 'termlist[spin3b,real,is_hermitian]', termset='spin3b', hermitian=True)
    if thorough:
        add('env_case', 'env[spin,L=3,bra and ket all complex,W real,D=2]', heavy=True, L=3, D=2, markers=False, cb=True, ck=True, cw=False,
            check_env=False)
        add('env_case', 'env[spin,L=3,complex site 1,D=4,recursion]', heavy=True, L=3, D=4, markers=True, cb=[0, 1, 0], ck=[0, 1, 0],
            cw=[0, 1, 0])
        for k in range(4):
            pat = [int(j == k) for j in range(4)]
            add('env_case', f'env[spin,L=4,complex site {k},D=2,markers]', heavy=True, L=4, D=2, markers=True, cb=pat, ck=pat[::-1],
                cw=pat, check_env=(k == 0), forms_b=['A', 'A', 'B', 'B'], forms_k='B', swap=bool(k % 2))
        add('env_case', 'env[spin,L=4,complex bra site 1,D=2,no markers]', heavy=True, L=4, D=2, markers=False, cb=[0, 1, 0, 0], ck=False,
            cw=False, check_env=False)
        add('env_case', 'env[spin,L=4,complex W site 2,D=2,no markers]', heavy=True, L=4, D=2, markers=False, cb=False, ck=False,
            cw=[0, 0, 1, 0], check_env=False)
        add('env_case', 'env[fermion N,L=4,bra ket complex,W complex at the ends]', heavy=True, kind='fermion', conserve='N', L=4,
            markers=True, cb=True, ck=True, cw=[1, 0, 0, 1])
        add('env_case', 'env[fermion parity,L=3,all complex]', heavy=True, kind='fermion', conserve='parity', L=3, markers=True, cb=True,
            ck=True, cw=[1, 0, 1])
        add('expval_case', 'expval[spin,L=3,psi complex,W real]', heavy=True, L=3, D=2, markers=True, cp=True, cw=False)
        add('expval_case', 'expval[fermion N,L=4,complex]', heavy=True, kind='fermion', conserve='N', L=4, markers=True, cp=True, cw=True)
        add('variance_case', 'variance[fermion N,L=4,psi complex site 0]', heavy=True, kind='fermion', conserve='N', L=4, markers=True,
            cp=[1, 0, 0, 0], cw=False)
        add('variance_case', 'variance[spin,L=2,D=3,markers,psi complex site 1]', heavy=True, L=2, D=3, markers=True, cp=[0, 1], cw=False)
        add('add_case', 'add[spin,L=4,complex]', heavy=True, L=4, DA=3, DB=3, swapB=True)
        add('add_case', 'add[fermion N,L=4,complex]', heavy=True, kind='fermion', conserve='N', L=4)
        add('dagger_case', 'dagger[spin,L=4,D=4]', heavy=True, L=4, D=4, markers=True, swap=True)
        add('dagger_case', 'dagger[fermion parity,L=3]', kind='fermion', conserve='parity', L=3)
        add('overlap_case', 'overlap[spin,L=3,markers,hcA]', heavy=True, L=3, DA=3, DB=2, hcA=True)
        add('prefactor_case', 'prefactor[spin,L=4,swapped]', heavy=True, L=4, D=3, swap=True)
        add('plus_identity_case', 'plus_identity[spin,L=3,sites=[1],real alpha beta]', heavy=True, L=3, D=3, where=[1], cplx_ab=False)
        add('plus_identity_case', 'plus_identity[fermion N,L=2,sites=[0,1]]', heavy=True, kind='fermion', conserve='N', L=2, where=[0, 1],
            tmpl='hop1')
        for w in ([1], [2], [1, 2], [0, 1], [2, 3], [1, 3]):
            add('plus_identity_termlist_case', f'plus_identity[spin4 term list,range-3 couplings,sites={w}]', heavy=True, termset='spin4',
                where=w)
        add('plus_identity_termlist_case', 'plus_identity[fermion4 term list,N,sites=[1,2]]', heavy=True, termset='fermion4',
            kind='fermion', conserve='N', where=[1, 2])
        add('plus_identity_termlist_case', 'plus_identity[fermion4 term list,parity,sites=[2]]', heavy=True, termset='fermion4',
            kind='fermion', conserve='parity', where=[2])
        add('apply_naively_case', 'apply_naively[spin,L=4,markers]', heavy=True, L=4, D=2, markers=True, cp=[1, 0, 0, 1], cw=[0, 1, 1, 0])
        add('apply_naively_case', 'apply_naively[fermion N,L=4]', heavy=True, kind='fermion', conserve='N', L=4, markers=True)
        for which, combine, mr, i0 in [('one', False, False, 0), ('one', True, True, 2), ('two', True, True, 1), ('two', False, True, 2),
                                       ('zero', False, True, 2), ('zero', False, True, 3)]:
            add('effH_case', f'effH[{which},combine={combine},move_right={mr},i0={i0},spin L=4]', heavy=True, which=which,
                combine=combine, move_right=mr, L=4, i0=i0, D=2)
        add('effH_case', 'effH[two,combine=True,fermion N,L=4]', heavy=True, which='two', combine=True, kind='fermion', conserve='N',
            L=4, i0=1)
        add('effH_case', 'effH[one,combine=True,fermion parity]', heavy=True, which='one', combine=True, move_right=False, kind='fermion',
            conserve='parity', L=3, i0=1)
        add('termlist_case', 'termlist[spin4,complex strengths]', heavy=True, termset='spin4', cplx=True)
        add('termlist_case', 'termlist[spin4,real,roundtrip]', heavy=True, termset='spin4', roundtrip='spinxyz')
        add('termlist_case', 'termlist[fermion4,N,complex strengths,psi]', heavy=True, termset='fermion4', kind='fermion', conserve='N',
            cplx=True, chi=2)
    return cases
