"""C11 MPO algebra = operator algebra (partial claim, DESIGN section 5 C11).

Symbolic: every entry of every W tensor (arbitrary MPOs, with and without identity markers), every entry of
the MPS tensors of bra and ket (independent symbols), the Schmidt values (positive symbols), coupling
strengths of term lists, environments LP / RP and theta of the effective Hamiltonians, alpha / beta.
Enumerated (bounds): chain length, bond dimensions, charge structure of the legs, which tensors are complex,
the canonical-form labels, marker positions, option flags.

Oracles: dense numpy contractions written here / in catalogue.mpo_factory on the symbols the harness created;
term lists are read with the harness's own Jordan-Wigner construction.
"""
import itertools

import numpy as np

from catalogue import mpo_factory as F

PROPERTY = 'C11'
LEVEL = 'model_checking'
BOUNDS = {
    'quick': 'finite chains L<=3, MPS chi<=2 (d=2), MPO bond dimension <=3 (+ markers), spin-1/2 and spinless-fermion sites '
             'with trivial / U(1) charges; complex entries on the listed tensors (all tensors for the pure MPO algebra, '
             'a stated subset for the <bra|H|ket> networks), forms A/B/C/Th; term lists of <=5 terms with symbolic real/complex strengths',
    'thorough': 'L<=4, chi<=2 (3 on charged legs), MPO bond dimension <=4, more complex-pattern / marker-position / form combinations',
}
OUTSIDE = ('apply_zipup / VariationalApplyMPO accuracy, expectation_value_TM/_power (iterative), make_U_I/II order claims, infinite MPOs; '
           'is_hermitian/is_equal on concrete MPOs (plain evaluation); dtype of freshly allocated containers; '
           'to_TermList only for term-list MPOs with strengths bounded away from its cutoff')
STUBS = ['BLAS contract stub', 'numpy facade for tenpy.networks.mpo / mps / terms / site / models.model (dtype widening, abs/real/conj routing)',
         'np.abs results compare to boolean masks by forking (to_TermList cutoff test)']
ASSUMPTIONS = [
    'floats are reals', 'Schmidt values are positive', 'finite MPS store S[0] = S[L] = [1.]',
    'MPO.__add__, to_TermList, prefactor, plus_identity: operands are in the documented sum form (W[IdL,IdL] = W[IdR,IdR] = Id, '
    'no other entry in column IdL / row IdR)', 'to_TermList: |strength| > 1e-3 (documented cutoff 1e-12 drops smaller terms)'
]


def setup_symbolic(case):
    from symx import stubs
    import tenpy.networks.mpo as m1
    import tenpy.networks.mps as m2
    import tenpy.networks.terms as m3
    import tenpy.networks.site as m4
    import tenpy.models.model as m5
    stubs.install_blas()
    stubs.facade_for(m2, m3, m4, m5)
    stubs.facade_for(m1, overrides={'abs': _abs_mask(stubs)})


def _abs_mask(stubs):
    """np.abs whose result, when compared with a threshold, yields a *boolean* mask (each comparison forks):
    `op_W[np.abs(op_W) < cutoff] = 0.` in to_TermList indexes with the comparison result"""
    fac = stubs.NumpyFacade()

    class _Cmp(np.ndarray):

        def _mask(self, o, op):
            a = np.asarray(self)
            out = np.empty(a.shape, dtype=bool)
            for idx in np.ndindex(*a.shape):
                out[idx] = bool(op(a[idx], o))
            return out

        def __lt__(self, o):
            return self._mask(o, lambda x, y: x < y)

        def __le__(self, o):
            return self._mask(o, lambda x, y: x <= y)

        def __gt__(self, o):
            return self._mask(o, lambda x, y: x > y)

        def __ge__(self, o):
            return self._mask(o, lambda x, y: x >= y)

    def _abs(x):
        r = fac.abs(x)
        if isinstance(r, np.ndarray) and r.dtype == object:
            return r.view(_Cmp)
        return r

    return _abs


# ---------------------------------------------------------------------------------------------
def _sites(kind, conserve, L):
    return [F.make_site(kind, conserve)] * L


def _nd(a, labels):
    """dense array of an npc.Array with the axes ordered by `labels`"""
    return a.to_ndarray().transpose([a.get_leg_index(l) for l in labels])


def _scalar(x):
    x = np.asarray(x)
    return x.reshape(-1)[0] if x.size == 1 else x


_VSPEC = {
    # virtual charges of a U(1) (particle number / 2*Sz-like) symmetric MPS; physical charges come from the site
    ('fermion', 'N', 2): [[0], [0, 1], [1]],
    ('fermion', 'N', 3): [[0], [0, 1], [1, 2], [2]],
    ('fermion', 'N', 4): [[0], [0, 1], [1, 1, 2], [2, 3], [3]],
    ('fermion', 'parity', 3): [[0], [0, 1], [0, 1], [1]],
}


def _vspec(kind, conserve, L, chi):
    if conserve in (None, 'None'):
        return [1] + [chi] * (L - 1) + [1]
    return _VSPEC[(kind, conserve, L)]


def _model_mpo(kind, conserve, L):
    """a concretely built MPO (legs with charges, markers) used as the shape template of symbolic-W MPOs"""
    from tenpy.networks.terms import TermList
    from tenpy.networks.mpo import MPOGraph
    sites = _sites(kind, conserve, L)
    if kind == 'fermion':
        terms = [[('Cd', i), ('C', i + 1)] for i in range(L - 1)] + [[('Cd', i + 1), ('C', i)] for i in range(L - 1)]
        terms += [[('N', i)] for i in range(L)] + [[('N', 0), ('N', L - 1)]]
        if L > 2:
            terms += [[('Cd', 0), ('C', 2)]]
    else:
        terms = [[('Sp', i), ('Sm', i + 1)] for i in range(L - 1)] + [[('Sm', i), ('Sp', i + 1)] for i in range(L - 1)]
        terms += [[('Sz', i)] for i in range(L)] + [[('Sz', 0), ('Sz', L - 1)]]
    tl = TermList(terms, [1.] * len(terms))
    return sites, MPOGraph.from_term_list(tl, sites, 'finite').build_MPO()


def _mpo(ctx, name, kind, conserve, L, D, markers, cplx, swap=False):
    """symbolic-W MPO: trivial charges -> bond dimensions (2, D.., 2); with charges -> legs of a model MPO"""
    if conserve in (None, 'None'):
        sites = _sites(kind, None, L)
        IdL, IdR = ([1] * (L + 1), [0] * (L + 1)) if swap else (None, None)
        return sites, F.sym_mpo(ctx, name, sites, [2] + [D] * (L - 1) + [2], markers=markers, cplx=cplx, IdL=IdL, IdR=IdR)
    sites, H0 = _model_mpo(kind, conserve, L)
    return sites, F.sym_mpo(ctx, name, sites, like=H0, markers=markers, cplx=cplx)


# ---------------------------------------------------------------------------------------------
# <bra|H|ket>: MPOEnvironment
def _own_LP(bra, Hm, ket, upto):
    """own contraction of the left environment up to (excluding) site `upto`: axes (vR*, wR, vR); A-form tensors"""
    nW = Hm.W[0].shape[0]
    LP = np.zeros((1, nW, 1), dtype=Hm.W[0].dtype)
    LP[0, F._norm_idx(Hm.IdL[0], nW), 0] = 1.
    for i in range(upto):
        Ab = F.conj_obj(bra.gamma_form(i, 1., 0.))
        Ak = ket.gamma_form(i, 1., 0.)
        t = np.tensordot(LP, Ak, axes=[[2], [0]])  # x w s' b
        t = np.tensordot(t, Hm.W[i], axes=[[1, 2], [0, 3]])  # x b v s
        t = np.tensordot(Ab, t, axes=[[0, 1], [0, 3]])  # a b v
        LP = t.transpose(0, 2, 1)
    return LP


def _own_RP(bra, Hm, ket, downto):
    """own right environment strictly right of site `downto`: axes (vL*, wL, vL); B-form tensors"""
    L = len(Hm.W)
    nW = Hm.W[-1].shape[1]
    RP = np.zeros((1, nW, 1), dtype=Hm.W[0].dtype)
    RP[0, F._norm_idx(Hm.IdR[-1], nW), 0] = 1.
    for i in range(L - 1, downto, -1):
        Bb = F.conj_obj(bra.gamma_form(i, 0., 1.))
        Bk = ket.gamma_form(i, 0., 1.)
        t = np.tensordot(Bk, RP, axes=[[2], [2]])  # a s' x w
        t = np.tensordot(t, Hm.W[i], axes=[[3, 1], [1, 3]])  # a x v s
        t = np.tensordot(t, Bb, axes=[[1, 3], [2, 1]])  # a v a*
        RP = t.transpose(2, 1, 0)
    return RP


def env_case(ctx, kind='spin', conserve=None, L=3, chi=2, D=3, markers=False, cb=False, ck=False, cw=False, forms_b='B',
             forms_k='B', swap=False, plus_hc=False, check_env=True):
    """MPOEnvironment(bra, H, ket): full_contraction at every site and the LP / RP recursion against the dense <bra|H|ket>"""
    from tenpy.networks.mpo import MPOEnvironment
    sites, Hm = _mpo(ctx, 'w', kind, conserve, L, D, markers, cw, swap)
    vs = _vspec(kind, conserve, L, chi)
    sq = any(f in ('C', ) for f in (list(forms_b) + list(forms_k)))
    bra = F.sym_mps(ctx, 'b', sites, vs, cplx=cb, forms=forms_b, sqrtS=sq)
    ket = F.sym_mps(ctx, 'k', sites, vs, cplx=ck, forms=forms_k, sqrtS=sq)
    ctx.note('W_entries', int(sum(np.size(w) for w in Hm.W)))
    Hm.H.explicit_plus_hc = bool(plus_hc)
    O = Hm.dense()
    ref = F.sandwich(bra.dense(), O, ket.dense())
    if plus_hc:
        ref = ref + ref.conjugate()
    env = MPOEnvironment(bra.psi, Hm.H, ket.psi)
    for i0 in range(L):
        ctx.prove_eq(env.full_contraction(i0), ref, f'full_contraction({i0}) == dense <bra|H|ket>')
    if check_env:
        for i in range(1, L):
            ctx.prove_eq(_nd(env.get_LP(i), ['vR*', 'wR', 'vR']), _own_LP(bra, Hm, ket, i), f'get_LP({i}) == dense left part')
        for i in range(L - 1):
            ctx.prove_eq(_nd(env.get_RP(i), ['vL*', 'wL', 'vL']), _own_RP(bra, Hm, ket, i), f'get_RP({i}) == dense right part')
        # a fresh environment, recursion driven from the other end first (cache / age bookkeeping)
        env2 = MPOEnvironment(bra.psi, Hm.H, ket.psi)
        env2.get_RP(0)
        ctx.prove_eq(env2.full_contraction(L - 1), ref, 'full_contraction after get_RP(0) (cached parts)')
        ctx.prove(env2.get_RP_age(0) == L - 1 and env.get_LP_age(L - 1) == L - 1, 'ages of the environments')
    if markers:
        for i in range(1, L):
            lp = _nd(env.init_LP(i), ['vR*', 'wR', 'vR'])
            n = lp.shape[0]
            want = np.zeros(lp.shape)
            want[:, F._norm_idx(Hm.IdL[i], lp.shape[1]), :] = np.eye(n)
            ctx.prove_eq(lp, want, 'init_LP(i) = identity on the IdL index')


def expval_case(ctx, kind='spin', conserve=None, L=3, chi=2, D=2, markers=False, cp=True, cw=False, forms='B', plus_hc=False):
    """expectation_value(_finite): the value is the window contraction <psi|H|psi> (norm attribute ignored, psi need not be
    canonical: both sides contract the same tensors)"""
    sites, Hm = _mpo(ctx, 'w', kind, conserve, L, D, markers, cw)
    psi = F.sym_mps(ctx, 'k', sites, _vspec(kind, conserve, L, chi), cplx=cp, forms=forms, sqrtS=('C' in list(forms)))
    Hm.H.explicit_plus_hc = bool(plus_hc)
    v = psi.dense()
    ref = F.sandwich(v, Hm.dense(), v)
    if plus_hc:
        ref = ref + ref.conjugate()
    ctx.prove_eq(_scalar(Hm.H.expectation_value_finite(psi.psi)), ref, 'expectation_value_finite == dense <psi|H|psi>')
    ctx.prove_eq(_scalar(Hm.H.expectation_value(psi.psi)), ref, 'expectation_value == dense <psi|H|psi>')


def variance_case(ctx, kind='spin', conserve=None, L=2, chi=2, D=2, markers=False, cp=True, cw=False, forms='B'):
    sites, Hm = _mpo(ctx, 'w', kind, conserve, L, D, markers, cw)
    psi = F.sym_mps(ctx, 'k', sites, _vspec(kind, conserve, L, chi), cplx=cp, forms=forms)
    v = psi.dense()
    O = Hm.dense()
    e = F.sandwich(v, O, v)
    e2 = F.sandwich(v, np.dot(O, O), v)
    ctx.prove_eq(_scalar(Hm.H.variance(psi.psi)), e2 - e * e, 'variance == <H^2> - <H>^2 (dense, norm ignored)')
    ctx.prove_eq(_scalar(Hm.H.variance(psi.psi, exp_val=0.)), e2, 'variance(exp_val=0) == <H^2>')


# ---------------------------------------------------------------------------------------------
# pure MPO algebra (polynomials in the W entries only)
def _unchanged(ctx, Hm, what):
    for i in range(Hm.H.L):
        ctx.prove_eq(_nd(Hm.H.get_W(i), ['wL', 'wR', 'p', 'p*']), Hm.W[i], f'{what}: operand W[{i}] unchanged')


def _sum_form_ok(ctx, H, what):
    """the result of an operation that promises the sum form has its markers where it says"""
    L = H.L
    for i in range(L):
        W = _nd(H.get_W(i), ['wL', 'wR', 'p', 'p*'])
        d = W.shape[2]
        a, b = H.get_IdL(i), H.get_IdL(i + 1) if i + 1 < L else H.IdL[L]
        if a is not None and b is not None:
            ctx.prove_eq(W[a, b], np.eye(d), f'{what}: W[IdL,IdL] == Id')
        a, b = H.IdR[i], H.get_IdR(i)
        if a is not None and b is not None:
            ctx.prove_eq(W[a, b], np.eye(d), f'{what}: W[IdR,IdR] == Id')


def add_case(ctx, kind='spin', conserve=None, L=3, DA=3, DB=2, cplx=True, swapA=False, swapB=False, plus_hc=False):
    sites, A = _mpo(ctx, 'a', kind, conserve, L, DA, True, cplx, swapA)
    _, B = _mpo(ctx, 'b', kind, conserve, L, DB, True, cplx, swapB)
    A.H.explicit_plus_hc = B.H.explicit_plus_hc = bool(plus_hc)
    C = A.H + B.H
    C.test_sanity()
    dA, dB = A.dense(), B.dense()
    ctx.prove_eq(F.mpo_dense_of(C), dA + dB, 'dense(A + B) == dense(A) + dense(B)')
    ctx.prove(C.explicit_plus_hc == bool(plus_hc), 'A + B keeps explicit_plus_hc')
    ctx.prove(all(x is not None for x in C.IdL) and all(x is not None for x in C.IdR), 'A + B has IdL / IdR on every bond')
    _sum_form_ok(ctx, C, 'A + B')
    _unchanged(ctx, A, 'A + B')
    _unchanged(ctx, B, 'A + B')
    E = C + A.H  # closure: the sum is again a valid operand
    ctx.prove_eq(F.mpo_dense_of(E), dA + dB + dA, 'dense((A + B) + A) == 2 dense(A) + dense(B)')
    E2 = B.H + A.H
    ctx.prove_eq(F.mpo_dense_of(E2), dA + dB, 'dense(B + A) == dense(A) + dense(B)')
    B.H.explicit_plus_hc = not plus_hc
    try:
        A.H + B.H
        ctx.fail('A + B with different explicit_plus_hc flags must raise')
    except ValueError:
        ctx.prove(True, 'A + B with different explicit_plus_hc flags raises ValueError')


def dagger_case(ctx, kind='spin', conserve=None, L=3, D=3, markers=True, cplx=True, swap=False):
    sites, A = _mpo(ctx, 'a', kind, conserve, L, D, markers, cplx, swap)
    dA = A.dense()
    Ad = A.H.dagger()
    Ad.test_sanity()
    ctx.prove_eq(F.mpo_dense_of(Ad), F.conj_obj(dA).T, 'dense(A.dagger()) == dense(A)^dagger')
    ctx.prove(Ad.IdL == A.H.IdL and Ad.IdR == A.H.IdR, 'dagger keeps the markers')
    _unchanged(ctx, A, 'dagger')
    Add = Ad.dagger()
    ctx.prove_eq(F.mpo_dense_of(Add), dA, 'dense(A.dagger().dagger()) == dense(A)')
    for i in range(L):
        try:
            Add.get_W(i).get_leg('wL').test_equal(A.H.get_W(i).get_leg('wL'))
            Add.get_W(i).get_leg('wR').test_equal(A.H.get_W(i).get_leg('wR'))
        except ValueError as e:
            ctx.fail('double dagger restores the virtual legs', str(e)[:100])
    # with explicit_plus_hc the represented operator W + W^dagger is Hermitian: dagger() is a copy
    A.H.explicit_plus_hc = True
    Ah = A.H.dagger()
    ctx.prove_eq(F.mpo_dense_of(Ah), dA, 'dagger with explicit_plus_hc keeps W')
    ctx.prove(Ah.explicit_plus_hc is True and A.H.is_hermitian() is True, 'explicit_plus_hc: flag kept, is_hermitian() True')


def overlap_case(ctx, kind='spin', conserve=None, L=2, DA=3, DB=2, markers=True, cplx=True, hcA=False, hcB=False, distance=False):
    """overlap == Frobenius product Tr(A^dagger B) of the represented operators; distance / is_equal decide with exactly that"""
    sites, A = _mpo(ctx, 'a', kind, conserve, L, DA, markers, cplx)
    _, B = _mpo(ctx, 'b', kind, conserve, L, DB, markers, cplx, swap=markers)
    A.H.explicit_plus_hc, B.H.explicit_plus_hc = bool(hcA), bool(hcB)
    dA, dB = A.dense(), B.dense()
    if hcA:
        dA = dA + F.conj_obj(dA).T
    if hcB:
        dB = dB + F.conj_obj(dB).T
    fro = lambda X, Y: np.sum(F.conj_obj(X) * Y)
    ctx.prove_eq(_scalar(A.H.overlap(B.H)), fro(dA, dB), 'overlap(A, B) == Tr(A^dagger B)')
    ctx.prove_eq(_scalar(B.H.overlap(A.H)), fro(dB, dA), 'overlap(B, A) == Tr(B^dagger A)')
    ctx.prove_eq(_scalar(A.H.overlap(A.H)), fro(dA, dA), 'overlap(A, A) == |A|_F^2')
    if distance:
        dd = fro(dA - dB, dA - dB)
        nn = fro(dA, dA) + fro(dB, dB)
        try:
            dist = A.H.distance(B.H)
            ctx.prove_eq(_scalar(dist), abs(dd.real) if ctx.symbolic else abs(dd), 'distance(A, B) == |A - B|_F^2')
        except RuntimeError:
            # raised iff the computed squared distance is negative beyond rounding: never for exact arithmetic; the
            # engine may not be able to refute the branch (positivity of an expanded sum of squares), then the
            # obligation below is the literal branch condition
            ctx.prove(dd.real < -1.e-14 * nn.real, 'distance raises only for a negative squared distance')
        eq = A.H.is_equal(B.H, eps=0.25)
        want = abs(dd.real) < 0.25 * abs(nn.real)
        ctx.prove(want if eq else ctx.Not(want), 'is_equal(A, B, eps) <=> |A-B|^2 < eps (|A|^2 + |B|^2)')

def _own_prefactor(Hm, sites, i, ops):
    """coefficient of the operator string `ops` starting on site i: paths IdL -> (neither IdL nor IdR) -> IdR, each W entry
    projected on the operator by the trace inner product (own operator tables)"""
    vec = None
    for k, name in enumerate(ops):
        j = i + k
        op = F.own_ops(sites[j])[0][name]
        W = Hm.W[j]
        M = np.tensordot(W, np.conj(op), axes=[[2, 3], [0, 1]]) / np.sum(np.abs(op)**2)  # (wL, wR)
        if vec is None:
            vec = M[F._norm_idx(Hm.IdL[j], M.shape[0])]
        else:
            keep = np.ones(len(vec))
            keep[F._norm_idx(Hm.IdL[j], len(vec))] = 0.
            keep[F._norm_idx(Hm.IdR[j], len(vec))] = 0.
            vec = np.dot(vec * keep, M)
    return vec[F._norm_idx(Hm.IdR[i + len(ops)], len(vec))]


def prefactor_case(ctx, kind='spin', conserve=None, L=3, D=3, cplx=True, swap=False):
    sites, A = _mpo(ctx, 'a', kind, conserve, L, D, True, cplx, swap)
    names = ['Sz', 'Sp', 'Sm', 'Id'] if kind == 'spin' else ['N', 'C', 'Cd', 'Id']
    n = 0
    for i in range(L):
        for ln in range(1, L - i + 1):
            for ops in itertools.product(names, repeat=ln):
                if n % 7 and ln > 1:  # every string of length 1, a fixed subset of the longer ones
                    n += 1
                    continue
                n += 1
                try:
                    got = A.H.prefactor(i, list(ops))
                except ValueError as e:
                    if 'charge' in str(e).lower() or 'incompatible' in str(e).lower() or 'contractible' in str(e).lower():
                        continue  # operator string not compatible with the conserved charge of the MPO
                    raise
                ctx.prove_eq(_scalar(got), _own_prefactor(A, sites, i, ops), 'prefactor(i, ops) == projected path sum')
                ctx.note('prefactor_strings')
    _unchanged(ctx, A, 'prefactor')


def plus_identity_case(ctx, kind='spin', conserve=None, L=3, D=3, cplx=True, swap=False, where=(0, ), cplx_ab=True):
    sites, A = _mpo(ctx, 'a', kind, conserve, L, D, True, cplx, swap)
    N = len(where)
    alpha = ctx.num('alpha', cplx_ab)
    # beta ** (1/N): for N > 1 the documented real positive beta (a root of a symbolic complex number is outside the engine)
    beta = ctx.num('beta', cplx_ab) if N == 1 else ctx.real('beta', pos=True)
    dA = A.dense()
    R = A.H.plus_identity(alpha, beta, sites=list(where))
    R.test_sanity()
    ctx.prove_eq(F.mpo_dense_of(R), alpha * np.eye(dA.shape[0]) + beta * dA, 'dense(plus_identity(alpha, beta)) == alpha 1 + beta dense(A)')
    ctx.prove_eq(F.mpo_dense_of(A.H), dA, 'plus_identity: operand represents the same operator afterwards')


def _dense_of_mps(psi):
    """state denoted by a tenpy MPS object (finite): S_0 G_0 S_1 ... S_L read from its stored tensors, forms and S"""
    L = psi.L
    cur = None
    for i in range(L):
        t = _nd(psi._B[i], ['vL', 'p', 'vR'])
        fL, fR = psi.form[i]
        t = t * F._pw(np.asarray(psi._S[i]), 1. - fL)[:, None, None]
        t = t * F._pw(np.asarray(psi._S[i + 1]), -fR)[None, None, :]
        cur = t[0] if cur is None else np.tensordot(cur, t, axes=[[-1], [0]])
    cur = cur * np.asarray(psi._S[L])
    return cur[..., 0]


def apply_naively_case(ctx, kind='spin', conserve=None, L=3, chi=2, D=2, markers=False, cp=True, cw=True, forms='B', swap=False):
    """apply_naively: the new tensors denote dense(H) . dense(psi) exactly (before any compression)"""
    sites, Hm = _mpo(ctx, 'w', kind, conserve, L, D, markers, cw, swap)
    psi = F.sym_mps(ctx, 'k', sites, _vspec(kind, conserve, L, chi), cplx=cp, forms=forms)
    v = psi.dense()
    O = Hm.dense()
    want = np.dot(O, v.reshape(-1)).reshape(v.shape)
    p = psi.psi
    norm0 = p.norm
    Hm.H.apply_naively(p)
    p.test_sanity()
    ctx.prove_eq(_dense_of_mps(p), want, 'apply_naively: new MPS == dense(H) . dense(psi)')
    ctx.prove(p.norm == norm0, 'apply_naively keeps psi.norm')
    ctx.prove([int(c) for c in p.chi] == [int(a) * int(b) for a, b in zip(Hm.H.chi[1:-1], psi.T[0].shape[2:3] + tuple(t.shape[2] for t in psi.T[1:-1]))],
              'apply_naively: new bond dimensions are the products')
    _unchanged(ctx, Hm, 'apply_naively')
    Hm.H.explicit_plus_hc = True
    try:
        Hm.H.apply_naively(p)
        ctx.fail('apply_naively with explicit_plus_hc must raise')
    except NotImplementedError:
        ctx.prove(True, 'apply_naively with explicit_plus_hc raises NotImplementedError')


def CASES(tier, seed):
    cases = []
    O = dict(max_paths=2000, max_wall_s=200, validate_paths=1, hard_timeout_s=230)

    def add(fn, name, **params):
        cases.append(dict(name=name, fn=fn, params=params, opts=dict(O)))

    # <bra|H|ket>
    add('env_case', 'env[spin,L=2,all complex,markers]', L=2, D=3, markers=True, cb=True, ck=True, cw=True)
    add('env_case', 'env[spin,L=2,all complex,no markers,forms A/B]', L=2, D=3, markers=False, cb=True, ck=True, cw=True,
        forms_b=['A', 'B'], forms_k=['B', 'A'])
    add('env_case', 'env[spin,L=3,complex site 1,no markers]', L=3, D=3, markers=False, cb=[0, 1, 0], ck=[0, 1, 0], cw=[0, 1, 0])
    add('env_case', 'env[spin,L=3,complex bra0 ket2 W0,markers swapped]', L=3, D=3, markers=True, cb=[1, 0, 0], ck=[0, 0, 1],
        cw=[1, 0, 0], swap=True)
    add('env_case', 'env[spin,L=3,complex bra2 ket0 W2,forms Th/C,plus_hc]', L=3, D=2, markers=True, cb=[0, 0, 1], ck=[1, 0, 0],
        cw=[0, 0, 1], forms_b=['A', 'Th', 'B'], forms_k=['C', 'B', 'A'], plus_hc=True)
    add('env_case', 'env[fermion N,L=3,all complex]', kind='fermion', conserve='N', L=3, markers=True, cb=True, ck=True, cw=True)
    add('expval_case', 'expval[spin,L=2,complex]', L=2, D=3, markers=True, cp=True, cw=True)
    add('expval_case', 'expval[spin,L=3,psi complex site 1,forms]', L=3, D=2, markers=False, cp=[0, 1, 0], cw=False,
        forms=['A', 'B', 'B'])
    add('expval_case', 'expval[fermion N,L=3,complex,plus_hc]', kind='fermion', conserve='N', L=3, markers=True, cp=True, cw=True,
        plus_hc=True)
    add('variance_case', 'variance[spin,L=2,psi complex]', L=2, D=2, cp=True, cw=False)
    add('variance_case', 'variance[fermion N,L=3,complex]', kind='fermion', conserve='N', L=3, markers=True, cp=True, cw=True)
    # MPO algebra
    add('add_case', 'add[spin,L=3,complex]', L=3, DA=3, DB=2)
    add('add_case', 'add[spin,L=2,markers swapped,plus_hc]', L=2, DA=2, DB=3, swapA=True, plus_hc=True)
    add('add_case', 'add[fermion N,L=3,complex]', kind='fermion', conserve='N', L=3)
    add('dagger_case', 'dagger[spin,L=3,markers]', L=3, D=3, markers=True)
    add('dagger_case', 'dagger[spin,L=3,no markers]', L=3, D=3, markers=False)
    add('dagger_case', 'dagger[fermion N,L=3]', kind='fermion', conserve='N', L=3)
    for hcA, hcB in itertools.product([False, True], repeat=2):
        add('overlap_case', f'overlap[spin,L=2,hcA={hcA},hcB={hcB}]', L=2, hcA=hcA, hcB=hcB)
    add('overlap_case', 'overlap[spin,L=3,no markers]', L=3, markers=False)
    add('overlap_case', 'overlap[fermion N,L=3]', kind='fermion', conserve='N', L=3)
    add('overlap_case', 'distance[spin,L=2,real]', L=2, DA=2, DB=2, cplx=False, distance=True)
    add('prefactor_case', 'prefactor[spin,L=3]', L=3, D=3)
    add('prefactor_case', 'prefactor[fermion N,L=3]', kind='fermion', conserve='N', L=3)
    add('plus_identity_case', 'plus_identity[spin,L=3,sites=[0]]', L=3, D=3, where=[0])
    add('plus_identity_case', 'plus_identity[spin,L=3,sites=[1],swapped]', L=3, D=3, where=[1], swap=True)
    add('plus_identity_case', 'plus_identity[spin,L=3,sites=[0,1]]', L=3, D=2, where=[0, 1])
    add('plus_identity_case', 'plus_identity[fermion N,L=3,sites=[2]]', kind='fermion', conserve='N', L=3, where=[2])
    add('apply_naively_case', 'apply_naively[spin,L=3,no markers]', L=3, D=2)
    add('apply_naively_case', 'apply_naively[spin,L=2,markers swapped,forms]', L=2, D=3, markers=True, swap=True, forms=['A', 'B'])
    add('apply_naively_case', 'apply_naively[fermion N,L=3]', kind='fermion', conserve='N', L=3, markers=True)
    return cases
