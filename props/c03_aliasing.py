"""C03 Operations never corrupt their operands or shared charge data.

For every catalogue operation (catalogue/ops.py): fingerprint of all live objects before (dense form = the z3 terms,
qtotal, labels, identity of the legs; for every reachable LegCharge / LegPipe: slices, charges, qconj, flags, q_map ...),
compared afterwards: operands of non-in-place functions unchanged, in-place methods change only self, no LegCharge
mutated, a deep copy taken before stays unchanged.  Aliasing is made observable by writing through the result
(element assignment into stored and new blocks, slice assignment, iscale_prefactor, iscale_axis, itranspose, iswapaxes,
iconj, labels, iproject, +=) and re-comparing, for the operations documented to return independent data.
"""
import numpy as np

from catalogue import build as Bd
from catalogue import ops as C
from props import c01_algebra as P1

PROPERTY = 'C03'
LEVEL = 'model_checking'
BOUNDS = {
    'quick': 'same structures as C01 (Tier A rank<=2, 2 blocks per leg, mod 1,2,3; Tier B enumerated + drawn incl. size-0 blocks); '
             'one operation + up to 11 writes through the result; shared legs between operands (b built on a.legs / conj)',
    'thorough': 'all variants, rank 3 in Tier A, more Tier B structures',
}
OUTSIDE = ('copy(deep=False), unary/binary_blockwise, sort_legcharge, gauge_total_charge, add_trivial_leg, replace_label(s), as_completely_blocked, '
           'complex_conj, __neg__, concatenate(copy=False) are documented (or implemented via documented) shallow copies: only the operation itself is '
           'checked, not writes through their result; MPS/MPO level sharing; object identity of blocks in concrete float mode is covered by the replay of path models only')
STUBS = P1.STUBS
ASSUMPTIONS = P1.ASSUMPTIONS


def setup_symbolic(case):
    C.setup_symbolic(case['params']['struct']['tier'])


def alias_case(ctx, struct, ops, cplx=False, subset='all', prestate='sorted', write_groups=4):
    W = C.World(ctx, struct, cplx=cplx, subset=subset, prestate=prestate)
    name, v = ops[ctx.choice('op', len(ops))]
    tag = name if v == 'd' else f'{name}/{v}'
    sc = C.build_scenario(ctx, W, name, v)
    if sc is None:
        return
    operands = [o for o in sc.operands if C.is_array(o)]
    deep = None
    if sc.inplace and operands:
        deep = operands[0].copy(deep=True)  # must stay what it is while the source is modified in place
    watched = operands[1:] if sc.inplace else list(operands)
    if deep is not None:
        watched = watched + [deep]
    legs = C.collect_legs(operands + ([deep] if deep is not None else []), list(W.all_legs) + list(sc.extra_live))
    leg_snaps = [C.leg_snapshot(l) for l in legs]
    snaps = [C.array_snapshot(o) for o in watched]
    watched_idx = {id(o): k for k, o in enumerate(sc.operands)}

    def check(what):
        # an object found changed is reported once and then dropped (it stays changed)
        for k, s in enumerate(list(snaps)):
            who = 'deep copy taken before' if (deep is not None and s['obj'] is deep) else f'operand {watched_idx[id(s["obj"])]}'
            if not C.compare_array(ctx, s, f'{what}: {who}'):
                snaps.remove(s)
        for s in list(leg_snaps):
            if not C.compare_leg(ctx, s, what):
                leg_snaps.remove(s)

    ok, res = C.execute(ctx, sc, tag)
    if not ok:
        return
    ctx.note('ops_executed')
    check(tag)
    if sc.scalar:
        return
    R = sc.get(res)
    if not C.is_array(R):
        return
    if name == 'as_completely_blocked':
        R = res[1]
    writes = C.WRITES
    if sc.inplace:
        ctx.prove(R is sc.operands[0], f'{tag}: in-place method works on self')
    elif not sc.owns:
        # documented shallow copy: entries may be shared, so only the writes that never touch an existing block are applied;
        # they must leave every other tensor as it is (and valid)
        ctx.note('documented_shallow')
        writes = C.STRUCTURAL_WRITES
        if any(R is o for o in operands):
            return  # as_completely_blocked may return self
    else:
        ctx.prove(all(R is not o for o in operands), f'{tag}: returns a new object')
    C.write_through(ctx, W, R, tag, check, writes=writes, groups=write_groups)
    for k, o in enumerate(watched):
        C.check_invariants(ctx, o, f'{tag}, after the writes through the result: {"deep copy" if o is deep else "operand"} still valid', sanity=False)


def CASES(tier, seed):
    cases = []
    opsA = [(n, v) for n, s in C.OPS.items() if 'A' in s.tiers and n != 'norm' for v in P1._variants(s, tier)]
    opsB = [(n, v) for n, s in C.OPS.items() if 'B' in s.tiers and n != 'norm' for v in s.variants]
    OA = dict(max_paths=60000, max_wall_s=200 if tier == 'quick' else 1500, validate_paths=2, hard_timeout_s=230 if tier == 'quick' else 1700)
    for si, st in enumerate(P1.structs_A(tier)):
        first_pattern = st['legs'][0]['qconj'] == 1 and st['legs'][1]['qconj'] == -1
        if tier == 'quick' and not first_pattern:
            continue
        ops = [o for o in opsA if P1.COST_A.get(tuple(o), 1.5) < (P1.HEAVY if st['mods'][0] != 3 else 3) and tuple(o) != ('add_leg', 'back')]
        if tier == 'thorough':  # sized by CPU time: the quick variants below 30 s on the first pattern, core selection on the others
            from props.c02_invariants import CORE_OPS
            qv = [(n, v) for n, sp in C.OPS.items() if 'A' in sp.tiers and n != 'norm' for v in sp.quick]
            ops = [o for o in qv if P1.COST_A.get(tuple(o), 1.5) < 30] if first_pattern else [o for o in opsA if tuple(o) in CORE_OPS]
            if st['mods'][0] == 3 and not first_pattern:  # z3 answers unknown on the nested mod-3 charge rule of the pipe operand
                ops = [o for o in ops if o[0] != 'split_legs']
        for ci, chunk in enumerate(P1._balanced(ops, P1.COST_A, 4 if tier == 'quick' else 10)):  # small cases: the wall-time cap also holds on a loaded machine
            cases.append(dict(name=f"A[mod={st['mods']},qconj={[l['qconj'] for l in st['legs']]}]ops{ci}:{P1._opsname(chunk)}",
                              fn='alias_case', params=dict(struct=st, ops=chunk, cplx=(si % 4 == 0), subset='all',
                                                           prestate='sorted' if si % 4 else 'reversed',
                                                           write_groups=2 if (tier == 'quick' or not first_pattern) else 3), opts=OA))
    OB = dict(max_paths=40000, max_wall_s=200 if tier == 'quick' else 1500, validate_paths=3, hard_timeout_s=230 if tier == 'quick' else 1700)
    for si, st in enumerate(P1.structs_B(tier, seed)):
        if (tier == 'quick' and si not in (0, 1, 2, 4, 7, 8, 9)) or st['rank'] > 3 or (tier != 'quick' and (P1.dense_size(st) > 40 or si == 3)):
            continue  # rank 4 / large structures: C01 thorough only; B[3] (Z3, all charges equal): solver-dominated (25 min for 121 paths), see notes
        for ci, chunk in enumerate(P1._chunks(opsB, 14 if (tier == 'quick' or st['rank'] <= 3) else 8)):
            cases.append(dict(name=f"B[{si},mod={st['mods']},rank={st['rank']}]ops{ci}:{P1._opsname(chunk)}",
                              fn='alias_case', params=dict(struct=st, ops=chunk, cplx=(si % 2 == 1), subset='draw' if si % 3 else 'all',
                                                           prestate=['sorted', 'reversed'][si % 2], write_groups=3),
                              opts=OB))
    slow = float(__import__('os').environ.get('VERIF_SLOW', '1') or 1)  # development on a loaded machine only
    if slow != 1:
        for c in cases:
            c['opts'] = dict(c['opts'], max_wall_s=c['opts']['max_wall_s'] * slow, hard_timeout_s=c['opts']['hard_timeout_s'] * slow)
    # MPS- and MPO-level operands (tensors stored inside an MPS / MPO, legs shared between them): case families written
    # next to the C07-C09 / C11 factories; the case dict names the module its function and setup_symbolic live in
    from catalogue import mps_level_aliasing, mpo_level_aliasing
    for m in (mps_level_aliasing, mpo_level_aliasing):
        for c in m.CASES(tier, seed):
            c = dict(c)
            c['module'] = m.__name__
            cases.append(c)
    return cases
