"""C01 Block-sparse tensor algebra agrees with dense numpy algebra (labels propagated as documented).

Every operation of the shared catalogue (catalogue/ops.py) runs -- the real tenpy code -- on tensors
with symbolic entries; Tier A additionally has symbolic charges on every leg block and in qtotal.
Oracle: the same numpy operation on to_ndarray() of the operands (object arrays of the same symbols).
"""
import numpy as np

from catalogue import build as Bd
from catalogue import ops as C

PROPERTY = 'C01'
LEVEL = 'model_checking'
BOUNDS = {
    'quick': 'Tier A (symbolic charges+entries): rank<=2 operands, 2 blocks per leg, block sizes {1,2}, mod in {1,2,3}, both qconj, '
             'stored-block subsets symbolic for selected ops; Tier B (concrete charge structures, symbolic real/complex entries): '
             'enumerated tiny + seed-drawn structures, rank<=3, <=4 blocks per leg incl. size-0 blocks, duplicates, unsorted, '
             'missing blocks, nonzero qtotal, mods [],[1],[2],[3],[1,2],[5]; depth-2 programs over a reduced catalogue',
    'thorough': 'Tier A: third qconj pattern and all variants (except setitem/int_first_npc: Tier B only), symbolic stored-block subsets for mod 1,2,3; '
                'Tier B: 28 structures, rank<=4, primary operand <= 100 entries, all variants; all ordered pairs of the reduced catalogue on structures with <= 24 entries',
}
OUTSIDE = 'float32/complex64/int dtype promotion, float rounding; compiled kernels (C04); factorisations (C05)'
STUBS = ['BLAS contract stub (gemm/gemv/dotu/dotc on object arrays)', 'QTYPE=object (Tier A)', 'Array.conj hook for object dtype',
         'np.linalg.norm routed to sqrt-variable (norm, ipurge_zeros)']
ASSUMPTIONS = ['floats are reals / complex numbers', 'charges are mathematical integers; Z_N charges of inputs lie in [0,N)']


def setup_symbolic(case):
    C.setup_symbolic(case['params']['struct']['tier'])


def run_one(ctx, W, name, v, tag=None):
    tag = tag or (name if v == 'd' else f'{name}/{v}')
    sc = C.build_scenario(ctx, W, name, v)
    if sc is None:
        return None, None
    before = [np.array(C.dense(o)) for o in sc.operands]
    ok, res = C.execute(ctx, sc, tag)
    if not ok:
        return sc, None
    ctx.note('ops_executed')
    R = C.check_result(ctx, sc, res, before, tag, W)
    return sc, R


def op_case(ctx, struct, ops, cplx=False, subset='all'):
    W = C.World(ctx, struct, cplx=cplx, subset=subset)
    name, v = ops[ctx.choice('op', len(ops))]
    run_one(ctx, W, name, v)


def pair_case(ctx, struct, ops1, ops2, cplx=False, subset='all'):
    """depth-2 programs: op2 applied to the result of op1"""
    W = C.World(ctx, struct, cplx=cplx, subset=subset)
    name, v = ops1[ctx.choice('op1', len(ops1))]
    sc, R = run_one(ctx, W, name, v, tag=f'1:{name}/{v}')
    if R is None:
        return
    W2 = C.World(ctx, struct, cplx=cplx, subset=subset, ns='y')
    W2.injected = R
    name2, v2 = ops2[ctx.choice('op2', len(ops2))]
    run_one(ctx, W2, name2, v2, tag=f'2:{name2}/{v2} after {name}')


# ------------------------------------------------------------------------------------------------
def structs_A(tier):
    out = []
    pats = [(1, -1, 1), (-1, -1, 1)] if tier == 'quick' else [(1, -1, 1), (-1, -1, 1), (1, 1, -1)]
    for mods in ([1], [2], [3]):
        for qc in pats:
            out.append(dict(tier='A', mods=mods, rank=2, legs=[dict(sizes=[1, 2], qconj=qc[0]), dict(sizes=[2, 1], qconj=qc[1]),
                                                               dict(sizes=[1, 1], qconj=qc[2])]))
    return out


def structs_B(tier, seed):
    import random
    out = []
    # enumerated tiny structures
    for mods, q in (([], None), ([1], [[-1], [1]]), ([2], [[1], [0]]), ([3], [[2], [2]])):
        legs = []
        for k, (sz, qc) in enumerate((([1, 2], 1), ([2, 1], -1), ([1, 1], 1))):
            legs.append(dict(sizes=sz if mods else [sum(sz)], qconj=qc, charges=(q if mods else [[]])))
        out.append(dict(tier='B', mods=mods, rank=2, legs=legs, seed=seed))
    rng = random.Random(f'C01:{seed}')
    modsets = [[1], [2], [3], [1, 2], [5], [1, 1], [2, 3]]
    n = 6 if tier == 'quick' else 24
    for k in range(n):
        mods = modsets[k % len(modsets)]
        legs = []
        for _ in range(3):
            nb = rng.randint(1, 4)
            sizes = [rng.choice([0, 1, 1, 2, 2, 3]) for _ in range(nb)]
            if sum(sizes) == 0:
                sizes[rng.randrange(nb)] = 2
            base = [[rng.randint(-2, 2) if m == 1 else rng.randrange(m) for m in mods] for _ in range(max(1, nb - 1))]
            charges = [rng.choice(base) for _ in range(nb)]  # duplicates and unsorted on purpose
            legs.append(dict(sizes=sizes, qconj=rng.choice([1, -1]), charges=charges))
        out.append(dict(tier='B', mods=mods, rank=rng.choice([1, 2, 2, 3, 3] + ([4] if tier == 'thorough' else [])), legs=legs,
                        seed=seed * 1000 + k, store_empty=(k % 3 == 0)))
    return out


def dense_size(st):
    """number of entries of the primary operand of a structure"""
    n = [sum(l['sizes']) for l in st['legs']]
    out = 1
    for k in range(st['rank']):
        out *= n[k % len(n)]
    return out


def _variants(spec, tier):
    return spec.quick if tier == 'quick' else spec.variants


# measured single-core seconds per (op, variant) on a Tier A U(1) structure (only used to balance the cases)
COST_A = {('getitem', 'ints'): 18, ('setitem', 'ints'): 13, ('setitem', 'mask_flat'): 26, ('setitem', 'slice_npc'): 20,
          ('grid_concat', 'none_entry'): 35, ('grid_concat', 'full'): 60, ('change_charge', 'to_Z2'): 16, ('change_charge', 'to_Z3'): 16,
          ('split_legs', 'first'): 17, ('tensordot', 'int1'): 10, ('tensordot', 'labels'): 7, ('add_leg', 'back'): 7,
          ('concatenate', 'axis0'): 7, ('permute', 'first'): 6, ('split_legs', 'unsorted'): 6, ('getitem', 'int_first'): 4,
          ('getitem', 'mixed'): 4, ('getitem', 'mask'): 4, ('iproject', 'mask'): 4, ('iproject', 'two'): 4}
HEAVY = 12


def _balanced(ops, cost, target):
    chunks, cur, tot = [], [], 0
    for o in sorted(ops, key=lambda o: -cost.get(tuple(o), 1.5)):
        c = cost.get(tuple(o), 1.5)
        if cur and tot + c > target:
            chunks.append(cur)
            cur, tot = [], 0
        cur.append(o)
        tot += c
    if cur:
        chunks.append(cur)
    return chunks


def _chunks(lst, n):
    return [lst[i:i + n] for i in range(0, len(lst), n)]


def _opsname(chunk):
    names = sorted({n for n, _ in chunk})
    return '+'.join(names) if len(names) <= 4 else '+'.join(names[:3]) + f'+{len(names) - 3}more'


SUBSET_OPS = [('add', 'same'), ('sub', 'permuted'), ('binary_blockwise', 'subtract'), ('binary_blockwise', 'args'), ('ibinary_blockwise', 'd'),
              ('iadd_prefactor_other', 'same'), ('tensordot', 'int1'), ('inner', 'range'), ('outer', 'd'), ('concatenate', 'axis0'),
              ('combine_legs', 'all'), ('split_legs', 'unsorted'), ('trace', 'rank3_labels'), ('setitem', 'slice_npc')]
PAIR_FIRST = [('transpose', 'perm'), ('conj', 'd'), ('combine_legs', 'all'), ('take_slice', 'one'), ('iproject', 'mask'), ('add_trivial_leg', 'front'),
              ('scale_axis', 'first'), ('permute', 'first'), ('sort_legcharge', 'default'), ('gauge_total_charge', 'new'), ('concatenate', 'axis0'),
              ('itranspose', 'perm'), ('extend', 'leg'), ('add', 'same'), ('getitem', 'negstep'), ('tensordot', 'int1')]
PAIR_SECOND = [('tensordot', 'int1'), ('tensordot', 'full'), ('add', 'same'), ('transpose', 'none'), ('conj', 'd'), ('combine_legs', 'all'),
               ('inner', 'range'), ('getitem', 'negstep'), ('iscale_prefactor', 'd'), ('sort_legcharge', 'default'), ('norm', 'two'),
               ('take_slice', 'one'), ('iproject', 'mask'), ('outer', 'd'), ('concatenate', 'axis0'), ('setitem', 'slice_npc')]
PAIR_FIRST_A = [('transpose', 'perm'), ('conj', 'd'), ('combine_legs', 'all'), ('sort_legcharge', 'default'), ('gauge_total_charge', 'new')]
PAIR_SECOND_A = [('tensordot', 'int1'), ('add', 'same'), ('combine_legs', 'all'), ('sort_legcharge', 'default'), ('inner', 'range')]


def CASES(tier, seed):
    cases = []
    opsA = [(n, v) for n, s in C.OPS.items() if 'A' in s.tiers and 'C01' in s.props for v in _variants(s, tier) if (n, v) not in C.TIER_A_EXCLUDED]
    opsB = [(n, v) for n, s in C.OPS.items() if 'B' in s.tiers and 'C01' in s.props for v in s.variants]
    OA = dict(max_paths=60000, max_wall_s=200 if tier == 'quick' else 1500, validate_paths=2, hard_timeout_s=230 if tier == 'quick' else 1700)
    for si, st in enumerate(structs_A(tier)):
        first_pattern = st['legs'][0]['qconj'] == 1 and st['legs'][1]['qconj'] == -1
        ops = opsA if (first_pattern or tier == 'thorough') else [o for o in opsA if COST_A.get(tuple(o), 1.5) < HEAVY]
        for ci, chunk in enumerate(_balanced(ops, COST_A, 14)):
            cases.append(dict(name=f"A[mod={st['mods']},qconj={[l['qconj'] for l in st['legs']]}]ops{ci}:{_opsname(chunk)}",
                              fn='op_case', params=dict(struct=st, ops=chunk, cplx=(si % 2 == 0), subset='all'), opts=OA))
    OB = dict(max_paths=5000, max_wall_s=200, validate_paths=2, hard_timeout_s=230) if tier == 'quick' else dict(
        max_paths=300000, max_wall_s=1500, validate_paths=2, hard_timeout_s=1700)
    for si, st in enumerate(structs_B(tier, seed)):
        if dense_size(st) > 100:
            continue  # bound: primary operand with at most 100 entries (larger drawn structures hit the per-case time cap)
        for ci, chunk in enumerate(_chunks(opsB, 40 if tier == 'quick' else (8 if st['rank'] > 3 else 14))):
            cases.append(dict(name=f"B[{si},mod={st['mods']},rank={st['rank']}]ops{ci}:{_opsname(chunk)}",
                              fn='op_case', params=dict(struct=st, ops=chunk, cplx=(si % 2 == 1), subset='draw' if si % 3 else 'all'), opts=OB))
    # Tier A with a symbolic subset of stored blocks per operand (operands with different block sets)
    sA = structs_A(tier)
    for si in ([2] if tier == 'quick' else [0, 2, 4]):
        st = sA[si]
        for ci, chunk in enumerate(_chunks(SUBSET_OPS, 1 if tier == 'quick' else 2)):
            cases.append(dict(name=f"A-subsets[mod={st['mods']}]ops{ci}:{_opsname(chunk)}", fn='op_case',
                              params=dict(struct=st, ops=chunk, cplx=False, subset='choose'), opts=OA))
    # tensors without any stored block (all variants)
    sB = structs_B(tier, seed)
    for si in ([1, 9] if tier == 'quick' else range(len(sB))):
        if si >= len(sB):
            continue
        st = sB[si]
        for ci, chunk in enumerate(_chunks(opsB, 80)):
            cases.append(dict(name=f"B-noblocks[{si},mod={st['mods']},rank={st['rank']}]ops{ci}:{_opsname(chunk)}", fn='op_case',
                              params=dict(struct=st, ops=chunk, cplx=(si % 2 == 1), subset='none'), opts=OB))
    # depth-2 programs over a reduced catalogue: all ordered pairs (op1 then op2 on its result)
    sB = structs_B(tier, seed)
    for si in ([1, 7] if tier == 'quick' else range(1, 16)):
        if si >= len(sB) or sB[si]['rank'] > 3 or (tier != 'quick' and dense_size(sB[si]) > 24):
            continue
        st = sB[si]
        for ci, chunk in enumerate(_chunks(PAIR_FIRST, 5 if tier == 'quick' else 2)):
            cases.append(dict(name=f"pairs-B[{si},mod={st['mods']},rank={st['rank']}]first{ci}:{_opsname(chunk)}", fn='pair_case',
                              params=dict(struct=st, ops1=chunk, ops2=PAIR_SECOND, cplx=(si % 2 == 0), subset='draw' if si % 2 else 'all'),
                              opts=dict(OB, max_paths=60000)))
    sA = structs_A(tier)
    for si in ([2] if tier == 'quick' else [0, 2, 4]):
        st = sA[si]
        for o1 in PAIR_FIRST_A:
            cases.append(dict(name=f"pairs-A[mod={st['mods']}]first:{o1[0]}", fn='pair_case',
                              params=dict(struct=st, ops1=[o1], ops2=PAIR_SECOND_A, cplx=True, subset='all'), opts=OA))
    slow = float(__import__('os').environ.get('VERIF_SLOW', '1') or 1)  # development on a loaded machine only
    if slow != 1:
        for c in cases:
            c['opts'] = dict(c['opts'], max_wall_s=c['opts']['max_wall_s'] * slow, hard_timeout_s=c['opts']['hard_timeout_s'] * slow)
    return cases
